"""Hand-written reference of the SPIR-V specification facts the checks compare against.
Written from the specification text (unified1, SPIR-V 1.6 rev 4 / SDK 1.4.309), independently of
rspirv's reflect.rs / loader.rs. Classes are given by *rule over opcode names* where the
specification does so, so they extend to every opcode without an enumeration.

Two tiers (see DESIGN §5): `definite` members are asserted; `name-rule-only` members (vendor opcodes
whose JSON class cannot be consulted in this sandbox) are reported as observations only.
"""

# §2.2.5 / §3.x "Block Termination Instruction"
BLOCK_TERMINATORS = {
    "Branch", "BranchConditional", "Switch", "Return", "ReturnValue", "Kill", "Unreachable",
    "TerminateInvocation", "IgnoreIntersectionKHR", "TerminateRayKHR", "EmitMeshTasksEXT",
}
BRANCHES = {"Branch", "BranchConditional", "Switch"}
RETURNS = {"Return", "ReturnValue"}
ABORTS = BLOCK_TERMINATORS - BRANCHES - RETURNS

# §3.x Debug instructions
LOCATION_DEBUG = {"Line", "NoLine"}
NONLOCATION_DEBUG = {"SourceContinued", "Source", "SourceExtension", "Name", "MemberName", "String", "ModuleProcessed"}

# §3.x Annotation instructions
ANNOTATIONS = {"Decorate", "MemberDecorate", "DecorationGroup", "GroupDecorate", "GroupMemberDecorate", "DecorateId",
               "DecorateString", "MemberDecorateString"}
# alias names of the same opcodes
ANNOTATION_ALIASES = {"DecorateStringGOOGLE": "DecorateString", "MemberDecorateStringGOOGLE": "MemberDecorateString"}

# Core type-declaration and constant-creation instructions (spec §3.x "Type-Declaration", "Constant-Creation")
CORE_TYPES = {
    "TypeVoid", "TypeBool", "TypeInt", "TypeFloat", "TypeVector", "TypeMatrix", "TypeImage", "TypeSampler",
    "TypeSampledImage", "TypeArray", "TypeRuntimeArray", "TypeStruct", "TypeOpaque", "TypePointer", "TypeFunction",
    "TypeEvent", "TypeDeviceEvent", "TypeReserveId", "TypeQueue", "TypePipe", "TypeForwardPointer",
    "TypePipeStorage", "TypeNamedBarrier",
}
CORE_CONSTANTS = {
    "ConstantTrue", "ConstantFalse", "Constant", "ConstantComposite", "ConstantSampler", "ConstantNull",
    "SpecConstantTrue", "SpecConstantFalse", "SpecConstant", "SpecConstantComposite", "SpecConstantOp",
}


def is_type_name(n):
    """Every `OpType*` opcode declares a type (spec: 'Type-Declaration Instructions')."""
    return n.startswith("Type")


def is_constant_name(n):
    """`OpConstant*` / `OpSpecConstant*` create constants (spec: 'Constant-Creation Instructions')."""
    return n.startswith("Constant") or n.startswith("SpecConstant")


# Logical layout (spec §2.4): section of the module each opcode class belongs to, by opcode alone.
def layout_section(n):
    """Section name (field of dr::Module) for opcodes whose place the logical layout fixes by opcode alone,
    or None (function-body instructions and context-dependent ones)."""
    if n == "Capability":
        return "capabilities"
    if n == "Extension":
        return "extensions"
    if n == "ExtInstImport":
        return "ext_inst_imports"
    if n == "MemoryModel":
        return "memory_model"
    if n == "EntryPoint":
        return "entry_points"
    if n in ("ExecutionMode", "ExecutionModeId"):
        return "execution_modes"
    if n in ("String", "SourceExtension", "Source", "SourceContinued"):
        return "debug_string_source"
    if n in ("Name", "MemberName"):
        return "debug_names"
    if n == "ModuleProcessed":
        return "debug_module_processed"
    if n in ANNOTATIONS or n in ANNOTATION_ALIASES:
        return "annotations"
    if is_type_name(n) or is_constant_name(n):
        return "types_global_values"
    return None


MODULE_SECTIONS = ["capabilities", "extensions", "ext_inst_imports", "memory_model", "entry_points", "execution_modes",
                   "debug_string_source", "debug_names", "debug_module_processed", "annotations", "types_global_values"]

# Literal widths (spec §2.2.1 "Literal", OpConstant): widths <= 32 take one word, 64 takes two (low first)
SUPPORTED_INT_WIDTHS = {8: 1, 16: 1, 32: 1, 64: 2}
SUPPORTED_FLOAT_WIDTHS = {16: 1, 32: 1, 64: 2}

MAGIC = 0x07230203
HEADER_WORDS = 5
