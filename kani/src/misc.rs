//! Small kernels: header (C03), string packing (C02), `parse_words` byte view (C04), literals (C10).
use rspirv::binary::{Assemble, Consumer, DecodeError, ParseAction, ParseState};
use rspirv::dr;

pub struct Nop;
impl Consumer for Nop {
    fn initialize(&mut self) -> ParseAction {
        ParseAction::Continue
    }
    fn finalize(&mut self) -> ParseAction {
        ParseAction::Continue
    }
    fn consume_header(&mut self, _m: dr::ModuleHeader) -> ParseAction {
        ParseAction::Continue
    }
    fn consume_instruction(&mut self, _i: dr::Instruction) -> ParseAction {
        ParseAction::Continue
    }
}

pub const E_HEADER_ACCEPT: u32 = 500;
pub const E_HEADER_BOUND: u32 = 501;
pub const E_HEADER_VERSION: u32 = 502;
pub const E_HEADER_ERROR_KIND: u32 = 503;
pub const E_HEADER_ERROR_OFFSET: u32 = 504;
pub const E_STR_WORDS: u32 = 510;
pub const E_STR_BYTES: u32 = 511;
pub const E_STR_PADDING: u32 = 512;
pub const E_STR_ROUNDTRIP: u32 = 513;
pub const E_WORDS_VIEW: u32 = 520;
pub const E_LIT_WIDTH: u32 = 530;
pub const E_LIT_VALUE: u32 = 531;
pub const E_LIT_ERROR: u32 = 532;

pub const HDR_RAW: usize = 25;

/// raw: [len (<= 24), bytes...]
pub fn parse_header(raw: &[u8; HDR_RAW]) -> u32 {
    let len = raw[0] as usize;
    if len > 24 {
        return 1;
    }
    let bytes = &raw[1..1 + len];
    let mut c = Nop;
    let r = rspirv::binary::verif::parse_header(bytes, &mut c);
    let w = |i: usize| u32::from_le_bytes([bytes[4 * i], bytes[4 * i + 1], bytes[4 * i + 2], bytes[4 * i + 3]]);
    let complete = len >= 20;
    let res = match r {
        Ok(h) => {
            if !complete || w(0) != 0x0723_0203 {
                E_HEADER_ACCEPT
            } else if h.bound != w(3) {
                E_HEADER_BOUND
            } else if h.version() != (bytes[6], bytes[5]) {
                E_HEADER_VERSION
            } else {
                0
            }
        }
        Err(ParseState::HeaderIncomplete(DecodeError::StreamExpected(o))) => {
            if complete {
                E_HEADER_ERROR_KIND
            } else if o != 4 * (len / 4) {
                E_HEADER_ERROR_OFFSET
            } else {
                0
            }
        }
        Err(ParseState::EndiannessUnsupported) => {
            if !complete || w(0) != 0x0302_2307 {
                E_HEADER_ERROR_KIND
            } else {
                0
            }
        }
        Err(ParseState::HeaderIncorrect) => {
            if !complete || w(0) == 0x0723_0203 || w(0) == 0x0302_2307 {
                E_HEADER_ERROR_KIND
            } else {
                0
            }
        }
        Err(e) => {
            core::mem::forget(e);
            E_HEADER_ERROR_KIND
        }
    };
    res
}

pub const STR_RAW: usize = 8;

/// String packing (C02): raw = [len (<= 7), bytes]; NUL-free ASCII-agnostic bytes are packed little-endian, zero padded
/// to a word boundary with at least one NUL; decoding the words gives the string back.
pub fn string_pack(raw: &[u8; STR_RAW]) -> u32 {
    string_pack_upto::<7>(raw)
}

pub fn string_pack_upto<const MAX: usize>(raw: &[u8; STR_RAW]) -> u32 {
    let len = raw[0] as usize;
    if len > MAX {
        return 1;
    }
    let b = &raw[1..1 + len];
    let mut j = 0;
    while j < len {
        if b[j] == 0 || b[j] >= 0x80 {
            return 1;
        }
        j += 1;
    }
    // ASCII bytes are valid UTF-8; packing is byte-wise
    let s = unsafe { core::str::from_utf8_unchecked(b) };
    let op = core::mem::ManuallyDrop::new(dr::Operand::LiteralString(s.to_string()));
    let words = core::mem::ManuallyDrop::new(op.assemble());
    if words.len() != len / 4 + 1 {
        return E_STR_WORDS;
    }
    let mut k = 0;
    while k < 4 * words.len() {
        let byte = (words[k / 4] >> (8 * (k % 4))) as u8;
        if k < len {
            if byte != b[k] {
                return E_STR_BYTES;
            }
        } else if byte != 0 {
            return E_STR_PADDING;
        }
        k += 1;
    }
    0
}

/// String packing with multi-byte characters: raw = [number of chars (<= MAXC), one selector byte per char]; a selector below
/// 0x80 is that ASCII character (NUL excluded), the others pick a 2-, 3- or 4-byte character. The packed words hold exactly
/// the string's UTF-8 bytes, little-endian, then NUL padding to the word boundary with at least one NUL.
pub fn string_pack_utf8<const MAXC: usize>(raw: &[u8; STR_RAW]) -> u32 {
    let n = raw[0] as usize;
    if n > MAXC || n + 1 > STR_RAW {
        return 1;
    }
    let mut s = String::new();
    let mut j = 0;
    while j < n {
        let c = raw[1 + j];
        if c == 0 {
            return 1;
        }
        let ch = if c < 0x80 {
            c as char
        } else if c % 3 == 0 {
            '\u{e9}'
        } else if c % 3 == 1 {
            '\u{20ac}'
        } else {
            '\u{1f600}'
        };
        s.push(ch);
        j += 1;
    }
    let len = s.len();
    let mut bytes = [0u8; 4 * STR_RAW];
    let mut k = 0;
    while k < len {
        bytes[k] = s.as_bytes()[k];
        k += 1;
    }
    let op = core::mem::ManuallyDrop::new(dr::Operand::LiteralString(s));
    let words = core::mem::ManuallyDrop::new(op.assemble());
    if words.len() != len / 4 + 1 {
        return E_STR_WORDS;
    }
    let mut k = 0;
    while k < 4 * words.len() {
        let byte = (words[k / 4] >> (8 * (k % 4))) as u8;
        if k < len {
            if byte != bytes[k] {
                return E_STR_BYTES;
            }
        } else if byte != 0 {
            return E_STR_PADDING;
        }
        k += 1;
    }
    0
}

pub const WORDS_RAW: usize = 17;

/// `parse_words` reinterprets &[u32] as bytes (unsafe): the byte view has 4n bytes, the words decode to themselves.
pub fn words_view(raw: &[u8; WORDS_RAW]) -> u32 {
    let n = (raw[0] % 5) as usize;
    let mut ws = [0u32; 4];
    let mut i = 0;
    while i < 4 {
        ws[i] = u32::from_le_bytes([raw[1 + 4 * i], raw[2 + 4 * i], raw[3 + 4 * i], raw[4 + 4 * i]]);
        i += 1;
    }
    struct Rec {
        hdr: u32,
    }
    impl Consumer for Rec {
        fn initialize(&mut self) -> ParseAction {
            ParseAction::Continue
        }
        fn finalize(&mut self) -> ParseAction {
            ParseAction::Continue
        }
        fn consume_header(&mut self, _m: dr::ModuleHeader) -> ParseAction {
            self.hdr += 1;
            ParseAction::Stop
        }
        fn consume_instruction(&mut self, _i: dr::Instruction) -> ParseAction {
            ParseAction::Stop
        }
    }
    let mut c = Rec { hdr: 0 };
    let r = core::mem::ManuallyDrop::new(rspirv::binary::parse_words(&ws[..n], &mut c));
    // fewer than five words can never be a header
    if c.hdr != 0 || r.is_ok() {
        return E_WORDS_VIEW;
    }
    0
}

pub const LIT_RAW: usize = 16;

/// `parse_literal` (C10): raw = [kind(0 unknown,1 int,2 float), signed, width(4), len(<=8), bytes(8)]
pub fn parse_literal(raw: &[u8; LIT_RAW]) -> u32 {
    let width = u32::from_le_bytes([raw[2], raw[3], raw[4], raw[5]]);
    let len = raw[6] as usize;
    if len > 8 || raw[0] > 2 {
        return 1;
    }
    let bytes = &raw[7..7 + len];
    let tracked = match raw[0] {
        0 => None,
        1 => Some((false, width, raw[1] % 2 == 1)),
        _ => Some((true, width, false)),
    };
    let mut c = Nop;
    let (r, off) = rspirv::binary::verif::parse_literal(bytes, &mut c, tracked);
    let r = core::mem::ManuallyDrop::new(r);
    let words = match tracked {
        None => Some(1),
        Some((false, w, _)) => match w {
            8 | 16 | 32 => Some(1),
            64 => Some(2),
            _ => None,
        },
        Some((true, w, _)) => match w {
            16 | 32 => Some(1),
            64 => Some(2),
            _ => None,
        },
    };
    let le = |i: usize| u32::from_le_bytes([bytes[4 * i], bytes[4 * i + 1], bytes[4 * i + 2], bytes[4 * i + 3]]);
    match (&*r, words) {
        (Ok(dr::Operand::LiteralBit32(v)), Some(1)) => {
            if len < 4 || off != 4 {
                return E_LIT_WIDTH;
            }
            if *v != le(0) {
                return E_LIT_VALUE;
            }
            0
        }
        (Ok(dr::Operand::LiteralBit64(v)), Some(2)) => {
            if len < 8 || off != 8 {
                return E_LIT_WIDTH;
            }
            if *v != ((le(1) as u64) << 32 | le(0) as u64) {
                return E_LIT_VALUE;
            }
            0
        }
        (Ok(_), _) => E_LIT_WIDTH,
        (Err(ParseState::TypeUnsupported(_, _)), None) => 0,
        (Err(ParseState::OperandError(_)), Some(n)) => {
            if len >= 4 * n {
                E_LIT_ERROR
            } else {
                0
            }
        }
        (Err(_), _) => E_LIT_ERROR,
    }
}
