//! Small kernels: string packing (C02), `parse_words` byte view (C04), header (C03), literals (C10).
