//! Storage tokens (C19): a history of `append` / `fetch_or_append` against an array model.
use rspirv::sr::storage::{Storage, Token};

pub const OPS: usize = 6;
pub const RAW: usize = 1 + 2 * OPS;

/// A value type whose equality is not reflexive for 0xFF (like NaN).
#[derive(Clone, Copy, Debug)]
pub struct Odd(pub u8);
impl PartialEq for Odd {
    fn eq(&self, o: &Odd) -> bool {
        self.0 != 0xff && self.0 == o.0
    }
}

/// A value type whose equality looks at a key (low nibble) only: equal values can differ, so whether the stored value
/// survives a `fetch_or_append` hit is observable.
#[derive(Clone, Copy, Debug)]
pub struct Keyed(pub u8);
impl PartialEq for Keyed {
    fn eq(&self, o: &Keyed) -> bool {
        self.0 & 0x0f == o.0 & 0x0f
    }
}

/// An enum whose equality relates values of DIFFERENT variants (only the payload counts).
#[derive(Clone, Copy, Debug)]
pub enum Cross {
    A(u8),
    B(u8),
}
impl Cross {
    fn payload(&self) -> u8 {
        match *self {
            Cross::A(v) | Cross::B(v) => v,
        }
    }
}
impl PartialEq for Cross {
    fn eq(&self, o: &Cross) -> bool {
        self.payload() == o.payload()
    }
}

pub const E_TOKEN_NOT_DENSE: u32 = 200;
pub const E_LOOKUP_CHANGED: u32 = 201;
pub const E_FETCH_NOT_FIRST: u32 = 202;
pub const E_TOKEN_REUSED: u32 = 203;
pub const E_LOOKUP_WRONG: u32 = 204;

pub trait Val: PartialEq + Copy {
    fn mk(v: u8) -> Self;
    fn raw(&self) -> u8;
}
impl Val for u8 {
    fn mk(v: u8) -> u8 {
        v
    }
    fn raw(&self) -> u8 {
        *self
    }
}
impl Val for Odd {
    fn mk(v: u8) -> Odd {
        Odd(v)
    }
    fn raw(&self) -> u8 {
        self.0
    }
}

impl Val for Keyed {
    fn mk(v: u8) -> Keyed {
        Keyed(v)
    }
    fn raw(&self) -> u8 {
        self.0
    }
}

impl Val for Cross {
    fn mk(v: u8) -> Cross {
        if v & 0x80 != 0 {
            Cross::A(v & 0x7f)
        } else {
            Cross::B(v)
        }
    }
    fn raw(&self) -> u8 {
        match *self {
            Cross::A(v) => v | 0x80,
            Cross::B(v) => v,
        }
    }
}

/// raw layout: [nops, (kind, value) * OPS]; `max_ops` bounds the history length.
pub fn scenario<T: Val>(raw: &[u8; RAW], max_ops: usize) -> u32 {
    // exactly `max_ops` operations: every shorter history is a prefix, and the post-conditions are
    // checked after every operation
    let nops = max_ops;
    if nops > OPS {
        return 1;
    }
    let mut s: Storage<T> = Storage::new();
    let mut model: [u8; OPS] = [0; OPS];
    let mut toks: [Option<Token<T>>; OPS] = [None; OPS];
    let mut mlen = 0usize;
    let mut k = 0;
    while k < nops {
        let kind = raw[1 + 2 * k] % 2;
        let v = raw[2 + 2 * k];
        if kind == 0 {
            let t = s.append(T::mk(v));
            if t.index() as usize != mlen {
                return E_TOKEN_NOT_DENSE;
            }
            if s[t].raw() != v {
                return E_LOOKUP_WRONG;
            }
            model[mlen] = v;
            toks[mlen] = Some(t);
            mlen += 1;
        } else {
            let t = s.fetch_or_append(T::mk(v));
            // first stored element equal to v, if any
            let mut first = mlen;
            let mut j = 0;
            while j < mlen {
                if first == mlen && T::mk(model[j]) == T::mk(v) {
                    first = j;
                }
                j += 1;
            }
            if first < mlen {
                if t.index() as usize != first {
                    return E_FETCH_NOT_FIRST;
                }
            } else {
                if t.index() as usize != mlen {
                    return E_TOKEN_NOT_DENSE;
                }
                if s[t].raw() != v {
                    return E_LOOKUP_WRONG;
                }
                model[mlen] = v;
                toks[mlen] = Some(t);
                mlen += 1;
            }
        }
        // tokens handed out so far are pairwise distinct and keep yielding their values
        let mut j = 0;
        while j < mlen {
            if let Some(tok) = toks[j] {
                if tok.index() as usize != j {
                    return E_TOKEN_REUSED;
                }
                if s[tok].raw() != model[j] {
                    return E_LOOKUP_CHANGED;
                }
            }
            j += 1;
        }
        k += 1;
    }
    core::mem::forget(s);
    0
}

pub fn storage_u8(raw: &[u8; RAW]) -> u32 {
    scenario::<u8>(raw, OPS)
}
pub fn storage_odd(raw: &[u8; RAW]) -> u32 {
    scenario::<Odd>(raw, OPS)
}
pub fn storage_keyed(raw: &[u8; RAW]) -> u32 {
    scenario::<Keyed>(raw, OPS)
}
pub fn storage_cross(raw: &[u8; RAW]) -> u32 {
    scenario::<Cross>(raw, OPS)
}
