//! Loader: one `consume_instruction` step from an arbitrary state (C05).
