//! Kani proof harnesses: `raw` is arbitrary, the scenario must answer 0 (held) or 1 (outside precondition).
use crate::*;

macro_rules! harness {
    ($name:ident, $n:expr, $unwind:expr, $call:expr) => {
        #[kani::proof]
        #[kani::unwind($unwind)]
        pub fn $name() {
            let raw: [u8; $n] = kani::any();
            let code: u32 = $call(&raw);
            kani::cover!(code == 0, "scenario reaches a non-skipped end");
            assert!(code <= 1, "scenario post-condition");
        }
    };
}

const DEC: usize = dec::HDR + dec::BUF;
const DECS: usize = dec::HDR + dec::BUF_SMALL;
const DECM: usize = dec::HDR + dec::BUF_MID;
harness!(k_dec_word, DEC, 6, dec::dec_word::<{ dec::BUF }>);
harness!(k_dec_words, DEC, 6, dec::dec_words::<{ dec::BUF }>);
harness!(k_dec_bit64, DEC, 6, dec::dec_bit64::<{ dec::BUF }>);
pub fn stub_format(_args: core::fmt::Arguments<'_>) -> String {
    String::new()
}

macro_rules! harness_nofmt {
    ($name:ident, $n:expr, $unwind:expr, $call:expr) => {
        #[kani::proof]
        #[kani::unwind($unwind)]
        #[kani::stub(std::fmt::format, stub_format)]
        pub fn $name() {
            let raw: [u8; $n] = kani::any();
            let code: u32 = $call(&raw);
            kani::cover!(code == 0, "scenario reaches a non-skipped end");
            assert!(code <= 1, "scenario post-condition");
        }
    };
}
harness_nofmt!(k_dec_string, DEC, 14, dec::dec_string::<{ dec::BUF }>);
harness_nofmt!(k_dec_string_mid, DECM, 10, dec::dec_string::<{ dec::BUF_MID }>);
harness_nofmt!(k_dec_string_small, DECS, 8, dec::dec_string::<{ dec::BUF_SMALL }>);
harness!(k_dec_limit, DEC, 6, dec::dec_limit::<{ dec::BUF }>);
harness!(k_dec_typed, DEC, 6, dec::dec_typed::<{ dec::BUF }>);

#[kani::proof]
#[kani::unwind(8)]
pub fn k_storage_u8_3() {
    let raw: [u8; storage::RAW] = kani::any();
    let code = storage::scenario::<u8>(&raw, 3);
    kani::cover!(code == 0);
    assert!(code <= 1);
}
#[kani::proof]
#[kani::unwind(8)]
pub fn k_storage_u8_4() {
    let raw: [u8; storage::RAW] = kani::any();
    let code = storage::scenario::<u8>(&raw, 4);
    kani::cover!(code == 0);
    assert!(code <= 1);
}
#[kani::proof]
#[kani::unwind(8)]
pub fn k_storage_u8_5() {
    let raw: [u8; storage::RAW] = kani::any();
    let code = storage::scenario::<u8>(&raw, 5);
    kani::cover!(code == 0);
    assert!(code <= 1);
}
#[kani::proof]
#[kani::unwind(8)]
pub fn k_storage_u8_6() {
    let raw: [u8; storage::RAW] = kani::any();
    let code = storage::scenario::<u8>(&raw, 6);
    kani::cover!(code == 0);
    assert!(code <= 1);
}
#[kani::proof]
#[kani::unwind(8)]
pub fn k_storage_keyed_3() {
    let raw: [u8; storage::RAW] = kani::any();
    let code = storage::scenario::<storage::Keyed>(&raw, 3);
    kani::cover!(code == 0);
    assert!(code <= 1);
}
#[kani::proof]
#[kani::unwind(8)]
pub fn k_storage_keyed_4() {
    let raw: [u8; storage::RAW] = kani::any();
    let code = storage::scenario::<storage::Keyed>(&raw, 4);
    kani::cover!(code == 0);
    assert!(code <= 1);
}
#[kani::proof]
#[kani::unwind(8)]
pub fn k_storage_keyed_5() {
    let raw: [u8; storage::RAW] = kani::any();
    let code = storage::scenario::<storage::Keyed>(&raw, 5);
    kani::cover!(code == 0);
    assert!(code <= 1);
}
#[kani::proof]
#[kani::unwind(8)]
pub fn k_storage_keyed_6() {
    let raw: [u8; storage::RAW] = kani::any();
    let code = storage::scenario::<storage::Keyed>(&raw, 6);
    kani::cover!(code == 0);
    assert!(code <= 1);
}
#[kani::proof]
#[kani::unwind(8)]
pub fn k_storage_cross_3() {
    let raw: [u8; storage::RAW] = kani::any();
    let code = storage::scenario::<storage::Cross>(&raw, 3);
    kani::cover!(code == 0);
    assert!(code <= 1);
}
#[kani::proof]
#[kani::unwind(8)]
pub fn k_storage_cross_4() {
    let raw: [u8; storage::RAW] = kani::any();
    let code = storage::scenario::<storage::Cross>(&raw, 4);
    kani::cover!(code == 0);
    assert!(code <= 1);
}
#[kani::proof]
#[kani::unwind(8)]
pub fn k_storage_cross_5() {
    let raw: [u8; storage::RAW] = kani::any();
    let code = storage::scenario::<storage::Cross>(&raw, 5);
    kani::cover!(code == 0);
    assert!(code <= 1);
}
#[kani::proof]
#[kani::unwind(8)]
pub fn k_storage_cross_6() {
    let raw: [u8; storage::RAW] = kani::any();
    let code = storage::scenario::<storage::Cross>(&raw, 6);
    kani::cover!(code == 0);
    assert!(code <= 1);
}
#[kani::proof]
#[kani::unwind(8)]
pub fn k_storage_odd_3() {
    let raw: [u8; storage::RAW] = kani::any();
    let code = storage::scenario::<storage::Odd>(&raw, 3);
    kani::cover!(code == 0);
    assert!(code <= 1);
}
#[kani::proof]
#[kani::unwind(8)]
pub fn k_storage_odd_4() {
    let raw: [u8; storage::RAW] = kani::any();
    let code = storage::scenario::<storage::Odd>(&raw, 4);
    kani::cover!(code == 0);
    assert!(code <= 1);
}
#[kani::proof]
#[kani::unwind(8)]
pub fn k_storage_odd_5() {
    let raw: [u8; storage::RAW] = kani::any();
    let code = storage::scenario::<storage::Odd>(&raw, 5);
    kani::cover!(code == 0);
    assert!(code <= 1);
}
#[kani::proof]
#[kani::unwind(8)]
pub fn k_storage_odd_6() {
    let raw: [u8; storage::RAW] = kani::any();
    let code = storage::scenario::<storage::Odd>(&raw, 6);
    kani::cover!(code == 0);
    assert!(code <= 1);
}

pub fn stub_get(opcode: spirv::Op) -> &'static rspirv::grammar::Instruction<'static> {
    // contract of CoreInstructionTable::get (discharged by check C09): the entry carries the requested opcode
    Box::leak(Box::new(rspirv::grammar::Instruction {
        opname: "",
        opcode,
        capabilities: &[],
        extensions: &[],
        operands: &[],
    }))
}

macro_rules! harness_b {
    ($name:ident, $unwind:expr, $call:expr) => {
        #[kani::proof]
        #[kani::unwind($unwind)]
        #[kani::stub(rspirv::grammar::CoreInstructionTable::get, stub_get)]
        pub fn $name() {
            let raw: [u8; builder::RAW] = kani::any();
            let code: u32 = $call(&raw);
            kani::cover!(code == 0, "scenario reaches a non-skipped end");
            assert!(code <= 1, "scenario post-condition");
        }
    };
}
harness_b!(k_builder_step_0_0_0_0_g0, 5, builder::builder_step::<0, 0, 0, 0, 0>);
harness_b!(k_builder_step_0_0_0_0_g1, 5, builder::builder_step::<0, 0, 0, 0, 1>);
harness_b!(k_builder_step_0_0_0_0_g2, 5, builder::builder_step::<0, 0, 0, 0, 2>);
harness_b!(k_builder_step_0_0_0_0_g3, 5, builder::builder_step::<0, 0, 0, 0, 3>);
harness_b!(k_builder_step_1_0_0_0_g0, 5, builder::builder_step::<1, 0, 0, 0, 0>);
harness_b!(k_builder_step_1_0_0_0_g1, 5, builder::builder_step::<1, 0, 0, 0, 1>);
harness_b!(k_builder_step_1_0_0_0_g2, 5, builder::builder_step::<1, 0, 0, 0, 2>);
harness_b!(k_builder_step_1_0_0_0_g3, 5, builder::builder_step::<1, 0, 0, 0, 3>);
harness_b!(k_builder_step_1_1_0_0_g0, 5, builder::builder_step::<1, 1, 0, 0, 0>);
harness_b!(k_builder_step_1_1_0_0_g1, 5, builder::builder_step::<1, 1, 0, 0, 1>);
harness_b!(k_builder_step_1_1_0_0_g2, 5, builder::builder_step::<1, 1, 0, 0, 2>);
harness_b!(k_builder_step_1_1_0_0_g3, 5, builder::builder_step::<1, 1, 0, 0, 3>);
harness_b!(k_builder_step_1_1_0_1_g0, 5, builder::builder_step::<1, 1, 0, 1, 0>);
harness_b!(k_builder_step_1_1_0_1_g1, 5, builder::builder_step::<1, 1, 0, 1, 1>);
harness_b!(k_builder_step_1_1_0_1_g2, 5, builder::builder_step::<1, 1, 0, 1, 2>);
harness_b!(k_builder_step_1_1_0_1_g3, 5, builder::builder_step::<1, 1, 0, 1, 3>);
harness_b!(k_builder_step_2_1_0_1_g0, 5, builder::builder_step::<2, 1, 0, 1, 0>);
harness_b!(k_builder_step_2_1_0_1_g1, 5, builder::builder_step::<2, 1, 0, 1, 1>);
harness_b!(k_builder_step_2_1_0_1_g2, 5, builder::builder_step::<2, 1, 0, 1, 2>);
harness_b!(k_builder_step_2_1_0_1_g3, 5, builder::builder_step::<2, 1, 0, 1, 3>);
harness_b!(k_builder_step_2_2_1_1_g0, 5, builder::builder_step::<2, 2, 1, 1, 0>);
harness_b!(k_builder_step_2_2_1_1_g1, 5, builder::builder_step::<2, 2, 1, 1, 1>);
harness_b!(k_builder_step_2_2_1_1_g2, 5, builder::builder_step::<2, 2, 1, 1, 2>);
harness_b!(k_builder_step_2_2_1_1_g3, 5, builder::builder_step::<2, 2, 1, 1, 3>);
harness_b!(k_builder_module, 5, builder::builder_module);
harness_b!(k_builder_types, 5, builder::builder_types);
harness_b!(k_type_identical, 5, builder::type_identical);

harness_b!(k_probe_sel, 5, builder::builder_step_sel::<2, 1, 0, 1, 0, 1, 1>);
harness_b!(k_probe_sel_g1, 5, builder::builder_step_sel::<2, 1, 0, 1, 1, 1, 1>);

pub fn stub_random_state() -> std::collections::hash_map::RandomState {
    // the hasher keys are irrelevant to the properties; the real constructor needs OS randomness (FFI)
    unsafe { core::mem::transmute::<[u64; 2], std::collections::hash_map::RandomState>([1, 2]) }
}

macro_rules! harness_p {
    ($name:ident, $n:expr, $unwind:expr, $call:expr) => {
        #[kani::proof]
        #[kani::unwind($unwind)]
        #[kani::stub(std::fmt::format, stub_format)]
        #[kani::stub(std::collections::hash_map::RandomState::new, stub_random_state)]
        #[kani::stub(rspirv::grammar::CoreInstructionTable::get, stub_get)]
        pub fn $name() {
            let raw: [u8; $n] = kani::any();
            let code: u32 = $call(&raw);
            kani::cover!(code == 0, "scenario reaches a non-skipped end");
            assert!(code <= 1, "scenario post-condition");
        }
    };
}
harness_p!(k_parse_header, misc::HDR_RAW, 8, misc::parse_header);
harness_p!(k_string_pack, misc::STR_RAW, 30, misc::string_pack);
harness_p!(k_words_view, misc::WORDS_RAW, 8, misc::words_view);
harness_p!(k_parse_literal, misc::LIT_RAW, 10, misc::parse_literal);
harness_p!(k_string_pack_small, misc::STR_RAW, 30, misc::string_pack_upto::<4>);
// string_pack_utf8 (multi-byte characters) runs out of memory in CBMC's propositional conversion even for two characters
// (String::push + Vec growth): it is run natively over every combination of its alphabet instead (checks/c02.py).
