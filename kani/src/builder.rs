//! Builder: one call from an arbitrary valid state (C12, C13).
//!
//! State: a module with NF functions, each with NB blocks of NI instructions (concrete shape per
//! instantiation), an arbitrary id counter and an arbitrary selection satisfying the invariant the
//! property states: "the selection designates an existing function and block, or nothing"
//! (a block can only be selected inside a selected function).
//! One arbitrary call is made; the post-conditions and the invariant are checked. Invariant + step
//! covers call histories of any length over modules of these shapes.
use rspirv::dr::{self, Builder, InsertPoint};
use rspirv::spirv;

pub const RAW: usize = 16;

pub const E_INV_FUNCTION_INDEX: u32 = 400;
pub const E_INV_BLOCK_INDEX: u32 = 401;
pub const E_INV_BLOCK_WITHOUT_FUNCTION: u32 = 402;
pub const E_SHOULD_FAIL: u32 = 403;
pub const E_SHOULD_SUCCEED: u32 = 404;
pub const E_FAILED_CALL_CHANGED_MODULE: u32 = 405;
pub const E_TERMINATOR_LEFT_BLOCK_OPEN: u32 = 406;
pub const E_END_FUNCTION_LEFT_FUNCTION_OPEN: u32 = 407;
pub const E_ID_NOT_FRESH: u32 = 408;
pub const E_ID_COUNTER_WENT_BACK: u32 = 409;
pub const E_ID_COUNTER_STEP: u32 = 410;
pub const E_EXPLICIT_ID_IGNORED: u32 = 411;
pub const E_WRONG_CONTAINER: u32 = 412;
pub const E_BOUND: u32 = 413;
pub const E_BLOCK_NOT_OPENED: u32 = 414;
pub const E_FUNCTION_NOT_OPENED: u32 = 415;
pub const E_DEDUP_APPENDED: u32 = 416;
pub const E_DEDUP_WRONG_ID: u32 = 417;
pub const E_TYPE_NOT_APPENDED: u32 = 418;
pub const E_VERSION: u32 = 419;

fn inst(op: spirv::Op, rid: Option<u32>) -> dr::Instruction {
    dr::Instruction::new(op, None, rid, vec![])
}

pub fn make_module<const NF: usize, const NB: usize, const NB1: usize, const NI: usize>() -> dr::Module {
    make_module_ended::<NF, NB, NB1, NI>(false)
}

/// `ended`: every function already carries its OpFunctionEnd (a finished function that was selected again for editing).
pub fn make_module_ended<const NF: usize, const NB: usize, const NB1: usize, const NI: usize>(ended: bool) -> dr::Module {
    let mut m = dr::Module::new();
    let mut f = 0;
    while f < NF {
        let mut func = dr::Function::new();
        func.def = Some(inst(spirv::Op::Function, Some(100 + f as u32)));
        let mut b = 0;
        let nb = if f == 0 { NB } else { NB1 };
        while b < nb {
            let mut blk = dr::Block::new();
            blk.label = Some(inst(spirv::Op::Label, Some(200 + (f * 4 + b) as u32)));
            let mut i = 0;
            while i < NI {
                blk.instructions.push(inst(spirv::Op::Nop, None));
                i += 1;
            }
            func.blocks.push(blk);
            b += 1;
        }
        if ended {
            func.end = Some(inst(spirv::Op::FunctionEnd, None));
        }
        m.functions.push(func);
        f += 1;
    }
    m
}

/// Counts of every container of the module (the "instructions of the module under construction").
#[derive(PartialEq, Clone, Copy)]
pub struct Counts {
    pub globals: [usize; 10],
    pub memory_model: bool,
    pub header: bool,
    pub nfun: usize,
    pub fun: [(bool, bool, usize, usize, [usize; 3]); 3],
}

pub fn counts(m: &dr::Module) -> Counts {
    let mut fun = [(false, false, 0usize, 0usize, [0usize; 3]); 3];
    let mut k = 0;
    while k < m.functions.len() && k < 3 {
        let f = &m.functions[k];
        let mut bl = [0usize; 3];
        let mut j = 0;
        while j < f.blocks.len() && j < 3 {
            bl[j] = f.blocks[j].instructions.len() + if f.blocks[j].label.is_some() { 100 } else { 0 };
            j += 1;
        }
        fun[k] = (f.def.is_some(), f.end.is_some(), f.parameters.len(), f.blocks.len(), bl);
        k += 1;
    }
    Counts {
        globals: [
            m.capabilities.len(),
            m.extensions.len(),
            m.ext_inst_imports.len(),
            m.entry_points.len(),
            m.execution_modes.len(),
            m.debug_string_source.len(),
            m.debug_names.len(),
            m.debug_module_processed.len(),
            m.annotations.len(),
            m.types_global_values.len(),
        ],
        memory_model: m.memory_model.is_some(),
        header: m.header.is_some(),
        nfun: m.functions.len(),
        fun,
    }
}

fn invariant(b: &Builder) -> u32 {
    let m = b.module_ref();
    match (b.selected_function(), b.selected_block()) {
        (None, None) => 0,
        (None, Some(_)) => E_INV_BLOCK_WITHOUT_FUNCTION,
        (Some(f), sb) => {
            if f >= m.functions.len() {
                return E_INV_FUNCTION_INDEX;
            }
            if let Some(bi) = sb {
                if bi >= m.functions[f].blocks.len() {
                    return E_INV_BLOCK_INDEX;
                }
            }
            0
        }
    }
}

fn opt_index(tag: u8, v: u8) -> Option<usize> {
    if tag % 2 == 0 {
        None
    } else {
        Some(v as usize)
    }
}

/// Call groups (one harness per group keeps the CBMC formula small):
/// 0 = function/block structure, 1 = block instructions and terminators, 2 = module-level / variable / undef / line,
/// 3 = selection and id().
pub const GROUPS: [&[u8]; 4] = [&[0, 1, 2, 5], &[3, 4, 13, 14, 16], &[6, 7, 8, 9, 10], &[11, 12, 15]];

/// raw: [sel_f tag, sel_f, sel_b tag, sel_b, next_id(4), call, a0, a1, a2, a3(4)]
/// Shape: NF functions; function 0 has NB blocks, the others NB1; every block has NI instructions.
pub fn builder_step<const NF: usize, const NB: usize, const NB1: usize, const NI: usize, const G: usize>(raw: &[u8; RAW]) -> u32 {
    builder_step_sel::<NF, NB, NB1, NI, G, 99, 99>(raw)
}

/// Same, with the selection fixed by SF / SB (0 = None, k+1 = Some(k), 99 = taken from raw).
pub fn builder_step_sel<const NF: usize, const NB: usize, const NB1: usize, const NI: usize, const G: usize, const SF: usize, const SB: usize>(
    raw: &[u8; RAW],
) -> u32 {
    let sel_f = if SF == 99 { opt_index(raw[0], raw[1]) } else if SF == 0 { None } else { Some(SF - 1) };
    let sel_b = if SB == 99 { opt_index(raw[2], raw[3]) } else if SB == 0 { None } else { Some(SB - 1) };
    let next_id = u32::from_le_bytes([raw[4], raw[5], raw[6], raw[7]]);
    // precondition = the invariant of the property, and ids not exhausted
    match (sel_f, sel_b) {
        (None, Some(_)) => return 1,
        (Some(f), _) if f >= NF => return 1,
        (Some(f), Some(b)) if b >= (if f == 0 { NB } else { NB1 }) => return 1,
        _ => {}
    }
    let nb_sel = match sel_f {
        Some(0) => NB,
        Some(_) => NB1,
        None => 0,
    };
    if next_id == 0 || next_id > 0xffff_fff0 {
        return 1;
    }
    let group = GROUPS[G];
    if (raw[8] as usize) >= group.len() {
        return 1;
    }
    let call = group[raw[8] as usize];
    let a0 = raw[9];
    let a1 = raw[10];
    let a2 = raw[11];
    let word = u32::from_le_bytes([raw[12], raw[13], raw[14], raw[15]]);
    let ended = raw[0] & 2 != 0;
    let mut module0 = make_module_ended::<NF, NB, NB1, NI>(ended);
    // native replay only (CBMC explores the Nop-filled blocks): bit 2 makes every non-empty block end in a terminator, i.e. a block
    // that was finished and then selected again for editing
    if cfg!(not(kani)) && raw[0] & 4 != 0 {
        for f in module0.functions.iter_mut() {
            for blk in f.blocks.iter_mut() {
                if let Some(l) = blk.instructions.last_mut() {
                    *l = inst(spirv::Op::Return, None);
                }
            }
        }
    }
    let mut b = core::mem::ManuallyDrop::new(Builder::verif_from_parts(module0, next_id, sel_f, sel_b));
    let before = counts(b.module_ref());
    let fn_open = sel_f.is_some();
    let blk_open = sel_b.is_some();
    let explicit = if a0 % 2 == 1 { Some(word) } else { None };
    // (ok, returned id, whether the call allocates an id when not given one explicitly)
    let mut returned: Option<u32> = None;
    let mut allocates = false;
    let ok: bool;
    let mut expect_ok = true;
    match call {
        0 => {
            let r = core::mem::ManuallyDrop::new(b.begin_function(7, explicit, spirv::FunctionControl::NONE, 8));
            expect_ok = !fn_open;
            allocates = explicit.is_none();
            ok = r.is_ok();
            if let Ok(id) = *r {
                returned = Some(id);
                if b.selected_function() != Some(NF) || b.module_ref().functions.len() != NF + 1 {
                    return E_FUNCTION_NOT_OPENED;
                }
            }
        }
        1 => {
            let r = core::mem::ManuallyDrop::new(b.end_function());
            expect_ok = fn_open;
            ok = r.is_ok();
            if ok {
                if b.selected_function().is_some() {
                    return E_END_FUNCTION_LEFT_FUNCTION_OPEN;
                }
                if !b.module_ref().functions[sel_f.unwrap()].end.is_some() {
                    return E_WRONG_CONTAINER;
                }
            }
        }
        2 => {
            let r = core::mem::ManuallyDrop::new(b.begin_block(explicit));
            expect_ok = fn_open && !blk_open;
            allocates = explicit.is_none();
            ok = r.is_ok();
            if let Ok(id) = *r {
                returned = Some(id);
                let f = sel_f.unwrap();
                if b.selected_block() != Some(nb_sel) || b.module_ref().functions[f].blocks.len() != nb_sel + 1 {
                    return E_BLOCK_NOT_OPENED;
                }
            }
        }
        3 => {
            let r = core::mem::ManuallyDrop::new(b.ret());
            expect_ok = blk_open;
            ok = r.is_ok();
            if ok && b.selected_block().is_some() {
                return E_TERMINATOR_LEFT_BLOCK_OPEN;
            }
        }
        4 => {
            let r = core::mem::ManuallyDrop::new(b.nop());
            expect_ok = blk_open;
            ok = r.is_ok();
            if ok {
                let (f, bi) = (sel_f.unwrap(), sel_b.unwrap());
                if b.module_ref().functions[f].blocks[bi].instructions.len() != NI + 1 {
                    return E_WRONG_CONTAINER;
                }
            }
        }
        5 => {
            let r = core::mem::ManuallyDrop::new(b.function_parameter(9));
            expect_ok = fn_open;
            allocates = true;
            ok = r.is_ok();
            if let Ok(id) = *r {
                returned = Some(id);
            }
        }
        6 => {
            b.capability(spirv::Capability::Shader);
            ok = true;
            if b.module_ref().capabilities.len() != 1 {
                return E_WRONG_CONTAINER;
            }
        }
        7 => {
            let id = b.variable(9, explicit, spirv::StorageClass::Function, None);
            allocates = explicit.is_none();
            returned = Some(id);
            ok = true;
            let m = b.module_ref();
            let in_block = fn_open && blk_open;
            let global_grew = m.types_global_values.len() == 1;
            if in_block == global_grew {
                return E_WRONG_CONTAINER;
            }
        }
        8 => {
            let id = b.undef(9, explicit);
            allocates = explicit.is_none();
            returned = Some(id);
            ok = true;
        }
        9 => {
            b.line(3, a1 as u32, a2 as u32);
            ok = true;
        }
        10 => {
            b.no_line();
            ok = true;
        }
        11 => {
            let idx = opt_index(a0, a1);
            let r = core::mem::ManuallyDrop::new(b.select_function(idx));
            expect_ok = idx.map_or(true, |i| i < NF);
            ok = r.is_ok();
        }
        12 => {
            let idx = opt_index(a0, a1);
            let r = core::mem::ManuallyDrop::new(b.select_block(idx));
            expect_ok = match idx {
                None => true,
                Some(i) => fn_open && i < nb_sel,
            };
            ok = r.is_ok();
        }
        13 => {
            let r = core::mem::ManuallyDrop::new(b.pop_instruction());
            expect_ok = blk_open && NI > 0;
            ok = r.is_ok();

        }
        14 => {
            // insertion offsets within the selected block
            let off = a1 as usize;
            if off > NI {
                return 1;
            }
            let ip = match a2 % 4 {
                0 => InsertPoint::Begin,
                1 => InsertPoint::End,
                2 => InsertPoint::FromBegin(off),
                _ => InsertPoint::FromEnd(off),
            };
            let r = core::mem::ManuallyDrop::new(b.insert_nop(ip));
            expect_ok = blk_open;
            ok = r.is_ok();
        }
        15 => {
            let old = b.verif_next_id();
            let id = b.id();
            if id != old || b.verif_next_id() != old + 1 {
                return E_ID_NOT_FRESH;
            }
            ok = true;
        }
        16 => {
            let ip = match a2 % 2 {
                0 => InsertPoint::Begin,
                _ => InsertPoint::End,
            };
            let r = core::mem::ManuallyDrop::new(b.insert_ret(ip));
            expect_ok = blk_open;
            ok = r.is_ok();
            if ok && b.selected_block().is_some() {
                return E_TERMINATOR_LEFT_BLOCK_OPEN;
            }
        }
        _ => return 1,
    }
    if ok && !expect_ok {
        return E_SHOULD_FAIL;
    }
    if !ok && expect_ok {
        return E_SHOULD_SUCCEED;
    }
    let inv = invariant(&b);
    if inv != 0 {
        return inv;
    }
    if !ok && counts(b.module_ref()) != before {
        return E_FAILED_CALL_CHANGED_MODULE;
    }
    // id discipline
    let now = b.verif_next_id();
    if now < next_id {
        return E_ID_COUNTER_WENT_BACK;
    }
    if ok && call != 15 {
        if let Some(id) = returned {
            if allocates {
                if id != next_id || now != next_id + 1 {
                    return E_ID_NOT_FRESH;
                }
            } else {
                if explicit.is_some() && Some(id) != explicit {
                    return E_EXPLICIT_ID_IGNORED;
                }
                if now != next_id {
                    return E_ID_COUNTER_STEP;
                }
            }
        } else if now != next_id {
            return E_ID_COUNTER_STEP;
        }
    }
    0
}

/// `module()` writes bound = next id and keeps a version that was set; `new()` starts at 1;
/// `new_from_module` continues at the header bound.
pub fn builder_module(raw: &[u8; RAW]) -> u32 {
    let next_id = u32::from_le_bytes([raw[4], raw[5], raw[6], raw[7]]);
    let mut b = Builder::verif_from_parts(dr::Module::new(), next_id, None, None);
    let with_version = raw[0] % 2 == 1;
    if with_version {
        b.set_version(raw[1], raw[2]);
        if b.version() != Some((raw[1], raw[2])) {
            return E_VERSION;
        }
    }
    // one id that gets a definition and one that is only reserved (referenced later, say): the bound covers both
    if next_id == 0 || next_id > 0xffff_fff0 {
        return 1;
    }
    let defined = b.type_void();
    let reserved = b.id();
    if defined != next_id || reserved != next_id + 1 {
        return E_ID_NOT_FRESH;
    }
    let next_id = next_id + 2;
    let m = b.module();
    let h = match m.header {
        Some(ref h) => h,
        None => return E_BOUND,
    };
    if h.bound != next_id {
        return E_BOUND;
    }
    if with_version && h.version() != (raw[1], raw[2]) {
        return E_VERSION;
    }
    if h.magic_number != spirv::MAGIC_NUMBER {
        return E_BOUND;
    }
    // continuing from the module starts at its bound
    let mut b2 = Builder::new_from_module(m);
    if b2.verif_next_id() != next_id {
        return E_BOUND;
    }
    if next_id < 0xffff_ffff {
        let id = b2.id();
        if id != next_id {
            return E_ID_NOT_FRESH;
        }
    }
    let mut fresh = Builder::new();
    if fresh.verif_next_id() != 1 || fresh.id() != 1 || fresh.id() != 2 {
        return E_ID_NOT_FRESH;
    }
    core::mem::forget(fresh);
    // the continued builder writes its own next id over the bound it started from
    let expect = b2.verif_next_id();
    let m2 = b2.module();
    let ok = match m2.header {
        Some(ref h) => h.bound == expect && (!with_version || h.version() == (raw[1], raw[2])),
        None => false,
    };
    core::mem::forget(m2);
    if !ok {
        return E_BOUND;
    }
    0
}

pub const E_IDENTITY: u32 = 420;

/// `Instruction::is_type_identical` (C13: "the same opcode and operands") on two declarations drawn from
/// struct / function types with 0..=2 id operands each and arbitrary result ids.
/// raw: [opA, nA, a0, a1, ridA, opB, nB, b0, b1, ridB, ..]
pub fn type_identical(raw: &[u8; RAW]) -> u32 {
    fn mk(op: u8, n: u8, x0: u8, x1: u8, rid: u8) -> dr::Instruction {
        let opcode = if op % 2 == 0 { spirv::Op::TypeStruct } else { spirv::Op::TypeFunction };
        let mut ops = Vec::new();
        if n % 3 >= 1 {
            ops.push(dr::Operand::IdRef((x0 % 4) as u32));
        }
        if n % 3 >= 2 {
            ops.push(dr::Operand::IdRef((x1 % 4) as u32));
        }
        dr::Instruction::new(opcode, None, Some(rid as u32), ops)
    }
    let a = mk(raw[0], raw[1], raw[2], raw[3], raw[4]);
    let b = mk(raw[5], raw[6], raw[7], raw[8], raw[9]);
    let (na, nb) = (raw[1] % 3, raw[6] % 3);
    let mut same = raw[0] % 2 == raw[5] % 2 && na == nb;
    if same && na >= 1 && raw[2] % 4 != raw[7] % 4 {
        same = false;
    }
    if same && na >= 2 && raw[3] % 4 != raw[8] % 4 {
        same = false;
    }
    let got = a.is_type_identical(&b);
    let sym_ = b.is_type_identical(&a);
    core::mem::forget(a);
    core::mem::forget(b);
    if got != same || sym_ != same {
        return E_IDENTITY;
    }
    0
}

/// Type requests (C13): `type_int_id` / `type_pointer` against a module holding 0..=2 earlier declarations.
/// raw: [n_existing, kind0, kind1, req_kind, explicit tag, .., next_id(4 at 4..8), explicit id (12..16)]
pub fn builder_types(raw: &[u8; RAW]) -> u32 {
    let n = (raw[0] % 3) as usize;
    let next_id = u32::from_le_bytes([raw[4], raw[5], raw[6], raw[7]]);
    if next_id < 10 || next_id > 0xffff_fff0 {
        return 1;
    }
    let explicit = if raw[8] % 2 == 1 {
        Some(u32::from_le_bytes([raw[12], raw[13], raw[14], raw[15]]))
    } else {
        None
    };
    // alphabet of three declarations: int(32,0) / int(32,1) / pointer(Function, %2)
    fn decl(kind: u8, id: Option<u32>) -> dr::Instruction {
        match kind % 3 {
            0 => dr::Instruction::new(
                spirv::Op::TypeInt,
                None,
                id,
                vec![dr::Operand::LiteralBit32(32), dr::Operand::LiteralBit32(0)],
            ),
            1 => dr::Instruction::new(
                spirv::Op::TypeInt,
                None,
                id,
                vec![dr::Operand::LiteralBit32(32), dr::Operand::LiteralBit32(1)],
            ),
            _ => dr::Instruction::new(
                spirv::Op::TypePointer,
                None,
                id,
                vec![
                    dr::Operand::StorageClass(spirv::StorageClass::Function),
                    dr::Operand::IdRef(2),
                ],
            ),
        }
    }
    let mut m = dr::Module::new();
    let kinds = [raw[1] % 3, raw[2] % 3];
    let mut k = 0;
    while k < n {
        m.types_global_values.push(decl(kinds[k], Some(1 + k as u32)));
        k += 1;
    }
    let req = raw[3] % 3;
    let mut b = core::mem::ManuallyDrop::new(Builder::verif_from_parts(m, next_id, None, None));
    let id = match req {
        0 => b.type_int_id(explicit, 32, 0),
        1 => b.type_int_id(explicit, 32, 1),
        _ => b.type_pointer(explicit, spirv::StorageClass::Function, 2),
    };
    let len = b.module_ref().types_global_values.len();
    let now = b.verif_next_id();
    // first earlier declaration with the same opcode and operands
    let mut first: Option<u32> = None;
    let mut j = 0;
    while j < n {
        if first.is_none() && kinds[j] == req {
            first = Some(1 + j as u32);
        }
        j += 1;
    }
    if let Some(e) = explicit {
        if id != e {
            return E_EXPLICIT_ID_IGNORED;
        }
        if len != n + 1 || b.module_ref().types_global_values[n].result_id != Some(e) {
            return E_TYPE_NOT_APPENDED;
        }
        if now != next_id {
            return E_ID_COUNTER_STEP;
        }
    } else if let Some(f) = first {
        if id != f {
            return E_DEDUP_WRONG_ID;
        }
        if len != n {
            return E_DEDUP_APPENDED;
        }
        if now != next_id {
            return E_ID_COUNTER_STEP;
        }
    } else {
        if id != next_id || now != next_id + 1 {
            return E_ID_NOT_FRESH;
        }
        if len != n + 1 || b.module_ref().types_global_values[n].result_id != Some(id) {
            return E_TYPE_NOT_APPENDED;
        }
    }
    0
}
