//! Scenarios (engine K): each scenario is a total function from a fixed-size byte array to an outcome
//! code, written against the *real* rspirv API. Under `cargo kani` the byte array is `kani::any()`,
//! so CBMC decides the scenario for every input; the replay runner calls the very same function
//! natively on the bytes of a counterexample.
//!
//! Outcome codes: 0 = property held, 1 = input outside the stated precondition (skipped),
//! >= 100 = a violated post-condition (the code names it, see `code_name`).
#![allow(clippy::all)]

pub mod dec;
pub mod storage;
pub mod misc;
pub mod builder;
pub mod loader;
#[cfg(any(kani, rspirv_verif))]
pub mod gen;
#[cfg(kani)]
mod proofs;

pub const OK: u32 = 0;
pub const SKIP: u32 = 1;

/// Dispatch used by the replay runner.
pub fn run(name: &str, raw: &[u8]) -> Option<u32> {
    fn arr<const N: usize>(raw: &[u8]) -> [u8; N] {
        let mut a = [0u8; N];
        let n = raw.len().min(N);
        a[..n].copy_from_slice(&raw[..n]);
        a
    }
    let mut padded = raw.to_vec();
    padded.resize(96, 0);
    let v: &[u8] = &padded;
    Some(match name {
        "dec_word" => dec::dec_word::<{ dec::BUF }>(v),
        "dec_words" => dec::dec_words::<{ dec::BUF }>(v),
        "dec_bit64" => dec::dec_bit64::<{ dec::BUF }>(v),
        "dec_string" => dec::dec_string::<{ dec::BUF }>(v),
        "dec_string_mid" => dec::dec_string::<{ dec::BUF_MID }>(v),
        "dec_string_small" => dec::dec_string::<{ dec::BUF_SMALL }>(v),
        "dec_limit" => dec::dec_limit::<{ dec::BUF }>(v),
        "dec_typed" => dec::dec_typed::<{ dec::BUF }>(v),
        "builder_step_0_0_0_0_g0" => builder::builder_step::<0, 0, 0, 0, 0>(&arr(raw)),
        "builder_step_0_0_0_0_g1" => builder::builder_step::<0, 0, 0, 0, 1>(&arr(raw)),
        "builder_step_0_0_0_0_g2" => builder::builder_step::<0, 0, 0, 0, 2>(&arr(raw)),
        "builder_step_0_0_0_0_g3" => builder::builder_step::<0, 0, 0, 0, 3>(&arr(raw)),
        "builder_step_1_0_0_0_g0" => builder::builder_step::<1, 0, 0, 0, 0>(&arr(raw)),
        "builder_step_1_0_0_0_g1" => builder::builder_step::<1, 0, 0, 0, 1>(&arr(raw)),
        "builder_step_1_0_0_0_g2" => builder::builder_step::<1, 0, 0, 0, 2>(&arr(raw)),
        "builder_step_1_0_0_0_g3" => builder::builder_step::<1, 0, 0, 0, 3>(&arr(raw)),
        "builder_step_1_1_0_0_g0" => builder::builder_step::<1, 1, 0, 0, 0>(&arr(raw)),
        "builder_step_1_1_0_0_g1" => builder::builder_step::<1, 1, 0, 0, 1>(&arr(raw)),
        "builder_step_1_1_0_0_g2" => builder::builder_step::<1, 1, 0, 0, 2>(&arr(raw)),
        "builder_step_1_1_0_0_g3" => builder::builder_step::<1, 1, 0, 0, 3>(&arr(raw)),
        "builder_step_1_1_0_1_g0" => builder::builder_step::<1, 1, 0, 1, 0>(&arr(raw)),
        "builder_step_1_1_0_1_g1" => builder::builder_step::<1, 1, 0, 1, 1>(&arr(raw)),
        "builder_step_1_1_0_1_g2" => builder::builder_step::<1, 1, 0, 1, 2>(&arr(raw)),
        "builder_step_1_1_0_1_g3" => builder::builder_step::<1, 1, 0, 1, 3>(&arr(raw)),
        "builder_step_2_1_0_1_g0" => builder::builder_step::<2, 1, 0, 1, 0>(&arr(raw)),
        "builder_step_2_1_0_1_g1" => builder::builder_step::<2, 1, 0, 1, 1>(&arr(raw)),
        "builder_step_2_1_0_1_g2" => builder::builder_step::<2, 1, 0, 1, 2>(&arr(raw)),
        "builder_step_2_1_0_1_g3" => builder::builder_step::<2, 1, 0, 1, 3>(&arr(raw)),
        "builder_step_2_2_1_1_g0" => builder::builder_step::<2, 2, 1, 1, 0>(&arr(raw)),
        "builder_step_2_2_1_1_g1" => builder::builder_step::<2, 2, 1, 1, 1>(&arr(raw)),
        "builder_step_2_2_1_1_g2" => builder::builder_step::<2, 2, 1, 1, 2>(&arr(raw)),
        "builder_step_2_2_1_1_g3" => builder::builder_step::<2, 2, 1, 1, 3>(&arr(raw)),
        "builder_module" => builder::builder_module(&arr(raw)),
        "type_identical" => builder::type_identical(&arr(raw)),
        "builder_types" => builder::builder_types(&arr(raw)),
        "parse_header" => misc::parse_header(&arr(raw)),
        "string_pack" => misc::string_pack(&arr(raw)),
        "string_pack_utf8" => misc::string_pack_utf8::<5>(&arr(raw)),
        "words_view" => misc::words_view(&arr(raw)),
        "parse_literal" => misc::parse_literal(&arr(raw)),
        "storage_u8" => storage::storage_u8(&arr(raw)),
        "storage_odd" => storage::storage_odd(&arr(raw)),
        "storage_keyed" => storage::storage_keyed(&arr(raw)),
        "storage_cross" => storage::storage_cross(&arr(raw)),
        _ => {
            #[cfg(any(kani, rspirv_verif))]
            {
                return gen::run(name, raw);
            }
            #[allow(unreachable_code)]
            {
                return None;
            }
        }
    })
}
