//! Decoder: one request from an arbitrary reachable state (C11, C04).
//! State invariant (inductive, checked as post-condition too): offset % 4 == 0 and offset <= len.
use rspirv::binary::{DecodeError, Decoder};

pub const BUF: usize = 12;
pub const BUF_SMALL: usize = 6;
pub const BUF_MID: usize = 8;

/// raw layout: [len, offset, limit_tag, limit(8 bytes LE), arg, buf...]
pub struct St<'a> {
    pub buf: &'a [u8],
    pub offset: usize,
    pub limit: Option<usize>,
    pub arg: u8,
}

pub const HDR: usize = 12;

pub fn decode<const B: usize>(raw: &[u8]) -> Option<St<'_>> {
    let len = raw[0] as usize;
    if len > B {
        return None;
    }
    let offset = raw[1] as usize;
    // reachable states: the decoder only ever advances by whole words from 0
    if offset % 4 != 0 || offset > len {
        return None;
    }
    let limit = match raw[2] {
        0 => None,
        1 => {
            let mut l = [0u8; 8];
            l.copy_from_slice(&raw[3..11]);
            Some(usize::from_le_bytes(l))
        }
        _ => return None,
    };
    Some(St {
        buf: &raw[HDR..HDR + len],
        offset,
        limit,
        arg: raw[11],
    })
}

fn le(buf: &[u8], at: usize) -> u32 {
    u32::from_le_bytes([buf[at], buf[at + 1], buf[at + 2], buf[at + 3]])
}

pub const E_OFFSET_PAST_END: u32 = 100;
pub const E_OFFSET_MISALIGNED: u32 = 101;
pub const E_WRONG_VALUE: u32 = 102;
pub const E_WRONG_ADVANCE: u32 = 103;
pub const E_LIMIT_NOT_CHARGED: u32 = 104;
pub const E_LIMIT_EXCEEDED: u32 = 105;
pub const E_ERR_MOVED_OFFSET: u32 = 106;
pub const E_ERR_WRONG_OFFSET_REPORTED: u32 = 107;
pub const E_SPURIOUS_ERROR: u32 = 108;
pub const E_SPURIOUS_SUCCESS: u32 = 109;
pub const E_STRING_BYTES: u32 = 110;
pub const E_STRING_WORDS: u32 = 111;
pub const E_STRING_PAST_LIMIT: u32 = 112;
pub const E_CLEAR_LIMIT: u32 = 113;
pub const E_SET_LIMIT: u32 = 114;
pub const E_WRONG_ERROR_KIND: u32 = 115;

fn invariant(d: &Decoder, len: usize) -> u32 {
    if d.offset() > len {
        return E_OFFSET_PAST_END;
    }
    if d.offset() % 4 != 0 {
        return E_OFFSET_MISALIGNED;
    }
    0
}

/// `word()` (also `id`, `bit32`, `ext_inst_integer`: arg selects the alias).
pub fn dec_word<const B: usize>(raw: &[u8]) -> u32 {
    let st = match decode::<B>(raw) {
        Some(s) => s,
        None => return 1,
    };
    let len = st.buf.len();
    let mut d = Decoder::verif_at(st.buf, st.offset, st.limit);
    let r = match st.arg % 4 {
        0 => d.word(),
        1 => d.id(),
        2 => d.bit32(),
        _ => d.ext_inst_integer(),
    };
    let i = invariant(&d, len);
    if i != 0 {
        return i;
    }
    let room = st.offset + 4 <= len;
    match r {
        Ok(w) => {
            if st.limit == Some(0) || !room {
                return E_SPURIOUS_SUCCESS;
            }
            if w != le(st.buf, st.offset) {
                return E_WRONG_VALUE;
            }
            if d.offset() != st.offset + 4 {
                return E_WRONG_ADVANCE;
            }
            if let Some(l) = st.limit {
                if d.verif_limit() != Some(l - 1) {
                    return E_LIMIT_NOT_CHARGED;
                }
            } else if d.verif_limit().is_some() {
                return E_LIMIT_NOT_CHARGED;
            }
        }
        Err(e) => {
            if d.offset() != st.offset {
                return E_ERR_MOVED_OFFSET;
            }
            match e {
                DecodeError::LimitReached(o) => {
                    if st.limit != Some(0) {
                        return E_SPURIOUS_ERROR;
                    }
                    if o != st.offset {
                        return E_ERR_WRONG_OFFSET_REPORTED;
                    }
                }
                DecodeError::StreamExpected(o) => {
                    if room || st.limit == Some(0) {
                        return E_SPURIOUS_ERROR;
                    }
                    if o != st.offset {
                        return E_ERR_WRONG_OFFSET_REPORTED;
                    }
                }
                _ => return E_WRONG_ERROR_KIND,
            }
        }
    }
    0
}

/// `words(n)`, n = arg % 4.
pub fn dec_words<const B: usize>(raw: &[u8]) -> u32 {
    let st = match decode::<B>(raw) {
        Some(s) => s,
        None => return 1,
    };
    let len = st.buf.len();
    // request sizes 0..=3 and huge ones (the request size is the caller's: it is not bounded by the buffer)
    let n = if st.arg < 0x80 { (st.arg % 4) as usize } else { usize::MAX >> (st.arg % 64) };
    let mut d = Decoder::verif_at(st.buf, st.offset, st.limit);
    let r = d.words(n);
    let i = invariant(&d, len);
    if i != 0 {
        return i;
    }
    let consumed = (d.offset() - st.offset) / 4;
    if let Some(l) = st.limit {
        if consumed > l {
            return E_LIMIT_EXCEEDED;
        }
    }
    let fits_stream = n <= (len - st.offset) / 4;
    let fits_limit = st.limit.map_or(true, |l| n <= l);
    match r {
        Ok(v) => {
            if !(fits_stream && fits_limit) {
                return E_SPURIOUS_SUCCESS;
            }
            if v.len() != n || consumed != n {
                return E_WRONG_ADVANCE;
            }
            let mut k = 0;
            while k < n {
                if v[k] != le(st.buf, st.offset + 4 * k) {
                    return E_WRONG_VALUE;
                }
                k += 1;
            }
            if let Some(l) = st.limit {
                if d.verif_limit() != Some(l - n) {
                    return E_LIMIT_NOT_CHARGED;
                }
            }
            core::mem::forget(v);
        }
        Err(_) => {
            if fits_stream && fits_limit {
                return E_SPURIOUS_ERROR;
            }
        }
    }
    0
}

/// `bit64()`: two words, low first.
pub fn dec_bit64<const B: usize>(raw: &[u8]) -> u32 {
    let st = match decode::<B>(raw) {
        Some(s) => s,
        None => return 1,
    };
    let len = st.buf.len();
    let mut d = Decoder::verif_at(st.buf, st.offset, st.limit);
    let r = d.bit64();
    let i = invariant(&d, len);
    if i != 0 {
        return i;
    }
    let consumed = (d.offset() - st.offset) / 4;
    if let Some(l) = st.limit {
        if consumed > l {
            return E_LIMIT_EXCEEDED;
        }
    }
    let fits = st.offset + 8 <= len && st.limit.map_or(true, |l| l >= 2);
    match r {
        Ok(v) => {
            if !fits {
                return E_SPURIOUS_SUCCESS;
            }
            let lo = le(st.buf, st.offset) as u64;
            let hi = le(st.buf, st.offset + 4) as u64;
            if v != (hi << 32 | lo) {
                return E_WRONG_VALUE;
            }
            if consumed != 2 {
                return E_WRONG_ADVANCE;
            }
        }
        Err(_) => {
            if fits {
                return E_SPURIOUS_ERROR;
            }
        }
    }
    0
}

/// `string()`.
pub fn dec_string<const B: usize>(raw: &[u8]) -> u32 {
    let st = match decode::<B>(raw) {
        Some(s) => s,
        None => return 1,
    };
    let len = st.buf.len();
    let mut d = Decoder::verif_at(st.buf, st.offset, st.limit);
    let r = d.string();
    let i = invariant(&d, len);
    if i != 0 {
        return i;
    }
    let consumed = (d.offset() - st.offset) / 4;
    if let Some(l) = st.limit {
        if consumed > l {
            return E_STRING_PAST_LIMIT;
        }
    }
    if let Ok(s) = r {
        let b = s.as_bytes();
        let k = b.len();
        // the bytes before the first NUL at the old offset
        if st.offset + k >= len {
            return E_STRING_BYTES;
        }
        let mut j = 0;
        while j < k {
            if st.buf[st.offset + j] != b[j] || b[j] == 0 {
                return E_STRING_BYTES;
            }
            j += 1;
        }
        if st.buf[st.offset + k] != 0 {
            return E_STRING_BYTES;
        }
        if consumed != k / 4 + 1 {
            return E_STRING_WORDS;
        }
        if let Some(l) = st.limit {
            if d.verif_limit() != Some(l - consumed) {
                return E_LIMIT_NOT_CHARGED;
            }
        }
        core::mem::forget(s);
    } else {
        if d.offset() != st.offset {
            return E_ERR_MOVED_OFFSET;
        }
        core::mem::forget(r);
        // a string that IS there must be returned: the first NUL inside the window (the rest of the stream, cut to the limit),
        // ASCII bytes before it, and the word holding the NUL inside the stream and the limit
        let rest = len - st.offset;
        let window = match st.limit {
            Some(l) => {
                if l <= rest / 4 {
                    l * 4
                } else {
                    rest
                }
            }
            None => rest,
        };
        let mut p = window;
        let mut ascii = true;
        let mut j = 0;
        while j < window {
            if p == window {
                if st.buf[st.offset + j] == 0 {
                    p = j;
                } else if st.buf[st.offset + j] >= 0x80 {
                    ascii = false;
                }
            }
            j += 1;
        }
        if p < window && ascii {
            let words = p / 4 + 1;
            let fits_stream = words * 4 <= rest;
            let fits_limit = st.limit.map_or(true, |l| words <= l);
            if fits_stream && fits_limit {
                return E_SPURIOUS_ERROR;
            }
        }
    }
    0
}

/// `set_limit`, `clear_limit`, `has_limit`, `limit_reached`, followed by one `word()`.
pub fn dec_limit<const B: usize>(raw: &[u8]) -> u32 {
    let st = match decode::<B>(raw) {
        Some(s) => s,
        None => return 1,
    };
    let len = st.buf.len();
    let mut d = Decoder::verif_at(st.buf, st.offset, st.limit);
    if d.has_limit() != st.limit.is_some() || d.limit_reached() != (st.limit == Some(0)) {
        return E_SET_LIMIT;
    }
    let room = st.offset + 4 <= len;
    if st.arg % 2 == 0 {
        d.clear_limit();
        if d.has_limit() || d.limit_reached() || d.offset() != st.offset {
            return E_CLEAR_LIMIT;
        }
        // unlimited reading is restored
        let r = d.word();
        if r.is_ok() != room {
            return E_CLEAR_LIMIT;
        }
    } else {
        let n = (st.arg / 2) as usize;
        d.set_limit(n);
        if !d.has_limit() || d.limit_reached() != (n == 0) || d.verif_limit() != Some(n) || d.offset() != st.offset {
            return E_SET_LIMIT;
        }
        let r = d.word();
        if r.is_ok() != (room && n > 0) {
            return E_SET_LIMIT;
        }
    }
    invariant(&d, len)
}

/// Three representative typed requests (a value enum, a bit mask, one more enum): they delegate to `word()`.
pub fn dec_typed<const B: usize>(raw: &[u8]) -> u32 {
    let st = match decode::<B>(raw) {
        Some(s) => s,
        None => return 1,
    };
    let len = st.buf.len();
    let mut d = Decoder::verif_at(st.buf, st.offset, st.limit);
    let can = st.offset + 4 <= len && st.limit != Some(0);
    let (ok, val) = match st.arg % 3 {
        0 => match d.source_language() {
            Ok(v) => (true, v as u32),
            Err(_) => (false, 0),
        },
        1 => match d.function_control() {
            Ok(v) => (true, v.bits()),
            Err(_) => (false, 0),
        },
        _ => match d.addressing_model() {
            Ok(v) => (true, v as u32),
            Err(_) => (false, 0),
        },
    };
    let i = invariant(&d, len);
    if i != 0 {
        return i;
    }
    if ok {
        if !can {
            return E_SPURIOUS_SUCCESS;
        }
        if val != le(st.buf, st.offset) {
            return E_WRONG_VALUE;
        }
        if d.offset() != st.offset + 4 {
            return E_WRONG_ADVANCE;
        }
    } else if !can && d.offset() != st.offset {
        // nothing could be read: nothing consumed
        return E_ERR_MOVED_OFFSET;
    }
    if let Some(l) = st.limit {
        if (d.offset() - st.offset) / 4 > l {
            return E_LIMIT_EXCEEDED;
        }
    }
    0
}
