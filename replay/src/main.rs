//! Replay / oracle runner (engine R): runs the *real* crate on one request per input line and
//! prints one JSON object per line. It decides no property; it confirms solver models and
//! validates the encodings.
use std::io::{self, BufRead, Write};

mod generated;
mod ops;
mod consumer;
mod sweep;

thread_local! {
    static LAST_LOC: std::cell::RefCell<String> = std::cell::RefCell::new(String::new());
}

fn main() {
    let stdin = io::stdin();
    let stdout = io::stdout();
    let mut out = stdout.lock();
    // panics are reported in-band
    std::panic::set_hook(Box::new(|info| {
        let loc = info.location().map(|l| format!("{}:{}", l.file(), l.line())).unwrap_or_default();
        LAST_LOC.with(|c| *c.borrow_mut() = loc);
    }));
    for line in stdin.lock().lines() {
        let line = match line {
            Ok(l) => l,
            Err(_) => break,
        };
        let parts: Vec<&str> = line.split_whitespace().collect();
        if parts.is_empty() {
            continue;
        }
        let p2 = parts.iter().map(|s| s.to_string()).collect::<Vec<_>>();
        let r = std::panic::catch_unwind(move || ops::dispatch(&p2));
        let s = match r {
            Ok(s) => s,
            Err(e) => {
                let msg = if let Some(s) = e.downcast_ref::<&str>() {
                    s.to_string()
                } else if let Some(s) = e.downcast_ref::<String>() {
                    s.clone()
                } else {
                    "?".to_string()
                };
                let loc = LAST_LOC.with(|c| c.borrow().clone());
                format!("{{\"panic\": {}, \"at\": {}}}", ops::jstr(&msg), ops::jstr(&loc))
            }
        };
        writeln!(out, "{}", s).unwrap();
        out.flush().unwrap();
    }
}
