//! Native sweeps used as the translation-validation leg of model-based checks.
use rspirv::binary::Assemble;
use rspirv::dr;

fn mk(id: &mut u32) -> dr::Instruction {
    *id += 1;
    dr::Instruction::new(spirv::Op::Undef, Some(1), Some(*id), vec![])
}

fn ids<'a>(it: impl Iterator<Item = &'a dr::Instruction>) -> Vec<u32> {
    it.map(|i| i.result_id.unwrap()).collect()
}

fn function(cfg: u32, id: &mut u32) -> dr::Function {
    // bits: 0 def, 1 end, 2 param, 3-4 number of blocks (0..=2), then per block: label, insts(2 bits: 0..=2)
    let mut f = dr::Function::new();
    if cfg & 1 != 0 {
        f.def = Some(mk(id));
    }
    if cfg & 4 != 0 {
        f.parameters.push(mk(id));
    }
    let nb = ((cfg >> 3) & 3).min(2);
    for b in 0..nb {
        let bc = (cfg >> (5 + 3 * b)) & 7;
        let mut blk = dr::Block::new();
        if bc & 1 != 0 {
            blk.label = Some(mk(id));
        }
        for _ in 0..((bc >> 1) & 3).min(2) {
            blk.instructions.push(mk(id));
        }
        f.blocks.push(blk);
    }
    if cfg & 2 != 0 {
        f.end = Some(mk(id));
    }
    f
}

fn check(m: &mut dr::Module) -> Option<String> {
    let all = ids(m.all_inst_iter());
    let all_mut: Vec<u32> = m.all_inst_iter_mut().map(|i| i.result_id.unwrap()).collect();
    let glob = ids(m.global_inst_iter());
    let glob_mut: Vec<u32> = m.global_inst_iter_mut().map(|i| i.result_id.unwrap()).collect();
    if all != all_mut {
        return Some(format!("all_inst_iter {:?} != all_inst_iter_mut {:?}", all, all_mut));
    }
    if glob != glob_mut {
        return Some(format!("global_inst_iter {:?} != global_inst_iter_mut {:?}", glob, glob_mut));
    }
    if all.len() < glob.len() || all[..glob.len()] != glob[..] {
        return Some(format!("global_inst_iter {:?} is not a prefix of all_inst_iter {:?}", glob, all));
    }
    let mut rest: Vec<u32> = vec![];
    let nf = m.functions.len();
    for k in 0..nf {
        let a = ids(m.functions[k].all_inst_iter());
        let b: Vec<u32> = m.functions[k].all_inst_iter_mut().map(|i| i.result_id.unwrap()).collect();
        if a != b {
            return Some(format!("Function::all_inst_iter {:?} != _mut {:?}", a, b));
        }
        let fa = m.functions[k].assemble();
        let mut want = vec![];
        for i in m.functions[k].all_inst_iter() {
            want.extend(i.assemble());
        }
        if fa != want {
            return Some(format!("function {} assembly differs from its traversal {:?}", k, a));
        }
        rest.extend(a);
    }
    if all[glob.len()..] != rest[..] {
        return Some(format!("all_inst_iter tail {:?} != per-function slices {:?}", &all[glob.len()..], rest));
    }
    // SPIR-V logical layout (spec 2.4): the global sections in this order
    let mut layout: Vec<u32> = vec![];
    layout.extend(ids(m.capabilities.iter()));
    layout.extend(ids(m.extensions.iter()));
    layout.extend(ids(m.ext_inst_imports.iter()));
    layout.extend(ids(m.memory_model.iter()));
    layout.extend(ids(m.entry_points.iter()));
    layout.extend(ids(m.execution_modes.iter()));
    layout.extend(ids(m.debug_string_source.iter()));
    layout.extend(ids(m.debug_names.iter()));
    layout.extend(ids(m.debug_module_processed.iter()));
    layout.extend(ids(m.annotations.iter()));
    layout.extend(ids(m.types_global_values.iter()));
    if glob != layout {
        return Some(format!("global_inst_iter {:?} is not the logical layout order of the sections {:?}", glob, layout));
    }
    let asm = m.assemble();
    let mut want = vec![];
    if let Some(ref h) = m.header {
        want.extend(h.assemble());
    }
    for i in m.all_inst_iter() {
        want.extend(i.assemble());
    }
    if asm != want {
        return Some(format!("assemble(module) != header ++ assembly of all_inst_iter {:?}", all));
    }
    None
}

pub fn traversal_sweep() -> String {
    let mut count = 0u64;
    let fcfgs: Vec<u32> = (0..(1u32 << 11)).filter(|c| ((c >> 3) & 3) <= 2 && ((c >> 6) & 3) <= 2 && ((c >> 9) & 3) <= 2).collect();
    let run = |g: u32, fs: &[u32], count: &mut u64| -> Option<String> {
        let mut id = 10;
        let mut m = dr::Module::new();
        if g & 1 != 0 {
            m.header = Some(dr::ModuleHeader::new(99));
        }
        let secs: [&mut Vec<dr::Instruction>; 10] = [
            &mut m.capabilities,
            &mut m.extensions,
            &mut m.ext_inst_imports,
            &mut m.entry_points,
            &mut m.execution_modes,
            &mut m.debug_string_source,
            &mut m.debug_names,
            &mut m.debug_module_processed,
            &mut m.annotations,
            &mut m.types_global_values,
        ];
        for (k, s) in secs.into_iter().enumerate() {
            if g & (2 << k) != 0 {
                s.push(mk(&mut id));
            }
        }
        if g & (1 << 11) != 0 {
            m.memory_model = Some(mk(&mut id));
        }
        for c in fs {
            m.functions.push(function(*c, &mut id));
        }
        *count += 1;
        check(&mut m).map(|e| format!("globals={:#x} functions={:?}: {}", g, fs, e))
    };
    for g in 0..(1u32 << 12) {
        for fs in [&[][..], &[0x7ffu32 & 0b111_1011_0111][..], &[0b1011_0111u32, 0b0100_1001_0111][..]] {
            if let Some(e) = run(g, fs, &mut count) {
                return format!("{{\"modules\": {}, \"mismatch\": {}}}", count, crate::ops::jstr(&e));
            }
        }
    }
    for g in [0u32, 0xfff, 0xaaa] {
        for c in &fcfgs {
            if let Some(e) = run(g, &[*c], &mut count) {
                return format!("{{\"modules\": {}, \"mismatch\": {}}}", count, crate::ops::jstr(&e));
            }
            if let Some(e) = run(g, &[0b1011_0111, *c], &mut count) {
                return format!("{{\"modules\": {}, \"mismatch\": {}}}", count, crate::ops::jstr(&e));
            }
        }
    }
    format!("{{\"modules\": {}}}", count)
}

fn action_name(a: rspirv::binary::ParseAction) -> String {
    match a {
        rspirv::binary::ParseAction::Continue => "Continue".to_string(),
        rspirv::binary::ParseAction::Stop => "Stop".to_string(),
        rspirv::binary::ParseAction::Error(e) => {
            let d = format!("{:?}", e);
            d.split('(').next().unwrap_or("").to_string()
        }
    }
}

/// One `consume_instruction` step of the real loader from a constructed state.
pub fn loader_step(fopen: bool, bopen: bool, opcode: u32) -> String {
    loader_step_closed(fopen, bopen, opcode, false)
}

/// `closed`: the open function already holds one closed block (label + OpReturn). The answer then reports `closed_block_grew`
/// when that finished block received something.
pub fn loader_step_closed(fopen: bool, bopen: bool, opcode: u32, closed: bool) -> String {
    use rspirv::binary::Consumer;
    let op = match spirv::Op::from_u32(opcode) {
        Some(o) => o,
        None => return "{\"error\": \"undeclared opcode\"}".to_string(),
    };
    if closed && fopen {
        let mut f = dr::Function::new();
        let mut blk = dr::Block::new();
        blk.label = Some(dr::Instruction::new(spirv::Op::Label, None, Some(1), vec![]));
        blk.instructions.push(dr::Instruction::new(spirv::Op::Return, None, None, vec![]));
        f.blocks.push(blk);
        let b0 = if bopen { Some(dr::Block::new()) } else { None };
        let mut l = dr::Loader::verif_from_parts(dr::Module::new(), Some(f), b0);
        let a = l.consume_instruction(dr::Instruction::new(op, None, Some(7777), vec![]));
        let ans = action_name(a);
        let (m, f, b) = l.verif_parts();
        let grew = f.as_ref().map_or(false, |f| f.blocks.first().map_or(false, |b| b.instructions.len() != 1 || b.label.as_ref().and_then(|l| l.result_id) != Some(1)));
        let globals = m.types_global_values.len() + m.capabilities.len() + m.extensions.len() + m.ext_inst_imports.len() + m.entry_points.len() + m.execution_modes.len()
            + m.debug_string_source.len() + m.debug_names.len() + m.debug_module_processed.len() + m.annotations.len();
        return format!("{{\"answer\": {}, \"closed_block_grew\": {}, \"globals\": {}, \"f\": {}, \"b\": {}, \"blocks\": {}}}", crate::ops::jstr(&ans), grew, globals,
            f.is_some(), b.is_some(), f.as_ref().map_or(0, |f| f.blocks.len()));
    }
    let f0 = if fopen { Some(dr::Function::new()) } else { None };
    let b0 = if bopen { Some(dr::Block::new()) } else { None };
    let mut l = dr::Loader::verif_from_parts(dr::Module::new(), f0, b0);
    let inst = dr::Instruction::new(op, None, Some(7777), vec![]);
    let a = l.consume_instruction(inst);
    let ans = action_name(a);
    let (m, f, b) = l.verif_parts();
    let mut filed: Vec<String> = vec![];
    let secs: [(&str, usize); 10] = [
        ("capabilities", m.capabilities.len()),
        ("extensions", m.extensions.len()),
        ("ext_inst_imports", m.ext_inst_imports.len()),
        ("entry_points", m.entry_points.len()),
        ("execution_modes", m.execution_modes.len()),
        ("debug_string_source", m.debug_string_source.len()),
        ("debug_names", m.debug_names.len()),
        ("debug_module_processed", m.debug_module_processed.len()),
        ("annotations", m.annotations.len()),
        ("types_global_values", m.types_global_values.len()),
    ];
    for (n, len) in secs.iter() {
        if *len > 0 {
            filed.push(format!("module.{}", n));
        }
    }
    if m.memory_model.is_some() {
        filed.push("module.memory_model".to_string());
    }
    if let Some(f) = f {
        if f.def.is_some() {
            filed.push("newfunction.def".to_string());
        }
        if !f.parameters.is_empty() {
            filed.push("function.parameters".to_string());
        }
        if let Some(b) = b {
            if b.label.is_some() {
                filed.push("newblock.label".to_string());
            }
            if !b.instructions.is_empty() {
                filed.push("block.instructions".to_string());
            }
        } else if !f.blocks.is_empty() {
            let last = f.blocks.last().unwrap();
            if !last.instructions.is_empty() {
                filed.push("block.instructions".to_string());
            }
            filed.push("function.blocks".to_string());
        }
    } else {
        if let Some(b) = b {
            if !b.instructions.is_empty() {
                filed.push("block.instructions".to_string());
            }
        }
        if !m.functions.is_empty() {
            if m.functions[0].end.is_some() {
                filed.push("function.end".to_string());
            }
            filed.push("module.functions".to_string());
        }
    }
    let filed_s = if filed.is_empty() { "null".to_string() } else { crate::ops::jstr(&filed.join(";")) };
    format!(
        "{{\"answer\": {}, \"filed\": {}, \"f\": {}, \"b\": {}}}",
        crate::ops::jstr(&ans),
        filed_s,
        f.is_some(),
        b.is_some()
    )
}

pub fn loader_finalize(fopen: bool, bopen: bool) -> String {
    use rspirv::binary::Consumer;
    let f0 = if fopen { Some(dr::Function::new()) } else { None };
    let b0 = if bopen { Some(dr::Block::new()) } else { None };
    let mut l = dr::Loader::verif_from_parts(dr::Module::new(), f0, b0);
    let a = l.finalize();
    format!("{{\"answer\": {}}}", crate::ops::jstr(&action_name(a)))
}
