//! Scripted consumers for replay.
use rspirv::binary::{Consumer, ParseAction};
use rspirv::dr;
use std::{error, fmt};

#[derive(Debug)]
pub struct ScriptError(pub usize);
impl fmt::Display for ScriptError {
    fn fmt(&self, f: &mut fmt::Formatter) -> fmt::Result {
        write!(f, "scripted error #{}", self.0)
    }
}
impl error::Error for ScriptError {}

pub struct Scripted {
    pub answers: Vec<char>,
    pub calls: usize,
    pub log: Vec<String>,
    pub insts: Vec<dr::Instruction>,
}

impl Scripted {
    pub fn new(answers: Vec<char>) -> Scripted {
        Scripted { answers, calls: 0, log: vec![], insts: vec![] }
    }
    fn answer(&mut self) -> ParseAction {
        let i = self.calls;
        self.calls += 1;
        match self.answers.get(i).copied().unwrap_or('C') {
            'S' => ParseAction::Stop,
            'E' => ParseAction::Error(Box::new(ScriptError(i))),
            // the consumer's error value is itself a parser state (a consumer that forwards the outcome of a nested parse)
            'P' => ParseAction::Error(Box::new(rspirv::binary::ParseState::ConsumerStopRequested)),
            _ => ParseAction::Continue,
        }
    }
}

impl Consumer for Scripted {
    fn initialize(&mut self) -> ParseAction {
        self.log.push("initialize".to_string());
        self.answer()
    }
    fn finalize(&mut self) -> ParseAction {
        self.log.push("finalize".to_string());
        self.answer()
    }
    fn consume_header(&mut self, h: dr::ModuleHeader) -> ParseAction {
        self.log.push(format!("header bound={} version={:#x}", h.bound, h.version));
        self.answer()
    }
    fn consume_instruction(&mut self, inst: dr::Instruction) -> ParseAction {
        self.log.push(format!("instruction {} {:?}", inst.class.opname, inst.operands));
        self.insts.push(inst);
        self.answer()
    }
}
