use crate::generated;

pub fn jstr(s: &str) -> String {
    let mut o = String::from("\"");
    for c in s.chars() {
        match c {
            '"' => o.push_str("\\\""),
            '\\' => o.push_str("\\\\"),
            '\n' => o.push_str("\\n"),
            '\r' => o.push_str("\\r"),
            '\t' => o.push_str("\\t"),
            c if (c as u32) < 0x20 => o.push_str(&format!("\\u{:04x}", c as u32)),
            c => o.push(c),
        }
    }
    o.push('"');
    o
}

pub fn unhex(s: &str) -> Vec<u8> {
    let b = s.as_bytes();
    let mut v = Vec::new();
    let mut i = 0;
    while i + 1 < b.len() {
        v.push(u8::from_str_radix(&s[i..i + 2], 16).unwrap());
        i += 2;
    }
    v
}

pub fn dispatch(p: &[String]) -> String {
    match p[0].as_str() {
        "from_u32" => generated::from_u32(&p[1], p[2].parse::<u32>().unwrap()),
        "from_str" => {
            let bytes = unhex(if p.len() > 2 { &p[2] } else { "" });
            generated::from_str(&p[1], &String::from_utf8_lossy(&bytes))
        }
        "from_bits" => generated::from_bits(&p[1], p[2].parse::<u32>().unwrap()),
        _ => format!("{{\"error\": \"unknown request {}\"}}", p[0]),
    }
}
