use crate::generated;

pub fn jstr(s: &str) -> String {
    let mut o = String::from("\"");
    for c in s.chars() {
        match c {
            '"' => o.push_str("\\\""),
            '\\' => o.push_str("\\\\"),
            '\n' => o.push_str("\\n"),
            '\r' => o.push_str("\\r"),
            '\t' => o.push_str("\\t"),
            c if (c as u32) < 0x20 => o.push_str(&format!("\\u{:04x}", c as u32)),
            c => o.push(c),
        }
    }
    o.push('"');
    o
}

pub fn unhex(s: &str) -> Vec<u8> {
    let b = s.as_bytes();
    let mut v = Vec::new();
    let mut i = 0;
    while i + 1 < b.len() {
        v.push(u8::from_str_radix(&s[i..i + 2], 16).unwrap());
        i += 2;
    }
    v
}

/// A value whose equality with "the argument" is dictated by a flag (elements among themselves compare by id).
#[derive(Clone, Debug)]
struct PatV {
    id: u32,
    matches_arg: bool,
    is_arg: bool,
}
impl PartialEq for PatV {
    fn eq(&self, o: &PatV) -> bool {
        if self.is_arg {
            o.matches_arg
        } else if o.is_arg {
            self.matches_arg
        } else {
            self.id == o.id
        }
    }
}

/// storage_step <append|fetch_or_append|lookup> <pattern of 0/1: which stored values equal the argument>
fn storage_step(op: &str, pat: &str) -> String {
    use rspirv::sr::storage::Storage;
    let flags: Vec<bool> = if pat == "-" {
        vec![]
    } else if let Some(n) = pat.strip_prefix('n') {
        vec![false; n.parse::<usize>().unwrap_or(0)]
    } else {
        pat.chars().map(|c| c == '1').collect()
    };
    let mut s: Storage<PatV> = Storage::new();
    let mut toks = Vec::new();
    for (i, f) in flags.iter().enumerate() {
        toks.push(s.append(PatV { id: i as u32, matches_arg: *f, is_arg: false }));
    }
    let arg = PatV { id: 1_000_000, matches_arg: false, is_arg: true };
    let t = match op {
        "append" => s.append(arg),
        _ => s.fetch_or_append(arg),
    };
    let mut kept = true;
    for (i, tok) in toks.iter().enumerate() {
        let v = &s[*tok];
        if tok.index() as usize != i || v.id != i as u32 || v.is_arg {
            kept = false;
        }
    }
    // the length is not exposed: one more append tells it
    let probe = s.append(PatV { id: 2_000_000, matches_arg: false, is_arg: false });
    let len = probe.index();
    let appended_is_arg = (t.index() as usize) < len as usize && s[t].is_arg;
    format!("{{\"index\": {}, \"len\": {}, \"kept\": {}, \"yields_arg\": {}}}", t.index(), len, kept, appended_is_arg)
}

pub fn dispatch(p: &[String]) -> String {
    match p[0].as_str() {
        "from_u32" => generated::from_u32(&p[1], p[2].parse::<u32>().unwrap()),
        "from_str" => {
            let bytes = unhex(if p.len() > 2 { &p[2] } else { "" });
            generated::from_str(&p[1], &String::from_utf8_lossy(&bytes))
        }
        "from_bits" => generated::from_bits(&p[1], p[2].parse::<u32>().unwrap()),
        "operand_params" => generated::operand_params(&p[1], p[2].parse::<u32>().unwrap_or(0)),
        "operand_requires" => generated::operand_requires(&p[1], p[2].parse::<u32>().unwrap_or(0)),
        "builder_ids" => generated::builder_ids(&p[1], p[2].parse::<u32>().unwrap_or(2), p[3].parse::<u32>().unwrap_or(5), if p.len() > 4 && p[4] == "implicit" { 1 } else if p.len() > 4 && p[4] == "lastid" { 2 } else { 0 }),
        "builder_roundtrip" => generated::builder_roundtrip(&p[1]),
        "builder_call" => {
            generated::set_ip(if p.len() > 3 { p[3].parse::<u32>().unwrap_or(0) } else { 0 });
            let r = generated::builder_call(&p[1], p[2].parse::<u32>().unwrap_or(2));
            generated::set_ip(0);
            r
        }
        "scenario" => {
            let raw = unhex(if p.len() > 2 { &p[2] } else { "" });
            match vscen::run(&p[1], &raw) {
                Some(c) => format!("{{\"code\": {}}}", c),
                None => "{\"error\": \"unknown scenario\"}".to_string(),
            }
        }
        "lift_constant" => {
            let v: u32 = p[2].parse::<u64>().unwrap() as u32;
            let mut b = rspirv::dr::Builder::new();
            b.set_version(1, 3);
            b.memory_model(spirv::AddressingModel::Logical, spirv::MemoryModel::GLSL450);
            let ty = match p[1].as_str() { "uint" => b.type_int(32, 0), "int" => b.type_int(32, 1), _ => b.type_float(32, None) };
            b.constant_bit32(ty, v);
            let m = b.module();
            match rspirv::lift::LiftContext::convert(&m) {
                Ok(sm) => format!("{{\"result\": {}}}", jstr(&format!("{:?}", sm.constants))),
                Err(e) => format!("{{\"result\": {}}}", jstr(&format!("Err({:?})", e))),
            }
        }
        "type_identical" => {
            // type_identical <opcode A> <ids A, comma separated or -> <opcode B> <ids B>
            fn mk(op: &str, ids: &str) -> Option<rspirv::dr::Instruction> {
                let opc = spirv::Op::from_u32(op.parse::<u32>().ok()?)?;
                let ops: Vec<rspirv::dr::Operand> = if ids == "-" { vec![] } else {
                    ids.split(',').map(|x| rspirv::dr::Operand::IdRef(x.parse::<u32>().unwrap_or(0))).collect() };
                Some(rspirv::dr::Instruction::new(opc, None, Some(1), ops))
            }
            match (mk(&p[1], &p[2]), mk(&p[3], &p[4])) {
                (Some(a), Some(b)) => format!("{{\"identical\": {}, \"reverse\": {}}}", a.is_type_identical(&b), b.is_type_identical(&a)),
                _ => "{\"error\": \"unknown opcode\"}".to_string(),
            }
        }
        "typed_request_at_limit" => generated::typed_request_at_limit(&p[1], p[2].parse::<u64>().unwrap_or(0) as u32),
        "typed_request" => generated::typed_request(&p[1], p[2].parse::<u64>().unwrap_or(0) as u32, p.len() > 3 && p[3] == "empty"),
        "builder_set_version" => {
            // builder_set_version <0|1>: set_version(1,5) on a fresh builder, or after an earlier set_version(1,0) + new_from_module
            use rspirv::binary::Assemble;
            let mut b = rspirv::dr::Builder::new();
            if p[1] == "1" {
                b.set_version(1, 0);
                let m = b.module();
                b = rspirv::dr::Builder::new_from_module(m);
            }
            let major: u8 = if p.len() > 2 { p[2].parse().unwrap_or(1) } else { 1 };
            let minor: u8 = if p.len() > 3 { p[3].parse().unwrap_or(5) } else { 5 };
            b.set_version(major, minor);
            let m = b.module();
            let words = m.assemble();
            let v = m.header.as_ref().map(|h| h.version());
            format!("{{\"version\": {}, \"word\": {}}}", v.map_or("null".to_string(), |(a, c)| format!("[{}, {}]", a, c)), words.get(1).copied().unwrap_or(0))
        }
        "lift_words" => {
            // lift_words <hex of a whole module>: load, lift, and print the structured module's parts with {:?}
            let bytes = unhex(&p[1]);
            match rspirv::dr::load_bytes(&bytes) {
                Err(e) => format!("{{\"loaded\": false, \"error\": {}}}", jstr(&format!("{:?}", e))),
                Ok(m) => match rspirv::lift::LiftContext::convert(&m) {
                    Err(e) => format!("{{\"loaded\": true, \"lifted\": false, \"error\": {}}}", jstr(&format!("{:?}", e))),
                    Ok(sm) => format!(
                        "{{\"loaded\": true, \"lifted\": true, \"version\": {}, \"capabilities\": {}, \"memory_model\": {}, \"types\": {}, \"constants\": {}, \"ops\": {}, \"functions\": {}}}",
                        sm.version,
                        jstr(&format!("{:?}", sm.capabilities)),
                        jstr(&format!("{:?}", sm.memory_model)),
                        jstr(&format!("{:?}", sm.types)),
                        jstr(&format!("{:?}", sm.constants)),
                        jstr(&format!("{:?}", sm.ops)),
                        jstr(&format!(
                            "[{}]",
                            sm.functions
                                .iter()
                                .map(|f| format!(
                                    "Function {{ control: {:?}, result: {:?}, parameters: {:?}, blocks: {:?}, start_block: {:?} }}",
                                    f.control, f.result, f.parameters, f.blocks, f.start_block
                                ))
                                .collect::<Vec<_>>()
                                .join(", ")
                        ))
                    ),
                },
            }
        }
        "parse_assemble_kind" => generated::parse_assemble_kind(&p[1], p[2].parse::<u64>().unwrap_or(0) as u32, if p.len() > 3 { p[3].parse::<u64>().unwrap_or(0) as u32 } else { 0 }),
        "id_ref_any" => generated::id_ref_any(&p[1], p[2].parse::<u64>().unwrap_or(0)),
        "builder_type_twice" => generated::builder_type_twice_mode(&p[1], if p.len() > 2 && p[2] == "explicit" { 1 } else if p.len() > 2 && p[2] == "decorated" { 2 } else if p.len() > 2 && p[2] == "idless" { 3 } else { 0 }),
        "storage_history" => {
            // n appends of distinct values from Storage::new(); then every token must have its index and yield its value
            use rspirv::sr::storage::Storage;
            let n: u32 = p[1].parse().unwrap_or(0);
            let mut s: Storage<u32> = Storage::new();
            let mut toks = Vec::new();
            for k in 0..n { toks.push(s.append(1_000_000 + k)); }
            let mut bad: Option<String> = None;
            for (k, t) in toks.iter().enumerate() {
                if (t.index() as u64) != k as u64 { bad = Some(format!("token {} has index {}", k, t.index())); break; }
                if s[*t] != 1_000_000 + k as u32 { bad = Some(format!("token {} yields the value of token {}", k, s[*t] as i64 - 1_000_000)); break; }
            }
            match bad { None => "{\"ok\": true}".to_string(), Some(b) => format!("{{\"ok\": false, \"what\": {}}}", jstr(&b)) }
        }
        "storage_step" => storage_step(&p[1], if p.len() > 2 { &p[2] } else { "-" }),
        "lift_probe" => generated::lift_probe(p[1].parse::<u32>().unwrap_or(0)),
        "disas_operand" => generated::disas_operand(&p[1], p[2].parse::<u64>().unwrap_or(0)),
        "disas_constant" => {
            // disas_constant <width> <int|float> <signed> <bit pattern>
            use rspirv::binary::Disassemble;
            let width: u32 = p[1].parse().unwrap();
            let v: u64 = p[4].parse().unwrap();
            let mut b = rspirv::dr::Builder::new();
            let ty = if p[2] == "float" { b.type_float(width, None) } else { b.type_int(width, p[3].parse::<u32>().unwrap()) };
            if width == 64 { b.constant_bit64(ty, v); } else { b.constant_bit32(ty, v as u32); }
            let text = b.module().disassemble();
            format!("{{\"text\": {}}}", jstr(text.lines().last().unwrap_or("")))
        }
        "assemble_operand" => generated::assemble_operand(&p[1], p[2].parse::<u64>().unwrap_or(0)),
        "load_disassemble" => {
            use rspirv::binary::{Assemble, Disassemble};
            let bytes = unhex(&p[1]);
            match rspirv::dr::load_bytes(&bytes) {
                Ok(m) => {
                    let text = m.disassemble();
                    let words = m.assemble();
                    format!("{{\"loaded\": true, \"text\": {}, \"words\": [{}]}}", jstr(&text), words.iter().map(|w| w.to_string()).collect::<Vec<_>>().join(", "))
                }
                Err(e) => format!("{{\"loaded\": false, \"error\": {}}}", jstr(&format!("{:?}", e))),
            }
        }
        "parse_script" => {
            // parse_script <hex bytes> <answers: one of C/S/E per callback, in call order; missing = C>
            let bytes = unhex(&p[1]);
            let answers: Vec<char> = if p.len() > 2 { p[2].chars().collect() } else { vec![] };
            let mut c = crate::consumer::Scripted::new(answers);
            let r = rspirv::binary::parse_bytes(&bytes, &mut c);
            // the consumer's own error value must come back: downcast what ConsumerError carries
            let mut own = "null".to_string();
            if let Err(rspirv::binary::ParseState::ConsumerError(ref e)) = r {
                own = match e.downcast_ref::<crate::consumer::ScriptError>() { Some(x) => x.0.to_string(), None => "\"not the consumer's error value\"".to_string() };
            }
            let res = match r {
                Ok(()) => "\"Ok\"".to_string(),
                Err(e) => jstr(&format!("{:?}", e)),
            };
            format!("{{\"events\": [{}], \"result\": {}, \"own_error\": {}}}", c.log.iter().map(|x| jstr(x)).collect::<Vec<_>>().join(", "), res, own)
        }
        "wrappers_vs_parser" => {
            // wrappers_vs_parser <hex bytes>: parse_bytes / parse_words (when the length is a multiple of 4) against Parser::new(..).parse()
            let bytes = unhex(if p.len() > 1 { &p[1] } else { "" });
            fn run(f: &dyn Fn(&mut crate::consumer::Scripted) -> rspirv::binary::ParseResult<()>) -> String {
                let mut c = crate::consumer::Scripted::new(vec![]);
                let r = f(&mut c);
                format!("{:?} / {}", r.map_err(|e| format!("{:?}", e)), c.log.join(" | "))
            }
            let direct = run(&|c| rspirv::binary::Parser::new(&bytes, c).parse());
            let via_bytes = run(&|c| rspirv::binary::parse_bytes(&bytes, c));
            let mut via_words = "null".to_string();
            if bytes.len() % 4 == 0 {
                let words: Vec<u32> = bytes.chunks(4).map(|c| u32::from_le_bytes([c[0], c[1], c[2], c[3]])).collect();
                let w = run(&|c| rspirv::binary::parse_words(&words, c));
                via_words = jstr(&w);
            }
            format!("{{\"direct\": {}, \"parse_bytes\": {}, \"parse_words\": {}}}", jstr(&direct), jstr(&via_bytes), via_words)
        }
        "loader_step" => crate::sweep::loader_step_closed(p[1] == "1", p[2] == "1", p[3].parse::<u32>().unwrap(), p.len() > 4 && p[4] == "closed"),
        "loader_finalize" => crate::sweep::loader_finalize(p[1] == "1", p[2] == "1"),
        "traversal_sweep" => crate::sweep::traversal_sweep(),
        "lookup" => {
            use rspirv::grammar as g;
            let n = p[2].parse::<u32>().unwrap();
            fn ops_json(ops: &[g::LogicalOperand]) -> String {
                let v: Vec<String> = ops.iter().map(|o| format!("[\"{:?}\", \"{:?}\"]", o.kind, o.quantifier)).collect();
                format!("[{}]", v.join(", "))
            }
            match p[1].as_str() {
                "core" => match g::CoreInstructionTable::lookup_opcode(n as u16) {
                    Some(e) => format!("{{\"found\": true, \"opname\": {}, \"opcode\": {}, \"operands\": {}}}", jstr(e.opname), e.opcode as u32, ops_json(e.operands)),
                    None => "{\"found\": false}".to_string(),
                },
                "glsl" => match g::GlslStd450InstructionTable::lookup_opcode(n) {
                    Some(e) => format!("{{\"found\": true, \"opname\": {}, \"opcode\": {}, \"operands\": {}}}", jstr(e.opname), e.opcode, ops_json(e.operands)),
                    None => "{\"found\": false}".to_string(),
                },
                "opencl" => match g::OpenCLStd100InstructionTable::lookup_opcode(n) {
                    Some(e) => format!("{{\"found\": true, \"opname\": {}, \"opcode\": {}, \"operands\": {}}}", jstr(e.opname), e.opcode, ops_json(e.operands)),
                    None => "{\"found\": false}".to_string(),
                },
                _ => "{\"error\": \"unknown table\"}".to_string(),
            }
        }
        "get" => {
            use rspirv::grammar as g;
            let n = p[2].parse::<u32>().unwrap();
            match p[1].as_str() {
                "core" => match spirv::Op::from_u32(n) { Some(o) => format!("{{\"opcode\": {}}}", g::CoreInstructionTable::get(o).opcode as u32), None => "{\"error\": \"undeclared\"}".to_string() },
                "glsl" => match spirv::GLOp::from_u32(n) { Some(o) => format!("{{\"opcode\": {}}}", g::GlslStd450InstructionTable::get(o).opcode), None => "{\"error\": \"undeclared\"}".to_string() },
                "opencl" => match spirv::CLOp::from_u32(n) { Some(o) => format!("{{\"opcode\": {}}}", g::OpenCLStd100InstructionTable::get(o).opcode), None => "{\"error\": \"undeclared\"}".to_string() },
                _ => "{\"error\": \"unknown table\"}".to_string(),
            }
        }
        "select_by_name" => {
            // select_by_name <function index or -> <block index or -> <name>: two finished functions "a" (two blocks) and "b" (one
            // block), a name "c" on a non-function id, and a second, later name "b" on function 0 (the first match wins)
            let mut b = rspirv::dr::Builder::new();
            let void = b.type_void();
            let fty = b.type_function(void, vec![]);
            let mut fids = Vec::new();
            for nb in [2usize, 1] {
                let f = b.begin_function(void, None, spirv::FunctionControl::NONE, fty).unwrap();
                for _ in 0..nb {
                    b.begin_block(None).unwrap();
                    b.nop().unwrap();
                    b.ret().unwrap();
                }
                b.end_function().unwrap();
                fids.push(f);
            }
            b.name(fids[0], "a");
            b.name(fids[1], "b");
            b.name(void, "c");
            b.name(fids[0], "b");
            let idx = |s: &str| s.parse::<usize>().ok();
            let r0 = b.select_function(idx(&p[1]));
            let r1 = b.select_block(idx(&p[2]));
            let r = b.select_function_by_name(&p[3]);
            let (sf, sb) = (b.selected_function(), b.selected_block());
            let nblocks = sf.map(|f| b.module_ref().functions[f].blocks.len());
            // the selection must be usable: a block instruction goes where the selection points
            let usable = match (sf, sb) { (Some(_), Some(_)) => b.nop().is_ok(), _ => true };
            format!("{{\"setup_ok\": {}, \"result\": {}, \"sel_f\": {}, \"sel_b\": {}, \"nblocks\": {}, \"usable\": {}}}", r0.is_ok() && r1.is_ok(),
                    jstr(&format!("{:?}", r)), sf.map_or("null".to_string(), |x| x.to_string()), sb.map_or("null".to_string(), |x| x.to_string()),
                    nblocks.map_or("null".to_string(), |x| x.to_string()), usable)
        }
        "from_roundtrip" => {
            // from_roundtrip <str|string|u32|u64> <hex payload or number>: Operand::from(payload), extracted again
            use rspirv::dr::Operand;
            match p[1].as_str() {
                "str" | "string" => {
                    let bytes = unhex(if p.len() > 2 { &p[2] } else { "" });
                    let text = String::from_utf8_lossy(&bytes).into_owned();
                    let a = Operand::from(text.as_str());
                    let b = Operand::from(text.clone());
                    let o = if p[1] == "str" { &a } else { &b };
                    let back = o.unwrap_literal_string();
                    format!("{{\"same\": {}, \"agree\": {}, \"back\": {}}}", back == text, a == b, jstr(back))
                }
                "u32" => {
                    let v = p[2].parse::<u64>().unwrap_or(0) as u32;
                    format!("{{\"same\": {}}}", Operand::from(v).unwrap_literal_bit32() == v)
                }
                "u64" => {
                    let v = p[2].parse::<u64>().unwrap_or(0);
                    format!("{{\"same\": {}}}", Operand::from(v).unwrap_literal_bit64() == v)
                }
                _ => "{\"error\": \"unknown payload type\"}".to_string(),
            }
        }
        "reflect" => {
            use rspirv::grammar::reflect as r;
            let n = p[2].parse::<u32>().unwrap();
            match spirv::Op::from_u32(n) {
                None => "{\"error\": \"not an opcode\"}".to_string(),
                Some(op) => {
                    let v = match p[1].as_str() {
                        "is_location_debug" => r::is_location_debug(op),
                        "is_nonlocation_debug" => r::is_nonlocation_debug(op),
                        "is_debug" => r::is_debug(op),
                        "is_annotation" => r::is_annotation(op),
                        "is_type" => r::is_type(op),
                        "is_constant" => r::is_constant(op),
                        "is_variable" => r::is_variable(op),
                        "is_return" => r::is_return(op),
                        "is_abort" => r::is_abort(op),
                        "is_return_or_abort" => r::is_return_or_abort(op),
                        "is_branch" => r::is_branch(op),
                        "is_block_terminator" => r::is_block_terminator(op),
                        _ => return "{\"error\": \"unknown predicate\"}".to_string(),
                    };
                    format!("{{\"value\": {}, \"op\": \"{:?}\"}}", v, op)
                }
            }
        }
        _ => format!("{{\"error\": \"unknown request {}\"}}", p[0]),
    }
}
