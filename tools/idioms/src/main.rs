fn main() {
    let inputs: &[(u32, u32)] = &[(0, 0), (1, 2), (7, 7), (2, 1), (10, 3), (12, 12), (0xffff_ffff, 1), (65536, 255), (6, 9), (100, 7), (0x8000_0000, 0x7fff_ffff)];
    for (name, f) in idioms::ALL {
        for (a, b) in inputs {
            println!("{} {} {} {}", name, a, b, f(*a, *b));
        }
    }
}
