//! Small functions written with the std idioms the MIR engine gives summaries for. `tools/test_models.py` runs each of them
//! (a) natively and (b) through the engine from this crate's MIR, on the same inputs, and compares the answers: the summaries
//! are validated against the real std, Serval-style.
#![allow(clippy::all)]

fn data(a: u32, b: u32) -> Vec<u32> {
    vec![a, b, a ^ b, 7, b, 0, a.wrapping_add(3)]
}

pub fn f_iter_sum_loop(a: u32, b: u32) -> u64 {
    let v = data(a, b);
    let mut s = 0u64;
    for x in v.iter() {
        s = s.wrapping_mul(31).wrapping_add(*x as u64);
    }
    s
}
pub fn f_enumerate(a: u32, b: u32) -> u64 {
    let v = data(a, b);
    let mut s = 0u64;
    for (i, x) in v.iter().enumerate() {
        s = s.wrapping_add((i as u64 + 1) * (*x as u64));
    }
    s
}
pub fn f_rev(a: u32, b: u32) -> u64 {
    let v = data(a, b);
    let mut s = 0u64;
    for x in v.iter().rev() {
        s = s.wrapping_mul(17).wrapping_add(*x as u64);
    }
    s
}
pub fn f_skip_take(a: u32, b: u32) -> u64 {
    let v = data(a, b);
    let mut s = 0u64;
    for x in v.iter().skip(2).take(3) {
        s = s.wrapping_mul(13).wrapping_add(*x as u64);
    }
    s
}
pub fn f_position(a: u32, b: u32) -> u64 {
    let v = data(a, b);
    match v.iter().position(|x| *x == b) {
        Some(i) => i as u64,
        None => 99,
    }
}
pub fn f_find(a: u32, b: u32) -> u64 {
    let v = data(a, b);
    match v.iter().find(|x| **x > a) {
        Some(x) => *x as u64,
        None => 1 << 40,
    }
}
pub fn f_any_all(a: u32, b: u32) -> u64 {
    let v = data(a, b);
    (v.iter().any(|x| *x == 7) as u64) | ((v.iter().all(|x| *x >= b) as u64) << 1)
}
pub fn f_filter_count(a: u32, b: u32) -> u64 {
    let v = data(a, b);
    v.iter().filter(|x| **x > b).count() as u64
}
pub fn f_take_while(a: u32, b: u32) -> u64 {
    let v = data(a, b);
    v.iter().take_while(|x| **x != 7).count() as u64
}
pub fn f_zip_all(a: u32, b: u32) -> u64 {
    let v = data(a, b);
    let w = data(b, a);
    v.iter().zip(w.iter()).all(|(x, y)| x == y) as u64
}
pub fn f_first_last_get(a: u32, b: u32) -> u64 {
    let v = data(a, b);
    let f = *v.first().unwrap_or(&1) as u64;
    let l = *v.last().unwrap_or(&2) as u64;
    let g = v.get((a % 9) as usize).copied().unwrap_or(5) as u64;
    f.wrapping_mul(1000003).wrapping_add(l).wrapping_mul(1000003).wrapping_add(g)
}
pub fn f_contains_len(a: u32, b: u32) -> u64 {
    let v = data(a, b);
    (v.contains(&a) as u64) + 2 * (v.len() as u64) + 100 * (v.is_empty() as u64)
}
pub fn f_slicing(a: u32, b: u32) -> u64 {
    let v = data(a, b);
    let s = &v[1..4];
    let t = &v[(a % 4) as usize..];
    let u = &v[..(b % 5) as usize];
    (s.len() + 10 * t.len() + 100 * u.len()) as u64 + s[0] as u64
}
pub fn f_vec_ops(a: u32, b: u32) -> u64 {
    let mut v = data(a, b);
    v.push(a);
    v.insert(1, b);
    let p = v.pop().unwrap_or(0);
    let r = v.remove(0);
    v.truncate(5);
    v.extend_from_slice(&[1, 2]);
    v.swap(0, 1);
    let mut s = (p as u64) ^ ((r as u64) << 32);
    for x in &v {
        s = s.wrapping_mul(31).wrapping_add(*x as u64);
    }
    s
}
pub fn f_vec_mut(a: u32, b: u32) -> u64 {
    let mut v = data(a, b);
    if let Some(x) = v.last_mut() {
        *x = b;
    }
    if let Some(x) = v.first_mut() {
        *x = x.wrapping_add(1);
    }
    if let Some(x) = v.get_mut(2) {
        *x = 9;
    }
    for x in v.iter_mut() {
        *x = x.wrapping_mul(3);
    }
    v.clear();
    v.push(a);
    v[0] as u64 + v.len() as u64
}
pub fn f_dedup_retain(a: u32, b: u32) -> u64 {
    let mut v = vec![a, a, b, b, a, 7];
    v.dedup();
    let n1 = v.len() as u64;
    v.retain(|x| *x != 7);
    n1 * 10 + v.len() as u64
}
pub fn f_option(a: u32, b: u32) -> u64 {
    let o = if a % 2 == 0 { Some(a) } else { None };
    let p = if b % 3 == 0 { Some(b) } else { None };
    let r1 = o.unwrap_or(11) as u64;
    let r2 = o.map(|x| x / 2).unwrap_or_default() as u64;
    let r3 = o.and_then(|x| if x > 10 { Some(x) } else { None }).is_some() as u64;
    let r4 = o.or(p).unwrap_or(13) as u64;
    let r5 = o.map_or(17, |x| x % 5) as u64;
    let r6 = o.filter(|x| *x > b).is_none() as u64;
    let r7 = o.zip(p).map(|(x, y)| x ^ y).unwrap_or(19) as u64;
    let r8 = o.ok_or(23u8).is_err() as u64;
    let r9 = o.xor(p).is_some() as u64;
    r1 ^ (r2 << 7) ^ (r3 << 14) ^ (r4 << 21) ^ (r5 << 28) ^ (r6 << 35) ^ (r7 << 36) ^ (r8 << 50) ^ (r9 << 51)
}
pub fn f_result(a: u32, b: u32) -> u64 {
    let r: Result<u32, u8> = if a > b { Ok(a - b) } else { Err((b % 200) as u8) };
    let r1 = r.is_ok() as u64;
    let r2 = r.ok().unwrap_or(3) as u64;
    let r3 = r.map(|x| x + 1).unwrap_or(5) as u64;
    let r4 = r.map_err(|e| e as u32 + 1).err().unwrap_or(7) as u64;
    let r5 = r.and_then(|x| if x > 4 { Ok(x) } else { Err(9) }).is_err() as u64;
    let r6 = r.unwrap_or_else(|e| e as u32 * 2) as u64;
    r1 ^ (r2 << 3) ^ (r3 << 20) ^ (r4 << 40) ^ (r5 << 50) ^ (r6 << 51)
}
pub fn f_int_ops(a: u32, b: u32) -> u64 {
    let r1 = a.checked_add(b).unwrap_or(1) as u64;
    let r2 = a.checked_sub(b).unwrap_or(2) as u64;
    let r3 = a.checked_mul(b).unwrap_or(3) as u64;
    let r4 = a.wrapping_sub(b) as u64;
    let r5 = a.saturating_sub(b) as u64;
    let r6 = a.saturating_add(b) as u64;
    let r7 = a.min(b) as u64 + a.max(b) as u64;
    let r8 = (a.leading_zeros() + b.trailing_zeros() + a.count_ones()) as u64;
    let r9 = a.swap_bytes() as u64 ^ (b.rotate_left(5) as u64);
    let r10 = u32::from_le_bytes(a.to_le_bytes()) as u64 ^ u32::from_be_bytes(b.to_le_bytes()) as u64;
    let r11 = (a as u16) as u64 + ((a >> 16) as u8) as u64;
    let r12 = a.checked_shl(b % 40).unwrap_or(4) as u64;
    r1.wrapping_mul(3) ^ r2.wrapping_mul(5) ^ r3.wrapping_mul(7) ^ r4.wrapping_mul(11) ^ r5.wrapping_mul(13) ^ r6.wrapping_mul(17) ^ r7.wrapping_mul(19)
        ^ r8.wrapping_mul(23) ^ r9.wrapping_mul(29) ^ r10.wrapping_mul(31) ^ r11.wrapping_mul(37) ^ r12.wrapping_mul(41)
}
pub fn f_try_from(a: u32, b: u32) -> u64 {
    use std::convert::TryFrom;
    let r1 = u16::try_from(a).map(|x| x as u64).unwrap_or(1 << 20);
    let r2 = u8::try_from(b).map(|x| x as u64).unwrap_or(1 << 21);
    let r3 = i32::try_from(a).map(|x| x as u64).unwrap_or(1 << 33);
    let r4 = usize::try_from(b).map(|x| x as u64).unwrap_or(5);
    r1 ^ (r2 << 1) ^ r3.wrapping_mul(3) ^ r4.wrapping_mul(5)
}
pub fn f_mem(a: u32, b: u32) -> u64 {
    let mut x = a;
    let mut y = b;
    std::mem::swap(&mut x, &mut y);
    let old = std::mem::replace(&mut x, 5);
    let mut v = data(a, b);
    let t = std::mem::take(&mut v);
    (old as u64) ^ ((y as u64) << 20) ^ ((x as u64) << 40) ^ ((t.len() as u64) << 50) ^ ((v.len() as u64) << 55)
}
pub fn f_chunks_windows(a: u32, b: u32) -> u64 {
    let v = data(a, b);
    let mut s = 0u64;
    for c in v.chunks(3) {
        s = s.wrapping_mul(7).wrapping_add(c.len() as u64 * 1000 + c[0] as u64);
    }
    for c in v.chunks_exact(2) {
        s = s.wrapping_mul(7).wrapping_add(c[1] as u64);
    }
    for w in v.windows(2) {
        s = s.wrapping_mul(3).wrapping_add((w[0] == w[1]) as u64);
    }
    s
}
pub fn f_map_collect(a: u32, b: u32) -> u64 {
    let v = data(a, b);
    let w: Vec<u32> = v.iter().map(|x| x.wrapping_mul(3)).collect();
    let z: Vec<u32> = v.iter().copied().filter(|x| *x != b).collect();
    let mut s = 0u64;
    for x in w.iter().chain(z.iter()) {
        s = s.wrapping_mul(31).wrapping_add(*x as u64);
    }
    s + (w.len() as u64) * 3 + z.len() as u64
}
pub fn f_sort_search(a: u32, b: u32) -> u64 {
    let mut v = data(a % 50, b % 50);
    v.push(99);
    v.sort();
    let r = match v.binary_search(&99) {
        Ok(i) => i as u64,
        Err(i) => 100 + i as u64,
    } + match v.binary_search(&(a % 50 + 200)) {
        Ok(i) => 1000 * i as u64,
        Err(i) => 100000 + 1000 * i as u64,
    };
    let m = *v.iter().max().unwrap_or(&0) as u64;
    let n = *v.iter().min().unwrap_or(&0) as u64;
    r + 1000 * m + 1000000 * n
}
pub fn f_split(a: u32, b: u32) -> u64 {
    let v = data(a, b);
    let (l, r) = v.split_at((a % 7) as usize);
    let f = v.split_first().map(|(h, t)| *h as u64 + t.len() as u64).unwrap_or(0);
    let g = v.split_last().map(|(h, t)| *h as u64 + t.len() as u64).unwrap_or(0);
    (l.len() as u64) + 10 * (r.len() as u64) + 100 * f + 100000 * g
}
pub fn f_fold_sum(a: u32, b: u32) -> u64 {
    let v = data(a % 1000, b % 1000);
    let s: u32 = v.iter().sum();
    let f = v.iter().fold(0u64, |acc, x| acc.wrapping_mul(3).wrapping_add(*x as u64));
    let m = v.iter().map(|x| *x as u64).max().unwrap_or(0);
    s as u64 ^ (f << 8) ^ (m << 40)
}

pub fn f_range_loop(a: u32, b: u32) -> u64 {
    let n = (a ^ b).count_ones();
    let mut s = 0u64;
    for i in 0..n {
        s = s.wrapping_mul(3).wrapping_add(i as u64 + 1);
    }
    for j in (b % 5)..(a % 7) {
        s = s.wrapping_add(j as u64 * 1000);
    }
    s
}

pub fn f_cell(a: u32, b: u32) -> u64 {
    let c: std::cell::Cell<Option<(u32, Option<u32>)>> = std::cell::Cell::new(None);
    let mut s = 0u64;
    for x in [a, b, a, 7, b] {
        if let Some((k, v)) = c.get() {
            if k == x {
                s = s.wrapping_mul(5).wrapping_add(v.unwrap_or(9) as u64);
                continue;
            }
        }
        let v = if x % 2 == 0 { Some(x / 2) } else { None };
        c.set(Some((x, v)));
        s = s.wrapping_mul(7).wrapping_add(1);
    }
    s.wrapping_add(c.replace(None).map_or(0, |p| p.0 as u64))
}

pub fn f_binary_search(a: u32, b: u32) -> u64 {
    const T: [u32; 7] = [0, 2, 7, 10, 12, 100, 65536];
    let x = match T.binary_search(&a) {
        Ok(i) => i as u64,
        Err(i) => 100 + i as u64,
    };
    let y = if T.binary_search(&b).is_ok() { 1 } else { 0 };
    x * 2 + y
}

pub fn f_map_or(a: u32, b: u32) -> u64 {
    let o = if a % 3 == 0 { None } else { Some(a) };
    let t = o.map_or(false, |v| v.wrapping_add(1) == b.wrapping_add(1));
    let u = o.map_or(b as u64, |v| v as u64 * 2);
    let w = o.filter(|&w| w != 1).is_some();
    u.wrapping_mul(4) + if t { 2 } else { 0 } + if w { 1 } else { 0 }
}

pub fn f_from_elem_range_incl(a: u32, b: u32) -> u64 {
    let v = vec![a.wrapping_mul(3); 3];
    let r = (2u32..=10).contains(&a) as u64;
    let t = (b..=b.saturating_add(2)).contains(&a) as u64;
    v.iter().fold(0u64, |s, x| s.wrapping_mul(7).wrapping_add(*x as u64)) * 4 + r * 2 + t
}

pub const ALL: &[(&str, fn(u32, u32) -> u64)] = &[
    ("f_iter_sum_loop", f_iter_sum_loop),
    ("f_from_elem_range_incl", f_from_elem_range_incl),
    ("f_range_loop", f_range_loop),
    ("f_cell", f_cell),
    ("f_binary_search", f_binary_search),
    ("f_map_or", f_map_or),
    ("f_enumerate", f_enumerate),
    ("f_rev", f_rev),
    ("f_skip_take", f_skip_take),
    ("f_position", f_position),
    ("f_find", f_find),
    ("f_any_all", f_any_all),
    ("f_filter_count", f_filter_count),
    ("f_take_while", f_take_while),
    ("f_zip_all", f_zip_all),
    ("f_first_last_get", f_first_last_get),
    ("f_contains_len", f_contains_len),
    ("f_slicing", f_slicing),
    ("f_vec_ops", f_vec_ops),
    ("f_vec_mut", f_vec_mut),
    ("f_dedup_retain", f_dedup_retain),
    ("f_option", f_option),
    ("f_result", f_result),
    ("f_int_ops", f_int_ops),
    ("f_try_from", f_try_from),
    ("f_mem", f_mem),
    ("f_chunks_windows", f_chunks_windows),
    ("f_map_collect", f_map_collect),
    ("f_sort_search", f_sort_search),
    ("f_split", f_split),
    ("f_fold_sum", f_fold_sum),
    ("f_slice_pattern", f_slice_pattern),
    ("f_extend_findmap", f_extend_findmap),
    ("f_for_each", f_for_each),
];

pub fn f_slice_pattern(a: u32, b: u32) -> u64 {
    let v = data(a, b);
    let n = (a % 4) as usize;
    let s = &v[..n.min(v.len())];
    let r1 = match s {
        [] => 1u64,
        [x] => 10 + *x as u64,
        [x, y] => 100 + (*x as u64) * 3 + *y as u64,
        [x, rest @ ..] => 1000 + *x as u64 + 7 * rest.len() as u64,
    };
    let r2 = match v.as_slice() {
        [first, .., last] => (*first as u64) ^ ((*last as u64) << 32),
        _ => 0,
    };
    let r3 = if let [_, _, tail @ ..] = v.as_slice() { tail.len() as u64 + tail[0] as u64 } else { 5 };
    r1 ^ r2.rotate_left(7) ^ (r3 << 50)
}
pub fn f_extend_findmap(a: u32, b: u32) -> u64 {
    let mut v = data(a, b);
    v.extend(if a % 2 == 0 { Some(b) } else { None });
    v.extend(&[1u32, 2]);
    v.extend(data(b, a).iter().map(|x| x ^ 1));
    let f = v.iter().filter(|x| **x != a).find_map(|x| if *x > b { Some(*x as u64 + 1) } else { None }).unwrap_or(3);
    let mut s = f;
    for x in &v {
        s = s.wrapping_mul(31).wrapping_add(*x as u64);
    }
    s
}

pub fn f_for_each(a: u32, b: u32) -> u64 {
    let v = data(a, b);
    let mut out: Vec<u32> = Vec::new();
    v.iter().for_each(|x| out.push(x.wrapping_add(b)));
    let mut s = out.len() as u64;
    out.iter().for_each(|x| s = s.wrapping_mul(33).wrapping_add(*x as u64));
    s
}
