#!/bin/bash
# usage: run_seeded.sh <seed dir name> <PROP> [tier]
# Applies the seeded patch to a scratch COPY of /repo (never to /repo itself), runs the check against the copy
# (VERIF_REPO) with its output redirected (VERIF_OUT), and removes the copy. Safe to run concurrently.
S=/verif/seeded/$1; P=$2; T=${3:-quick}
W=$(mktemp -d /tmp/seedrun.XXXXXX)
mkdir -p $W/repo && (cd /repo && git archive HEAD | tar -x -C $W/repo) || exit 3
(cd $W/repo && git init -q . && git apply $S/patch.diff) || { echo "seed=$1 check=$P: patch does not apply"; rm -rf $W; exit 3; }
cd /verif && VERIF_REPO=$W/repo VERIF_OUT=$W/out timeout ${SEED_TIMEOUT:-2400} ./check $P --tier $T > $W/log 2>&1; RC=$?
mkdir -p /tmp/seed/logs; cp $W/log /tmp/seed/logs/run-$1-$P.log
echo "seed=$1 check=$P tier=$T rc=$RC $(grep -cE '^VIOLATION' $W/log) violation(s) $(grep -E '^  role=' $W/log | head -1 | cut -c1-160)"
grep -E "^INCONCLUSIVE" $W/log | head -2 | cut -c1-200
# drop this tree's artifacts again (work dirs are keyed by tree content)
H=$(cd /verif && VERIF_REPO=$W/repo python3-vt -c "import sys; sys.path.insert(0,'lib'); import common; print(common.tree_hash())")
rm -rf /verif/.work/$H $W
exit 0
