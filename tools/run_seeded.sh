#!/bin/bash
# usage: run_seeded.sh <seed dir name> <PROP> [tier] — apply the seeded patch to /repo, run the check, undo.
S=/verif/seeded/$1; P=$2; T=${3:-quick}
cd /repo && git diff --quiet || { echo "/repo not clean"; exit 3; }
git -C /repo apply $S/patch.diff || exit 3
cp /verif/evidence/$P.json /tmp/seed/ev-$P.bak 2>/dev/null
cd /verif && timeout ${SEED_TIMEOUT:-1800} ./check $P --tier $T > /tmp/seed/run-$1-$P.log 2>&1; RC=$?
git -C /repo checkout -- .
[ -f /tmp/seed/ev-$P.bak ] && cp /tmp/seed/ev-$P.bak /verif/evidence/$P.json
rm -rf /verif/replays/$P
echo "seed=$1 check=$P tier=$T rc=$RC"; grep -E "^VIOLATION|^KNOWN|^OK|^INCONCLUSIVE" /tmp/seed/run-$1-$P.log | head -5
