#!/bin/bash
# usage: confirm_seed.sh <PROP> <k> [<name>]  — confirm a seeded change produced by a sub-agent in its scratch worktree:
# applies, full suite passes, demo fails with it and passes without; then stores it under /verif/seeded/<PROP>-<k>/
set -u
ID=$1; K=$2
WT=/tmp/seed/$ID; OUT=${SEED_OUT:-/tmp/seed/out}/$ID; NAME=${3:-$ID-$K}
export CARGO_NET_OFFLINE=true CARGO_TARGET_DIR=$WT/target
cd $WT || exit 3
git checkout -q -- . && git clean -fdq -e target
git apply --check $OUT/patch$K.diff || { echo "patch does not apply"; exit 3; }
git apply $OUT/patch$K.diff
SUITE=$(cargo test --workspace --offline --no-fail-fast 2>&1 | grep -E "^test result" | awk '{p+=$4; f+=$6} END {print p" passed "f" failed"}')
echo "suite with change: $SUITE"
PKG=rspirv; TDIR=rspirv/tests
if grep -q "dis/tests" $OUT/meta$K.json 2>/dev/null || grep -q "CARGO_BIN_EXE" $OUT/demo$K.rs; then PKG=rspirv-dis; TDIR=dis/tests; mkdir -p dis/tests; fi
cp $OUT/demo$K.rs $TDIR/seed_demo.rs
cargo test --offline -p $PKG --test seed_demo > $OUT/with$K.log 2>&1; WITH=$?
git checkout -q -- . 
cargo test --offline -p $PKG --test seed_demo > $OUT/without$K.log 2>&1; WITHOUT=$?
rm -f $TDIR/seed_demo.rs
git checkout -q -- . && git clean -fdq -e target
echo "demo with change: exit $WITH ; without: exit $WITHOUT"
case "$SUITE" in *" 0 failed") ;; *) echo "NOT CONFIRMED (suite fails)"; exit 1;; esac
if [ $WITH -ne 0 ] && [ $WITHOUT -eq 0 ]; then
  D=/verif/seeded/$NAME; mkdir -p $D
  cp $OUT/patch$K.diff $D/patch.diff; cp $OUT/demo$K.rs $D/demo.rs
  python3 - <<PY
import json
m=json.load(open("$OUT/meta$K.json"))
m["breaks"]= "$ID"
m["confirmed"]={"suite_with_change":"$SUITE","demo_with_change_exit":$WITH,"demo_without_change_exit":$WITHOUT,
 "how":"tools/confirm_seed.sh $ID $K in scratch worktree /tmp/seed/$ID (git apply; cargo test --workspace --offline; demo as rspirv/tests/seed_demo.rs with and without the change)"}
json.dump(m,open("$D/meta.json","w"),indent=1)
PY
  echo CONFIRMED $D
else
  echo "NOT CONFIRMED"; exit 1
fi
