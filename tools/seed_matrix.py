#!/usr/local/bin/python3-vt
"""Runs every seeded change against the check of the property it breaks (and the extra checks given in meta.json 'also'),
in parallel on scratch copies of /repo, and writes seeded/MATRIX.json + seeded/MATRIX.md."""
import json, os, re, subprocess, sys
from concurrent.futures import ThreadPoolExecutor
HERE = os.path.dirname(os.path.dirname(os.path.abspath(__file__)))
SEEDS = os.path.join(HERE, "seeded")
EXTRA = {  # seed -> other checks worth running
    "C01-1": ["C05"], "C01-2": ["C08"], "C02-1": ["C17", "C03"], "C02-2": ["C10", "C03"], "C03-1": ["C10"], "C03-2": ["C17"],
    "C04-1": ["C05"], "C04-2": ["C11"], "C06-1": ["C05", "C16"], "C06-2": [], "C09-2": ["C03", "C06"], "C12-1": ["C06", "C16"],
    "C13-2": ["C12"], "C16-1": ["C05", "C06"], "C16-2": ["C06", "C12"], "C20-1": ["C04"], "D-decoder-string": ["C11", "C04"],
    "C01-3": ["C10", "C03"], "C01-4": ["C06", "C15"], "C02-3": ["C03", "C17"], "C02-4": ["C14"], "C03-3": ["C08", "C11"], "C03-4": ["C10"],
    "C04-3": ["C11"], "C04-4": ["C07"], "C05-3": ["C04"], "C06-3": ["C01", "C15"], "C07-3": ["C15"], "C08-3": ["C11", "C03"], "C08-4": ["C02"],
    "C09-3": ["C17"], "C09-4": ["C06", "C04"], "C10-3": ["C03"], "C10-4": ["C03"], "C11-3": ["C03", "C04"], "C11-4": ["C08", "C03"],
    "C12-3": ["C16"], "C12-4": ["C04"], "C13-3": ["C06"], "C17-4": ["C03", "C02"], "C18-3": [], "C20-3": ["C03"], "C20-4": ["C04"],
    "C01-6": ["C11", "C02"], "C01-7": ["C02", "C04"], "C02-6": ["C03"], "C02-7": ["C03"], "C03-6": ["C04"], "C03-7": ["C09"], "C04-6": ["C20"], "C04-7": ["C11"],
    "C06-6": ["C10"], "C06-7": ["C12"], "C07-6": ["C09"], "C09-7": ["C03"], "C11-6": ["C04"], "C11-7": ["C01"], "C16-6": ["C05"], "C16-7": ["C05"],
    "C20-6": ["C04", "C07"], "C20-7": ["C04", "C11"],
    "C01-8": ["C05"], "C01-9": ["C15", "C02"], "C02-8": ["C04", "C01"], "C02-9": ["C09", "C03"], "C03-8": ["C01"], "C03-9": ["C11", "C10"], "C04-8": ["C09", "C07"], "C04-9": ["C03"],
    "C05-9": ["C16"], "C06-9": ["C02", "C01"], "C07-9": ["C09"], "C09-8": ["C08"], "C10-9": ["C14"], "C11-8": ["C04"], "C11-9": ["C04"], "C13-8": ["C06"],
    "C15-8": ["C01"], "C15-9": ["C06"], "C16-8": ["C05", "C12"], "C16-9": ["C05", "C01"], "C17-8": ["C03", "C02"], "C20-9": ["C04", "C10"],
    "C01-10": ["C05", "C16"], "C01-11": ["C06"], "C02-10": ["C10"], "C02-11": ["C17", "C03"], "C03-11": ["C04"], "C04-10": ["C03"], "C04-11": ["C11"],
    "C05-10": ["C16"], "C06-10": ["C10"], "C09-10": ["C03"], "C10-11": ["C03"], "C11-10": ["C08"], "C11-11": ["C04"], "C15-11": ["C01"], "C16-10": ["C05"], "C16-11": ["C05"],
    "C17-10": ["C03"], "C17-11": ["C03"], "C20-10": ["C04", "C11"], "C20-11": ["C04", "C03"],
    "D-builder-selection": ["C12"], "D-specconstop-panic": ["C04", "C03", "C20"], "D-specconstop-quantifier": ["C03"], "D-disas-constant": ["C04", "C20"],
}
only = sys.argv[1:]
jobs = []
for d in sorted(os.listdir(SEEDS)):
    p = os.path.join(SEEDS, d)
    if not os.path.isdir(p) or not os.path.exists(os.path.join(p, "patch.diff")):
        continue
    if only and d not in only:
        continue
    try:
        if json.load(open(os.path.join(p, "meta.json"))).get("stale"):
            continue
    except Exception:
        pass
    own = d.split("-")[0] if re.match(r"^C\d\d-", d) else None
    checks = ([own] if own else []) + ([] if (os.environ.get("OWN_ONLY") and own) else EXTRA.get(d, []))
    for c in dict.fromkeys(checks):
        jobs.append((d, c))

def run(job):
    d, c = job
    lg = "/tmp/seed/logs/run-%s-%s.log" % (d, c)
    if os.environ.get("SKIP_DONE") and os.path.exists(lg):
        txt = open(lg).read()
        done = re.search(r"^(OK property|VIOLATION property|INCONCLUSIVE )", txt, re.M)
        if done:
            nv = len(re.findall(r"^VIOLATION", txt, re.M))
            rc = 1 if nv else (2 if re.search(r"^INCONCLUSIVE", txt, re.M) else 0)
            role = re.search(r"^  role=(\S+)", txt, re.M)
            return {"seed": d, "check": c, "rc": rc, "caught": rc == 1, "first_role": role.group(1).rstrip(":") if role else None,
                    "line": "seed=%s check=%s tier=quick rc=%d %d violation(s) (from the stored log)" % (d, c, rc, nv)}
    p = subprocess.run([os.path.join(HERE, "tools", "run_seeded.sh"), d, c], stdout=subprocess.PIPE, stderr=subprocess.STDOUT, text=True)
    line = p.stdout.strip().split("\n")[0] if p.stdout.strip() else ""
    m = re.search(r"rc=(\d+) (\d+) violation", line)
    rc = int(m.group(1)) if m else -1
    role = re.search(r"role=(\S+)", line)
    return {"seed": d, "check": c, "rc": rc, "caught": rc == 1, "first_role": role.group(1).rstrip(":") if role else None, "line": line[:300]}

with ThreadPoolExecutor(max_workers=int(os.environ.get("MATRIX_WORKERS", "3"))) as ex:
    results = list(ex.map(run, jobs))
out = os.path.join(SEEDS, "MATRIX.json")
old = json.load(open(out)) if os.path.exists(out) and (only or os.environ.get("KEEP_OLD")) else []
old = [r for r in old if (r["seed"], r["check"]) not in {(x["seed"], x["check"]) for x in results}]
if os.environ.get("KEEP_OLD"):
    for r in old:
        r["earlier_run"] = True      # a cell of another property's check, kept from an earlier run of the machinery
results = sorted(old + results, key=lambda r: (r["seed"], r["check"]))
json.dump(results, open(out, "w"), indent=1)
with open(os.path.join(SEEDS, "MATRIX.md"), "w") as f:
    f.write("Cells of the check of the property a change breaks come from the final run; cells marked (earlier) are cross-checks by OTHER properties' "
            "checks kept from an earlier run of the machinery.\n\n")
    f.write("| seeded change | check | exit | caught | first role reported |\n|---|---|---|---|---|\n")
    for r in results:
        f.write("| %s | %s%s | %d | %s | %s |\n" % (r["seed"], r["check"], " (earlier)" if r.get("earlier_run") else "", r["rc"],
                                                "yes" if r["caught"] else ("inconclusive" if r["rc"] == 2 else "no"), r["first_role"] or ""))
print("\n".join("%s %s rc=%d" % (r["seed"], r["check"], r["rc"]) for r in results))
