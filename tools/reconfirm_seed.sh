#!/bin/bash
# usage: reconfirm_seed.sh <seed name e.g. C04-2>  — re-validate a stored seeded change against the CURRENT /repo HEAD in a scratch
# worktree: patch applies, full suite passes with it, demo fails with it and passes without. Prints one line.
set -u
N=$1; ID=${N%%-*}; S=/verif/seeded/$N
WT=/tmp/seed/re-$ID
if [ ! -d $WT ]; then git -C /repo worktree add -q --detach $WT HEAD || exit 3; fi
export CARGO_NET_OFFLINE=true CARGO_TARGET_DIR=$WT/target
cd $WT || exit 3
git checkout -q --detach $(git -C /repo rev-parse HEAD) 2>/dev/null
git checkout -q -- . && git clean -fdq -e target
git apply --check $S/patch.diff 2>/dev/null || { echo "$N STALE patch does not apply to HEAD"; exit 1; }
git apply $S/patch.diff
SUITE=$(cargo test --workspace --offline --no-fail-fast 2>&1 | grep -E "^test result" | awk '{p+=$4; f+=$6} END {print p" passed "f" failed"}')
PKG=rspirv; TDIR=rspirv/tests
if grep -q "CARGO_BIN_EXE" $S/demo.rs; then PKG=rspirv-dis; TDIR=dis/tests; mkdir -p dis/tests; fi
cp $S/demo.rs $TDIR/seed_demo.rs
cargo test --offline -p $PKG --test seed_demo > /dev/null 2>&1; WITH=$?
git checkout -q -- .
cargo test --offline -p $PKG --test seed_demo > /dev/null 2>&1; WITHOUT=$?
rm -f $TDIR/seed_demo.rs; git checkout -q -- . && git clean -fdq -e target
case "$SUITE" in *" 0 failed") ;; *) echo "$N STALE suite fails with the change ($SUITE)"; exit 1;; esac
if [ $WITH -ne 0 ] && [ $WITHOUT -eq 0 ]; then echo "$N OK"; else echo "$N STALE demo with=$WITH without=$WITHOUT"; exit 1; fi
