#!/bin/bash
# Run once after a fresh restore (offline): warms the per-tree artifacts the checks build on demand
# (MIR dumps, replay runner). Every check rebuilds them itself if they are missing or /repo changed.
export CARGO_NET_OFFLINE=true
cd "$(dirname "$0")/.." || exit 1
/usr/local/bin/python3-vt - <<'PY'
import sys
sys.path.insert(0, "lib")
import common
for c in ("spirv", "rspirv", "dis"):
    try:
        print("mir", c, common.mir_path(c))
    except Exception as e:
        print("mir", c, "failed:", str(e)[:500])
try:
    print("replay", common.replay_bin("dev"))
except Exception as e:
    print("replay failed:", str(e)[:500])
PY
exit 0
