#!/usr/local/bin/python3-vt
"""Validates the engine's std summaries against the real std: every function of tools/idioms is run natively and through the
MIR engine (concrete inputs) and the answers are compared. Usage: tools/test_models.py [function names...]"""
import os, re, subprocess, sys
HERE = os.path.dirname(os.path.dirname(os.path.abspath(__file__)))
sys.path.insert(0, os.path.join(HERE, "lib"))
import z3, sym, mir, itermodels
try:
    import stdmodels
    EXTRA = stdmodels.MODELS
except ImportError:
    EXTRA = []
CR = os.path.join(HERE, "tools", "idioms")
TD = os.environ.get("IDIOMS_TARGET", "/tmp/idioms-target")
env = dict(os.environ, CARGO_NET_OFFLINE="true", CARGO_TARGET_DIR=TD)
native = subprocess.run(["cargo", "run", "--offline", "-q"], cwd=CR, env=env, stdout=subprocess.PIPE, stderr=subprocess.PIPE, text=True)
if native.returncode != 0:
    print(native.stderr[-2000:]); sys.exit(2)
want = {}
for l in native.stdout.split("\n"):
    p = l.split()
    if len(p) == 4:
        want.setdefault(p[0], []).append((int(p[1]), int(p[2]), int(p[3])))
subprocess.run(["touch", os.path.join(CR, "src", "lib.rs")])
d = subprocess.run(["cargo", "+nightly", "rustc", "--offline", "--lib", "--", "-Zunpretty=mir", "-C", "debug-assertions=off", "-C", "overflow-checks=on"],
                   cwd=CR, env=dict(env, CARGO_TARGET_DIR=TD + "-mir"), stdout=subprocess.PIPE, stderr=subprocess.PIPE, text=True)
if d.returncode != 0 or not d.stdout.strip():
    print(d.stderr[-2000:]); sys.exit(2)
mp = os.path.join(TD + "-mir", "idioms.mir")
open(mp, "w").write(d.stdout)
mf = mir.MirFile(mp)
reg = sym.Registry()
only = sys.argv[1:]
ok = bad = unsupported = 0
for name in sorted(want):
    if only and name not in only:
        continue
    fn = mf.get(name, kind="fn")
    fails = []
    for a, b, w in want[name]:
        eng = sym.Engine([mf], reg, models=EXTRA + itermodels.MODELS, inline=[r"^data$", r"^f_\w+::\{closure#\d+\}$"], eager=True, loop_bound=64)
        try:
            res = eng.run(fn, [z3.BitVecVal(a, 32), z3.BitVecVal(b, 32)])
        except (mir.Unsupported, sym.Unsupported) as ex:
            fails.append("UNSUPPORTED %s" % str(ex)[:200])
            break
        except Exception as ex:
            fails.append("EXC %s: %s" % (type(ex).__name__, str(ex)[:200]))
            break
        rets = [r for r in res if r.status == "return"]
        if len(res) != 1 or not rets:
            fails.append("(%d,%d): %d paths %s" % (a, b, len(res), [(r.status, r.info) for r in res][:2]))
            continue
        v = z3.simplify(rets[0].value) if z3.is_expr(rets[0].value) else rets[0].value
        got = v.as_long() if z3.is_expr(v) and z3.is_bv_value(v) else repr(v)
        if got != w:
            fails.append("(%d,%d): engine %s, native %d" % (a, b, got, w))
    if not fails:
        ok += 1
        print("ok   ", name)
    elif fails[0].startswith("UNSUPPORTED"):
        unsupported += 1
        print("unsup", name, fails[0][12:])
    else:
        bad += 1
        print("FAIL ", name, fails[:3])
print("%d ok, %d wrong, %d unsupported" % (ok, bad, unsupported))
sys.exit(1 if bad else 0)
