#!/bin/bash
# Runs every registered quick (or thorough) check sequentially on the current tree and prints one line per check.
TIER=${1:-quick}
cd "$(dirname "$0")/.."
for id in $(python3 -c "import json;print(' '.join(c['property_id'] for c in json.load(open('MANIFEST.json'))['checks']))"); do
  s=$(date +%s)
  timeout ${CAP:-3000} ./check $id --tier $TIER > /tmp/run_all_$id.log 2>&1; rc=$?
  e=$(date +%s)
  echo "$id rc=$rc $((e-s))s $(grep -E '^OK|^VIOLATION|^INCONCLUSIVE' /tmp/run_all_$id.log | head -1 | cut -c1-150)"
done
