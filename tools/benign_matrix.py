#!/usr/local/bin/python3-vt
"""False-alarm test: applies every behaviour-preserving refactoring under /verif/benign/<n>/ to a scratch copy of /repo and runs
the checks of the properties anchored in the refactored file. Exit status 1 of a check (a VIOLATION on correct code) is a false
alarm; 2 (inconclusive) is tolerated and listed. Writes benign/MATRIX.json + benign/MATRIX.md."""
import json, os, re, subprocess, sys, tempfile, shutil
from concurrent.futures import ThreadPoolExecutor
HERE = os.path.dirname(os.path.dirname(os.path.abspath(__file__)))
B = os.path.join(HERE, "benign")
CHECKS = {
    "rspirv/binary/decoder.rs": ["C11", "C04", "C03", "C01"], "rspirv/binary/parser.rs": ["C03", "C04", "C10", "C14", "C02"],
    "rspirv/binary/tracker.rs": ["C10", "C04", "C07"], "rspirv/binary/assemble.rs": ["C02", "C15", "C01", "C04"],
    "rspirv/binary/disassemble.rs": ["C07", "C04", "C20"], "rspirv/dr/loader.rs": ["C05", "C01", "C04"],
    "rspirv/dr/build/mod.rs": ["C12", "C13", "C06", "C16"], "rspirv/dr/constructs.rs": ["C15", "C13", "C01"],
    "rspirv/grammar/syntax.rs": ["C09", "C03", "C07"], "rspirv/grammar/reflect.rs": ["C16", "C05"], "rspirv/sr/storage.rs": ["C19", "C18"],
    "rspirv/lift/mod.rs": ["C18"], "rspirv/lift/storage.rs": ["C18"], "dis/main.rs": ["C20", "C04"],
}
only = sys.argv[1:]
jobs = []
for n in sorted(os.listdir(B), key=lambda x: int(x) if x.isdigit() else 0):
    if not n.isdigit() or (only and n not in only):
        continue
    meta = json.load(open(os.path.join(B, n, "meta.json")))
    for c in CHECKS.get(meta["file"], []):
        jobs.append((n, meta["file"], c))

def run(job):
    n, f, c = job
    w = tempfile.mkdtemp(prefix="benign.", dir="/tmp")
    try:
        os.makedirs(w + "/repo")
        subprocess.run("cd /repo && git archive HEAD | tar -x -C %s/repo && cd %s/repo && git init -q . && git apply %s/%s/patch.diff" % (w, w, B, n), shell=True, check=True)
        env = dict(os.environ, VERIF_REPO=w + "/repo", VERIF_OUT=w + "/out")
        p = subprocess.run(["timeout", "3000", os.path.join(HERE, "check"), c, "--tier", "quick"], cwd=HERE, env=env, stdout=subprocess.PIPE, stderr=subprocess.STDOUT, text=True)
        os.makedirs("/tmp/seed/blogs", exist_ok=True)
        open("/tmp/seed/blogs/benign-%s-%s.log" % (n, c), "w").write(p.stdout)
        first = [l for l in p.stdout.split("\n") if l.startswith(("  role=", "INCONCLUSIVE"))][:1]
        h = subprocess.run(["python3-vt", "-c", "import sys; sys.path.insert(0,'lib'); import common; print(common.tree_hash())"], cwd=HERE, env=env, stdout=subprocess.PIPE, text=True).stdout.strip()
        if h:
            shutil.rmtree(os.path.join(HERE, ".work", h), ignore_errors=True)
        return {"refactoring": n, "file": f, "check": c, "rc": p.returncode, "first": (first[0][:240] if first else "")}
    finally:
        shutil.rmtree(w, ignore_errors=True)

with ThreadPoolExecutor(max_workers=int(os.environ.get("MATRIX_WORKERS", "6"))) as ex:
    res = list(ex.map(run, jobs))
out = os.path.join(B, "MATRIX.json")
old = json.load(open(out)) if os.path.exists(out) and only else []
old = [r for r in old if (r["refactoring"], r["check"]) not in {(x["refactoring"], x["check"]) for x in res}]
res = sorted(old + res, key=lambda r: (int(r["refactoring"]), r["check"]))
json.dump(res, open(out, "w"), indent=1)
with open(os.path.join(B, "MATRIX.md"), "w") as f:
    f.write("| refactoring | file | check | exit | outcome |\n|---|---|---|---|---|\n")
    for r in res:
        f.write("| %s | %s | %s | %d | %s |\n" % (r["refactoring"], r["file"], r["check"], r["rc"], "passes" if r["rc"] == 0 else ("FALSE ALARM " + r["first"] if r["rc"] == 1 else "inconclusive: " + r["first"][:150])))
print("\n".join("%s %s %s rc=%d %s" % (r["refactoring"], r["file"], r["check"], r["rc"], r["first"][:160] if r["rc"] else "") for r in res))
