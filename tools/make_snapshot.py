#!/usr/local/bin/python3-vt
"""One-off: extract the pinned snapshot (reference/snapshot.json) from the *pinned* tree's generated sources.
It is the stand-in for the Khronos JSON grammar of SDK 1.4.309, which is not in the sandbox (DESIGN §5).
Re-running it on a modified tree would defeat its purpose; it refuses unless --force is given."""
import json, os, sys
HERE = os.path.dirname(os.path.dirname(os.path.abspath(__file__)))
sys.path.insert(0, os.path.join(HERE, "lib"))
import tables, gtables
out = os.path.join(HERE, "reference", "snapshot.json")
section = sys.argv[1] if len(sys.argv) > 1 and not sys.argv[1].startswith("-") else "all"
snap = json.load(open(out)) if os.path.exists(out) else {}
if "spirv" not in snap or "--force" in sys.argv:
    enums, masks = tables.spirv_decls()
    snap["spirv"] = {"enums": {n: {"variants": d["variants"], "aliases": d["aliases"]} for n, d in enums.items()},
                     "masks": {n: d["consts"] for n, d in masks.items()}}
if "grammar" not in snap or "--force" in sys.argv:
    t = gtables.load_tables()
    kn, qn = t["kind_names"], t["quant_names"]
    g = {}
    for k in ("core", "glsl", "opencl"):
        g[k] = [{"opname": e["opname"], "opcode": e["opcode"], "caps": e["caps"], "exts": e["exts"],
                 "operands": [[kn[a], qn[b]] for a, b in e["operands"]]} for e in t[k]]
    snap["grammar"] = g
for name, fn in (("operand_params", "operand_param_tables"), ("disas_masks", "disas_mask_tables")):
    if hasattr(tables, fn) and (name not in snap or "--force" in sys.argv):
        snap[name] = getattr(tables, fn)()
if "lift_templates" not in snap or "--force" in sys.argv:
    # the expression shapes the generator emits for the fields of the lift_* arms (operand variant names blanked)
    tm = set()
    for fn_, arms_ in tables.lift_arms().items():
        for arm_ in arms_.values():
            tm.update((arm_.get("templates") or {}).values())
    snap["lift_templates"] = sorted(tm)
json.dump(snap, open(out, "w"), indent=0, sort_keys=True)
print("wrote", out, {k: (len(v) if hasattr(v, "__len__") else v) for k, v in snap.items()})
