"""C18, the module walk: `lift::LiftContext::convert` executed from MIR on module SHAPES with symbolic content.

A shape fixes which declarations / instructions a module consists of and which earlier declaration each id operand refers to
(declared-before-use); everything else is symbolic: every result id (pairwise distinct 32-bit values), every literal, every
enumerant (any declared value), the header's version word. `convert` and everything of the crate it reaches — the generated
`lift_type` / `lift_op` / `lift_terminator` / `lift_branch` / `lift_function` / `lift_memory_model` / `lift_capability`,
`lift_constant`, `LiftStorage`, `Storage`, `Token` — run from their own MIR (models: lib/liftsym.py). For every path z3 decides that
the result is `Ok(module)` with

  version = the header's version word, capabilities in order, the memory model's two enumerants;
  types     = one entry per type declaration, in declaration order, operands carried over positionally, type / constant ids
              replaced by the token (= position) of the referenced entry;
  constants = one entry per constant declaration (UInt / Int by the signedness of the declared type, Float, Composite, Bool, Null);
  ops       = one entry per result-producing non-phi block instruction, in order;
  functions = control mask, result type token, blocks (count, phi result types as arguments, terminator) and start block,

and that no panic edge is feasible. Phis are well typed (a source naming an earlier result has the phi's type): the lifter
asserts exactly that. A solver witness is turned into a binary (the model's ids / literals), loaded and lifted
natively (`lift_words`), and the `{:?}` rendering of the real structured module is parsed and compared with the expectation."""
import re
import z3
import sym
import mir
import tables
import liftsym
import reg as regmod
import c05
from common import mir_path, Replay
from smt import Q

HEADER_WORDS = [0x07230203, None, 0, None, 0]      # version and bound are filled in

# name -> (opcode, has result type, has result id, operand schema)
#   schema items: ("lit", name) 32-bit literal | ("ref",) id of an earlier declaration | ("refs",) any number of those |
#                 ("enum", Kind) | ("mask", Kind) | ("id",) an arbitrary id word that the lifter keeps as a word | ("lits",) literals
DECLS = {
    "TypeVoid": (19, False, True, []), "TypeBool": (20, False, True, []),
    "TypeInt": (21, False, True, [("lit",), ("lit",)]), "TypeFloat": (22, False, True, [("lit",)]),
    "TypeVector": (23, False, True, [("ref",), ("lit",)]), "TypeMatrix": (24, False, True, [("ref",), ("lit",)]),
    "TypeArray": (28, False, True, [("ref",), ("ref",)]), "TypeRuntimeArray": (29, False, True, [("ref",)]),
    "TypeStruct": (30, False, True, [("refs",)]),
    "TypePointer": (32, False, True, [("enum", "StorageClass"), ("ref",)]), "TypeFunction": (33, False, True, [("ref",), ("refs",)]),
    "ConstantTrue": (41, True, True, []), "ConstantFalse": (42, True, True, []), "Constant": (43, True, True, [("lit",)]),
    "ConstantComposite": (44, True, True, [("refs",)]), "ConstantNull": (46, True, True, []),
    "Function": (54, True, True, [("mask", "FunctionControl"), ("ref",)]), "FunctionEnd": (56, False, False, []),
    "Label": (248, False, True, []),
    "IAdd": (128, True, True, [("id",), ("id",)]), "FNegate": (127, True, True, [("id",)]), "Undef": (1, True, True, []),
    "Phi": (245, True, True, [("ids",)]),
    "Return": (253, False, False, []), "ReturnValue": (254, False, False, [("id",)]), "Kill": (252, False, False, []),
    "Unreachable": (255, False, False, []), "Branch": (249, False, False, [("id",)]),
    "BranchConditional": (250, False, False, [("id",), ("id",), ("id",), ("lits",)]),
    "Capability": (17, False, False, [("enum", "Capability")]),
    "MemoryModel": (14, False, False, [("enum", "AddressingModel"), ("enum", "MemoryModel")]),
}
VARIANT_OF = {"lit": "LiteralBit32", "ref": "IdRef", "id": "IdRef"}


class D:
    """One declaration / instruction of a shape. refs: indices (into the shape's global list) of the declarations it refers to;
    rt: index of the declaration of its result type."""

    def __init__(self, kind, rt=None, refs=(), nlits=0, nids=0):
        self.kind, self.rt, self.refs, self.nlits, self.nids = kind, rt, list(refs), nlits, nids


class Shape:
    def __init__(self, name, globals_, functions=(), caps=1):
        self.name, self.globals, self.functions, self.caps = name, list(globals_), list(functions), caps


def shapes(tier):
    T = lambda k, *refs, **kw: D(k, None, refs, **kw)
    s = []
    # every supported type kind and constant kind, each referring to earlier entries of both storages
    g = [T("TypeVoid"), T("TypeBool"), T("TypeInt"), T("TypeFloat"), T("TypeVector", 3), T("TypeMatrix", 4),
         D("Constant", 2), T("TypeArray", 3, 6), T("TypePointer", 7), T("TypeStruct", 2, 4, 8), T("TypeFunction", 0, 2, 8),
         D("Constant", 3), D("ConstantComposite", 4, [11, 11]), D("ConstantTrue", 1), D("ConstantNull", 9), T("TypeRuntimeArray", 2)]
    s.append(Shape("all-type-and-constant-kinds", g))
    # a constant between the types that use it, struct of nothing, function type without parameters, false, nested composite
    g2 = [T("TypeInt"), D("Constant", 0), D("Constant", 0), T("TypeArray", 0, 1), T("TypeArray", 3, 2), T("TypeStruct"), T("TypeFunction", 0),
          T("TypeBool"), D("ConstantFalse", 7), D("ConstantComposite", 3, [1, 2]), D("ConstantComposite", 4, [9, 9])]
    s.append(Shape("interleaved-arrays", g2, caps=2))
    # functions: two blocks, result-producing instructions, a phi, conditional branch with weights, back edge
    g3 = [T("TypeVoid"), T("TypeInt"), T("TypeFunction", 0), D("Constant", 1)]
    f1 = dict(fn=D("Function", 0, [2]), blocks=[
        [D("Label"), D("IAdd", 1), D("FNegate", 1), D("BranchConditional", nlits=2)],
        [D("Label"), D("Phi", 1, nids=2), D("Undef", 1), D("Branch")],
        [D("Label"), D("Return")]])
    f2 = dict(fn=D("Function", 1, [2]), blocks=[[D("Label"), D("Undef", 1), D("ReturnValue")]])
    s.append(Shape("functions-blocks-phi-terminators", g3, [f1, f2]))
    f3 = dict(fn=D("Function", 0, [2]), blocks=[[D("Label"), D("Kill")], [D("Label"), D("Unreachable")], [D("Label"), D("BranchConditional", nlits=0)]])
    s.append(Shape("abort-terminators", g3, [f3, f2, f1]))
    import os
    import random
    rnd = random.Random(int(os.environ.get("VERIF_SEED", "0")) * 7919 + 18)
    for k in range(10 if tier == "quick" else 80):
        s.append(generated_shape(rnd, k, 9 if tier == "quick" else 14))
    return s


def generated_shape(rnd, k, maxlen):
    """A random module of the supported subset: every declaration refers to earlier declarations of the right storage."""
    g = []
    types, ints, floats, consts, fnty = [], [], [], [], []
    n = rnd.randint(3, maxlen)
    while len(g) < n:
        choices = ["TypeVoid", "TypeBool", "TypeInt", "TypeFloat"]
        if types:
            choices += ["TypeVector", "TypeMatrix", "TypeRuntimeArray", "TypePointer", "TypeStruct", "TypeFunction", "ConstantNull", "ConstantTrue", "ConstantFalse"]
        if ints or floats:
            choices += ["Constant", "Constant"]
        if types and consts:
            choices += ["TypeArray", "ConstantComposite"]
        kind = rnd.choice(choices)
        j = len(g)
        if kind in ("TypeVoid", "TypeBool", "TypeInt", "TypeFloat"):
            g.append(D(kind))
        elif kind in ("TypeVector", "TypeMatrix", "TypeRuntimeArray", "TypePointer"):
            g.append(D(kind, None, [rnd.choice(types)]))
        elif kind == "TypeStruct":
            g.append(D(kind, None, [rnd.choice(types) for _ in range(rnd.randint(0, 3))]))
        elif kind == "TypeFunction":
            g.append(D(kind, None, [rnd.choice(types) for _ in range(rnd.randint(1, 3))]))
            fnty.append(j)
        elif kind == "TypeArray":
            g.append(D(kind, None, [rnd.choice(types), rnd.choice(consts)]))
        elif kind == "Constant":
            g.append(D(kind, rnd.choice(ints + floats)))
        elif kind == "ConstantComposite":
            g.append(D(kind, rnd.choice(types), [rnd.choice(consts) for _ in range(rnd.randint(0, 3))]))
        else:
            g.append(D(kind, rnd.choice(types)))
        if kind.startswith("Type"):
            types.append(j)
            if kind == "TypeInt":
                ints.append(j)
            if kind == "TypeFloat":
                floats.append(j)
        else:
            consts.append(j)
    funcs = []
    if not fnty:
        g.append(D("TypeFunction", None, [types[0]]))
        fnty.append(len(g) - 1)
        types.append(len(g) - 1)
    for _ in range(rnd.randint(0, 2)):
        blocks = []
        for _b in range(rnd.randint(1, 3)):
            blk = [D("Label")]
            for _i in range(rnd.randint(0, 3)):
                kind = rnd.choice(["IAdd", "FNegate", "Undef", "Phi"])
                blk.append(D(kind, rnd.choice(types), nids=2 * rnd.randint(0, 2)) if kind == "Phi" else D(kind, rnd.choice(types)))
            term = rnd.choice(["Return", "ReturnValue", "Kill", "Unreachable", "Branch", "BranchConditional", "BranchConditional"])
            blk.append(D(term, nlits=rnd.choice([0, 2])) if term == "BranchConditional" else D(term))
            blocks.append(blk)
        funcs.append(dict(fn=D("Function", rnd.choice(types), [rnd.choice(fnty)]), blocks=blocks))
    return Shape("generated-%d" % k, g, funcs, caps=rnd.randint(0, 3))


class Build:
    """Engine values, words and expectation for one shape."""

    def __init__(self, shape, enums, masks):
        self.shape, self.enums, self.masks = shape, enums, masks
        self.mem = {}
        self.pre = []
        self.nice = []         # preferences for witnesses the parser accepts (32-bit widths): used only when a deviation was found
        self.ids = []          # every result id variable (pairwise distinct)
        self.n = 0
        self.words_plan = []   # [(opcode, [word exprs])] in stream order
        self.MF = c05.struct_fields("rspirv/dr/constructs.rs", "Module")
        self.HF = c05.struct_fields("rspirv/dr/constructs.rs", "ModuleHeader")
        self.FF = c05.struct_fields("rspirv/dr/constructs.rs", "Function")
        self.BF = c05.struct_fields("rspirv/dr/constructs.rs", "Block")

    def fresh(self, base):
        self.n += 1
        return z3.BitVec("%s_%d" % (base, self.n), 32)

    def cls(self, kind):
        cell = ("h", "cls_" + kind)
        if cell not in self.mem:
            self.mem[cell] = sym.Adt("grammar::Instruction", None, [sym.StrV(kind), z3.BitVecVal(DECLS[kind][0], 32), sym.Sym("c", "&[Capability]"),
                                                                  sym.Sym("e", "&[&str]"), sym.Sym("o", "&[LogicalOperand]")])
        return sym.Ref(cell, ())

    def enum_value(self, kind, mask):
        v = self.fresh(kind)
        if mask:
            allb = 0
            for _, b in self.masks[kind]["consts"]:
                allb |= b
            self.pre.append((v & z3.BitVecVal(~allb & 0xffffffff, 32)) == 0)
        else:
            dvals = sorted(set(x for _, x in self.enums[kind]["variants"]))
            self.pre.append(z3.Or(*[v == z3.BitVecVal(x, 32) for x in dvals]))
        return v

    def inst(self, d, gids, rid=None):
        """-> (engine instruction value, operand expressions in order [(schema kind, value | [values])])"""
        opcode, has_rt, has_rid, schema = DECLS[d.kind]
        opt = lambda x: sym.Adt("Option", "None", []) if x is None else sym.Adt("Option", "Some", [x])
        rt = gids[d.rt] if has_rt else None
        if has_rid and rid is None:
            rid = self.fresh("id")
            self.ids.append(rid)
        ops, vals, words = [], [], []
        refs = list(d.refs)
        for item in schema:
            k = item[0]
            if k == "lit":
                v = self.fresh("lit")
                ops.append(sym.Adt("dr::constructs::Operand", "LiteralBit32", [v])); vals.append(("lit", v)); words.append(v)
            elif k == "ref":
                v = gids[refs.pop(0)]
                ops.append(sym.Adt("dr::constructs::Operand", "IdRef", [v])); vals.append(("ref", v)); words.append(v)
            elif k == "refs":
                lst = [gids[j] for j in refs]
                refs = []
                for v in lst:
                    ops.append(sym.Adt("dr::constructs::Operand", "IdRef", [v])); words.append(v)
                vals.append(("refs", lst))
            elif k in ("enum", "mask"):
                v = self.enum_value(item[1], k == "mask")
                ops.append(sym.Adt("dr::constructs::Operand", item[1], [v])); vals.append((k, v)); words.append(v)
            elif k == "id":
                v = self.fresh("word")
                ops.append(sym.Adt("dr::constructs::Operand", "IdRef", [v])); vals.append(("id", v)); words.append(v)
            elif k == "ids":
                lst = [self.fresh("word") for _ in range(d.nids)]
                for v in lst:
                    ops.append(sym.Adt("dr::constructs::Operand", "IdRef", [v])); words.append(v)
                vals.append(("ids", lst))
            elif k == "lits":
                lst = [self.fresh("lit") for _ in range(d.nlits)]
                for v in lst:
                    ops.append(sym.Adt("dr::constructs::Operand", "LiteralBit32", [v])); words.append(v)
                vals.append(("lits", lst))
        if d.kind in ("TypeInt", "TypeFloat"):
            self.nice.append(words[0] == 32)
        if d.kind == "TypeInt":
            self.nice.append(z3.ULE(words[1], 1))
        value = sym.Adt("constructs::Instruction", None, [self.cls(d.kind), opt(rt), opt(rid if has_rid else None), sym.Arr(ops, "vec")])
        self.words_plan.append((opcode, ([rt] if has_rt else []) + ([rid] if has_rid else []) + words))
        return value, vals, rid

    def build(self):
        sh = self.shape
        opt = lambda x: sym.Adt("Option", "None", []) if x is None else sym.Adt("Option", "Some", [x])
        hv = {n: z3.BitVec("h_" + n, 32) for n in self.HF}
        self.version = hv["version"]
        self.bound = hv["bound"]
        caps, self.cap_vals = [], []
        for _ in range(sh.caps):
            v, vals, _r = self.inst(D("Capability"), [])
            caps.append(v); self.cap_vals.append(vals[0][1])
        mmv, mvals, _r = self.inst(D("MemoryModel"), [])
        self.mm_vals = [x[1] for x in mvals]
        gids, gvals = [], []
        plan_g = []
        for d in sh.globals:
            rid = self.fresh("id")
            self.ids.append(rid)
            gids.append(rid)
        ginsts = []
        for j, d in enumerate(sh.globals):
            v, vals, _r = self.inst(d, gids, rid=gids[j])
            ginsts.append(v); gvals.append(vals)
        self.gids, self.gvals = gids, gvals
        funcs = []
        self.fvals = []
        self.lifted_ops = []
        for f in sh.functions:
            fv, fvals, fid = self.inst(f["fn"], gids)
            blocks, bvals = [], []
            for blk in f["blocks"]:
                lab, _v, lid = self.inst(blk[0], gids)
                insts, ivals = [], []
                for d in blk[1:]:
                    iv, vals, rid = self.inst(d, gids)
                    insts.append(iv); ivals.append((d, vals, rid))
                    _opc, has_rt, has_rid, _schema = DECLS[d.kind]
                    if d.kind == "Phi":
                        # well-typed phi (SPIR-V: every source has the phi's result type): a source that names an earlier
                        # result-producing instruction names one of the same type
                        for kind_, lst in vals:
                            for w_ in (lst if kind_ == "ids" else []):
                                for r_, rt_ in self.lifted_ops:
                                    if rt_ != d.rt:
                                        self.pre.append(w_ != r_)
                    elif has_rid and has_rt:
                        self.lifted_ops.append((rid, d.rt))
                bd = {"label": opt(lab), "instructions": sym.Arr(insts, "vec")}
                blocks.append(sym.Adt("constructs::Block", None, [bd[n] for n in self.BF]))
                bvals.append((lid, ivals))
            endv, _v, _r = self.inst(D("FunctionEnd"), gids)
            fd = {"def": opt(fv), "end": opt(endv), "parameters": sym.Arr([], "vec"), "blocks": sym.Arr(blocks, "vec")}
            funcs.append(sym.Adt("constructs::Function", None, [fd[n] for n in self.FF]))
            self.fvals.append((f, fvals, bvals))
        mod = {n: sym.Arr([], "vec") for n in self.MF}
        mod["header"] = opt(sym.Adt("constructs::ModuleHeader", None, [hv[n] for n in self.HF]))
        mod["capabilities"] = sym.Arr(caps, "vec")
        mod["memory_model"] = opt(mmv)
        mod["types_global_values"] = sym.Arr(ginsts, "vec")
        mod["functions"] = sym.Arr(funcs, "vec")
        self.mem[("h", "module")] = sym.Adt("constructs::Module", None, [mod[n] for n in self.MF])
        for i in range(len(self.ids)):
            for j in range(i + 1, len(self.ids)):
                self.pre.append(self.ids[i] != self.ids[j])
            self.pre.append(self.ids[i] != 0)
        return self

    # ------------------------------------------------------------ expectation
    def expected(self):
        sh = self.shape
        tindex, cindex = {}, {}
        types, consts = [], []
        tok = lambda i: ("tok", i)
        for j, d in enumerate(sh.globals):
            vals = self.gvals[j]
            if d.kind.startswith("Type"):
                tindex[j] = len(types)
                k = d.kind[4:]
                if k in ("Void", "Bool"):
                    t = (k, [])
                elif k == "Int":
                    t = ("Int", [vals[0][1], vals[1][1]])
                elif k == "Float":
                    t = ("Float", [vals[0][1], ("None", [])])
                elif k in ("Vector", "Matrix"):
                    t = (k, [tok(tindex[d.refs[0]]), vals[1][1]])
                elif k == "Array":
                    t = ("Array", [tok(tindex[d.refs[0]]), tok(cindex[d.refs[1]])])
                elif k == "RuntimeArray":
                    t = ("RuntimeArray", [tok(tindex[d.refs[0]])])
                elif k == "Struct":
                    t = ("Struct", [("list", [("StructMember", [tok(tindex[r]), ("list", [])]) for r in d.refs])])
                elif k == "Pointer":
                    t = ("Pointer", [vals[0][1], tok(tindex[d.refs[0]])])
                elif k == "Function":
                    t = ("Function", [tok(tindex[d.refs[0]]), ("list", [tok(tindex[r]) for r in d.refs[1:]])])
                types.append(t)
            else:
                cindex[j] = len(consts)
                if d.kind == "Constant":
                    td = sh.globals[d.rt]
                    v = vals[0][1]
                    if td.kind == "TypeInt":
                        s_ = self.gvals[d.rt][1][1]
                        c = ("ite", s_ == 0, ("UInt", [v]), ("Int", [v]))
                    else:
                        c = ("Float", [("f32", v)])
                elif d.kind == "ConstantComposite":
                    c = ("Composite", [("list", [tok(cindex[r]) for r in d.refs])])
                elif d.kind == "ConstantTrue":
                    c = ("Bool", [True])
                elif d.kind == "ConstantFalse":
                    c = ("Bool", [False])
                else:
                    c = ("Null", [])
                consts.append(c)
        ops, funcs = [], []
        for f, fvals, bvals in self.fvals:
            blocks = []
            for lid, ivals in bvals:
                args = []
                term = None
                for d, vals, rid in ivals:
                    _opc, has_rt, has_rid, _schema = DECLS[d.kind]
                    if d.kind == "Phi":
                        args.append(tok(tindex[d.rt]))
                    elif has_rid:
                        ops.append((d.kind, [x[1] for x in vals]))
                if ivals:
                    d, vals, rid = ivals[-1]
                    if d.kind in ("Return", "Kill", "Unreachable"):
                        term = ("Branch", [(d.kind, [])])
                    elif d.kind in ("ReturnValue", "Branch"):
                        term = ("Branch", [(d.kind, [vals[0][1]])])
                    elif d.kind == "BranchConditional":
                        term = ("Branch", [("BranchConditional", [vals[0][1], vals[1][1], vals[2][1], ("list", list(vals[3][1]))])])
                blocks.append(("Block", [("list", args), ("list", []), term]))
            funcs.append(("Function", [fvals[0][1], tok(tindex[f["fn"].rt]), ("list", []), ("Storage", [("list", blocks)]), tok(0)]))
        return ("Module", [self.version, ("list", list(self.cap_vals)), ("list", []), ("list", []), ("MemoryModel", list(self.mm_vals)),
                           ("list", []), ("Storage", [("list", types)]), ("Storage", [("list", consts)]), ("Storage", [("list", ops)]), ("list", funcs)])

    # ------------------------------------------------------------ words under a model
    def words(self, model):
        ev = lambda e: model.eval(e, model_completion=True).as_long()
        out = [0x07230203, ev(self.version) & 0x00ffff00, 0, ev(self.bound), 0]
        for opcode, ws in self.words_plan:
            out.append(((len(ws) + 1) << 16) | opcode)
            out += [ev(w) for w in ws]
        return out


def canon(v, eng, mem, depth=0):
    """Engine value -> comparison tree."""
    while isinstance(v, sym.Ref):
        st = sym.State()
        st.mem = mem
        v = eng.read_at(st, v.root, v.path)
    if isinstance(v, sym.BoxV):
        return canon(v.inner, eng, mem, depth + 1)
    if z3.is_expr(v):
        return v
    if isinstance(v, sym.Arr):
        return ("list", [canon(x, eng, mem, depth + 1) for x in v.items])
    if isinstance(v, sym.Adt):
        nm = v.ty.split("::")[-1]
        if nm == "Token":
            return ("tok", v.fields[0])
        if nm == "F32":
            return ("f32", v.fields[0])
        if nm == "Option":
            return (v.variant, [canon(x, eng, mem, depth + 1) for x in v.fields])
        if nm == "tuple":
            return ("tuple", [canon(x, eng, mem, depth + 1) for x in v.fields])
        head = v.variant if v.variant is not None else nm
        return (head, [canon(x, eng, mem, depth + 1) for x in v.fields if not isinstance(x, sym.FnV)])
    if isinstance(v, sym.Unit):
        return ("unit", [])
    return ("?", [repr(v)])


def compare(a, e, path="module"):
    """z3 Bool: the actual tree `a` equals the expected tree `e`; mismatches are collected in compare.why"""
    if isinstance(e, tuple) and e[0] == "ite":
        return z3.Or(z3.And(e[1], compare(a, e[2], path)), z3.And(z3.Not(e[1]), compare(a, e[3], path)))
    if isinstance(e, bool):
        if z3.is_expr(a):
            return (a if z3.is_bool(a) else a != 0) == z3.BoolVal(e)
        compare.why.append("%s: %r instead of %r" % (path, a, e))
        return z3.BoolVal(False)
    if z3.is_expr(e) or isinstance(e, int):
        if z3.is_expr(a):
            if z3.is_bv(a) and z3.is_expr(e) and z3.is_bv(e) and a.size() != e.size():
                a = z3.ZeroExt(e.size() - a.size(), a) if a.size() < e.size() else z3.Extract(e.size() - 1, 0, a)
            return a == e
        compare.why.append("%s: %r instead of a word" % (path, a))
        return z3.BoolVal(False)
    if e is None:
        return z3.BoolVal(True)
    if not isinstance(a, tuple) or a[0] != e[0]:
        compare.why.append("%s: %s instead of %s" % (path, a[0] if isinstance(a, tuple) else repr(a)[:60], e[0]))
        return z3.BoolVal(False)
    if e[0] == "tok":
        ai = a[1]
        return (ai == e[1]) if z3.is_expr(ai) else z3.BoolVal(ai == e[1])
    if e[0] == "f32":
        return a[1] == e[1]
    al, el = a[1], e[1]
    if len(al) != len(el):
        compare.why.append("%s (%s): %d entries instead of %d" % (path, e[0], len(al), len(el)))
        return z3.BoolVal(False)
    parts = [compare(x, y, "%s/%s[%d]" % (path, e[0], i)) for i, (x, y) in enumerate(zip(al, el))]
    return z3.And(*parts) if parts else z3.BoolVal(True)


compare.why = []


# ------------------------------------------------------------------ Rust `{:?}` text -> tree
_tok = re.compile(r"\s*(?:(0x[0-9a-fA-F]+|-?\d+\.\d+(?:e-?\d+)?|-?\d+|NaN|inf|-inf)|([A-Za-z_][A-Za-z0-9_]*)|(\"(?:[^\"\\]|\\.)*\")|([{}()\[\],:|]))")


def parse_debug(text):
    toks = []
    pos = 0
    while pos < len(text):
        m = _tok.match(text, pos)
        if not m:
            if text[pos:].strip() == "":
                break
            raise ValueError("cannot lex %r" % text[pos:pos + 20])
        toks.append(m.group(1) or m.group(2) or m.group(3) or m.group(4))
        pos = m.end()
    i = 0

    def val():
        nonlocal i
        t = toks[i]
        if t == "[":
            i += 1
            items = []
            while toks[i] != "]":
                items.append(val())
                if toks[i] == ",":
                    i += 1
            i += 1
            return ("list", items)
        if t == "(":
            i += 1
            items = []
            while toks[i] != ")":
                items.append(val())
                if toks[i] == ",":
                    i += 1
            i += 1
            return ("tuple", items)
        if re.match(r"^-?\d+$|^0x[0-9a-fA-F]+$", t):
            i += 1
            return int(t, 0)
        if re.match(r"^-?\d|^NaN$|^inf$|^-inf$", t):
            i += 1
            return ("float", t)
        if t.startswith('"'):
            i += 1
            return ("str", t)
        # identifier: Name, Name(..), Name { f: v, .. }, or flag lists A | B
        name = t
        i += 1
        if i < len(toks) and toks[i] == "(":
            i += 1
            items = []
            while toks[i] != ")":
                items.append(val())
                if toks[i] == ",":
                    i += 1
            i += 1
            if name == "Token":
                return ("tok", items[0])
            return (name, items)
        if i < len(toks) and toks[i] == "{":
            i += 1
            items = []
            while toks[i] != "}":
                i += 2          # field name and ':'
                items.append(val())
                if toks[i] == ",":
                    i += 1
            i += 1
            return (name, items)
        while i < len(toks) and toks[i] == "|":
            name += "|" + toks[i + 1]
            i += 2
        return ("name", name)
    v = val()
    return v


def match_native(n, e, model, enums, masks, path="module"):
    """None if the parsed native tree `n` agrees with the expectation `e` under the model, else a description."""
    ev = lambda x: model.eval(x, model_completion=True)
    if isinstance(e, tuple) and e[0] == "ite":
        return match_native(n, e[2] if z3.is_true(ev(e[1])) else e[3], model, enums, masks, path)
    if e is None:
        return None
    if isinstance(e, bool):
        return None if n == ("name", "true" if e else "false") else "%s: %r, expected %r" % (path, n, e)
    if z3.is_expr(e) or isinstance(e, int):
        want = ev(e).as_long() if z3.is_expr(e) else e
        if isinstance(n, int):
            return None if n == want or (n < 0 and n + (1 << 32) == want) else "%s: %d, expected %d" % (path, n, want)
        if isinstance(n, tuple) and n[0] == "name":
            nm = n[1]
            for kind, dct in enums.items():
                if any(vn == nm and vv == want for vn, vv in dct["variants"]):
                    return None
            for kind, dct in masks.items():
                consts = dict(dct["consts"])
                if all(p_ in consts for p_ in nm.split("|")):
                    acc = 0
                    for p_ in nm.split("|"):
                        acc |= consts[p_]
                    if acc == want:
                        return None
            if re.match(r"^\w+\(empty\)$|^\(empty\)$", nm) and want == 0:
                return None
            return "%s: %s, expected the value %d" % (path, nm, want)
        if isinstance(n, tuple) and len(n) == 2 and isinstance(n[1], list) and len(n[1]) == 1:
            return match_native(n[1][0], want, model, enums, masks, path)     # bitflags print as Name(bits) / Name(A | B)
        return "%s: %r, expected %d" % (path, n, want)
    if e[0] == "f32":
        return None          # the float's text is not compared
    if e[0] == "tok":
        want = e[1] if isinstance(e[1], int) else ev(e[1]).as_long()
        return None if n == ("tok", want) else "%s: %r, expected Token(%d)" % (path, n, want)
    if not isinstance(n, tuple):
        return "%s: %r, expected %s" % (path, n, e[0])
    if e[0] in ("None",) and n == ("name", "None"):
        return None
    if not e[1] and n == ("name", e[0]):
        return None
    if n[0] != e[0]:
        return "%s: %s, expected %s" % (path, n[0], e[0])
    if len(n[1]) != len(e[1]):
        return "%s (%s): %d entries, expected %d" % (path, e[0], len(n[1]), len(e[1]))
    for i, (x, y) in enumerate(zip(n[1], e[1])):
        r = match_native(x, y, model, enums, masks, "%s/%s[%d]" % (path, e[0], i))
        if r:
            return r
    return None


def run_walk(ctx, q, rp):
    registry = regmod.build_registry()
    mf = mir.MirFile(mir_path("rspirv"))
    ms = mir.MirFile(mir_path("spirv"))
    enums, masks = tables.spirv_decls()
    fn = mf.get("convert", file_hint="lift/mod.rs", kind="fn")
    for sh in shapes(ctx.tier):
        b = Build(sh, enums, masks).build()
        exp = b.expected()
        tag = "walk/%s" % sh.name
        eng = sym.Engine([mf, ms], registry, models=liftsym.MODELS, eager=True, loop_bound=40, max_paths=4000)
        try:
            res = eng.run(fn, [sym.Ref(("h", "module"), ())], mem=dict(b.mem), pc=list(b.pre))
        except mir.Unsupported as ex:
            ctx.ob(tag + "/encodable", None, "not encodable: %s" % str(ex)[:400])
            continue
        ctx.functions.update(eng.stats.functions)
        bad = None
        nret = 0
        for r in res:
            if r.status != "return":
                st, m = q.check(list(r.pc), "walk-panic")
                if st == "sat":
                    st2, m2 = q.check(list(r.pc) + b.nice, "walk-panic-loadable-witness")
                    if st2 == "sat":
                        m = m2
                    bad = ("lifting does not return: %s %s" % (r.status, r.info), m)
                    break
                if st != "unsat":
                    ctx.ob(tag + "/panic-edge", None, "solver: %s" % m)
                continue
            nret += 1
            val = r.value
            if not (isinstance(val, sym.Adt) and val.variant == "Ok"):
                st, m = q.check(list(r.pc), "walk-err")
                if st == "sat":
                    bad = ("lifting fails with %r" % (val,), m)
                    break
                continue
            compare.why = []
            c = compare(canon(val.fields[0], eng, r.mem), exp)
            st, m = q.check(list(r.pc) + [z3.Not(c)], "walk-structure")
            if st == "sat":
                st2, m2 = q.check(list(r.pc) + [z3.Not(c)] + b.nice, "walk-structure-loadable-witness")
                if st2 == "sat":
                    m = m2
                bad = ("the lifted module differs from the declarations%s" % ((": " + "; ".join(compare.why[:3])) if compare.why else ""), m)
                break
            if st != "unsat":
                ctx.ob(tag + "/structure", None, "solver: %s" % m)
        if bad is None:
            ctx.ob(tag, True if nret else None, "%d returning paths of %d" % (nret, len(res)))
            continue
        what, model = bad
        words = b.words(model)
        hexb = "".join("%02x" % ((w >> (8 * i)) & 0xff) for w in words for i in range(4))
        real = rp.ask("lift_words %s" % hexb)
        why = None
        if "panic" in real:
            why = "panics: %s (%s)" % (real["panic"], real.get("at"))
        elif not real.get("loaded"):
            why = None
            ctx.ob(tag, None, "the witness module does not load: %s" % real.get("error"))
            continue
        elif not real.get("lifted"):
            why = "lifting fails: %s" % real.get("error")
        else:
            try:
                nat = ("Module", [real["version"], parse_debug(real["capabilities"]), ("list", []), ("list", []), parse_debug(real["memory_model"]),
                                  ("list", []), parse_debug(real["types"]), parse_debug(real["constants"]), parse_debug(real["ops"]), parse_debug(real["functions"])])
                # the version word of the witness binary keeps only major/minor
                e2 = list(exp[1])
                e2[0] = words[1]
                why = match_native(nat, ("Module", e2), model, enums, masks)
            except (ValueError, IndexError, KeyError) as ex:
                ctx.ob(tag, None, "cannot read the native rendering (%s): %s" % (ex, str(real)[:200]))
                continue
        if why is None:
            ctx.ob(tag, None, "model-only deviation (%s); the compiled crate lifts the witness module as expected" % what)
            continue
        ctx.ob(tag, False, "%s; native: %s" % (what, why))
        ctx.violation("lift/walk/%s" % sh.name, "module shape '%s' (declared-before-use): %s; on the compiled crate: %s" % (sh.name, what, why),
                      {"cmd": "lift_words %s" % hexb, "real": real})
