"""C16 — opcode classification predicates agree with the SPIR-V specification.

M1: every `grammar::reflect::is_*` is executed symbolically from its MIR over op:BV32 constrained to the
declared `Op` discriminants (derived predicates inline the base ones from their own MIR); the result is
compared with the reference classes of reference/spec.py by z3. T: Builder methods that end a block.
"""
import os
import sys
import z3
import sym
import mir
import tables
import reg as regmod
from common import mir_path, Inconclusive, Replay, VERIF
from smt import Q
from rtok import match_close, find_fn

sys.path.insert(0, os.path.join(VERIF, "reference"))
import spec  # noqa: E402

PREDICATES = ["is_location_debug", "is_nonlocation_debug", "is_debug", "is_annotation", "is_type", "is_constant",
              "is_variable", "is_return", "is_abort", "is_return_or_abort", "is_branch", "is_block_terminator"]
BASE = ["is_location_debug", "is_nonlocation_debug", "is_annotation", "is_type", "is_constant", "is_variable",
        "is_return", "is_abort", "is_branch"]


def op_tables():
    enums, _ = tables.spirv_decls()
    d = enums["Op"]
    names_of = {}
    for n, v in d["variants"]:
        names_of.setdefault(v, []).append(n)
    valof = dict(d["variants"])
    for al, tgt in d["aliases"]:
        if tgt in valof:
            names_of[valof[tgt]].append(al)
    return d, names_of


def builder_type_constant_ops():
    """Opcodes the Builder itself files into types_global_values through its generated type_* / constant_* methods
    (an artifact generated from the JSON instruction class, independent of reflect.rs)."""
    out = set()
    for rel in ("rspirv/dr/build/autogen_type.rs", "rspirv/dr/build/autogen_constant.rs"):
        s = tables.src(rel)
        t = s.toks
        for i in range(len(t) - 4):
            if t[i].v == "spirv" and t[i + 1].v == "::" and t[i + 2].v == "Op" and t[i + 3].v == "::":
                out.add(t[i + 4].v)
    return out


def predicate_expr(mf, registry, name, op, valid, ctx):
    fn = mf.get(name, kind="fn")
    eng = sym.Engine([mf], registry, inline=[r"^is_\w+$"], eager=True)
    res = eng.run(fn, [op], pc=[valid])
    ctx.functions.update("rspirv::grammar::reflect::" + f for f in eng.stats.functions)
    terms = []
    for r in res:
        if r.status != "return":
            raise Inconclusive("%s: path ends in %s %s" % (name, r.status, r.info))
        terms.append(z3.And(*(r.pc + [r.value])) if not z3.is_true(r.value) else z3.And(*r.pc))
    return z3.simplify(z3.Or(*terms)) if terms else z3.BoolVal(False)


def run(ctx):
    q = Q(ctx)
    d, names_of = op_tables()
    registry = regmod.build_registry()
    mf = mir.MirFile(mir_path("rspirv"))
    op = z3.BitVec("op", 32)
    D = sorted(names_of)
    valid = z3.Or(*[op == z3.BitVecVal(v, 32) for v in D])
    ctx.bounds.append("none: all %d declared Op discriminants, each predicate" % len(D))
    ctx.trusted += ["reference/spec.py (hand-written from the specification text)", "rustc MIR dump", "mirsym", "z3 / cvc5 sample"]

    def cls(names_pred):
        vals = [v for v in D if any(names_pred(n) for n in names_of[v])]
        return vals

    btc = builder_type_constant_ops()
    type_all = cls(spec.is_type_name)
    const_all = cls(spec.is_constant_name)
    type_def = [v for v in type_all if any(n in spec.CORE_TYPES or n in btc for n in names_of[v])]
    const_def = [v for v in const_all if any(n in spec.CORE_CONSTANTS or n in btc for n in names_of[v])]
    ann = set(spec.ANNOTATIONS) | set(spec.ANNOTATION_ALIASES)
    classes = {
        "is_location_debug": (cls(lambda n: n in spec.LOCATION_DEBUG), None),
        "is_nonlocation_debug": (cls(lambda n: n in spec.NONLOCATION_DEBUG), None),
        "is_annotation": (cls(lambda n: n in ann), None),
        "is_type": (type_def, type_all),
        "is_constant": (const_def, const_all),
        "is_variable": (cls(lambda n: n == "Variable"), None),
        "is_return": (cls(lambda n: n in spec.RETURNS), None),
        "is_abort": (cls(lambda n: n in spec.ABORTS), None),
        "is_branch": (cls(lambda n: n in spec.BRANCHES), None),
        "is_block_terminator": (cls(lambda n: n in spec.BLOCK_TERMINATORS), None),
    }
    rp = Replay()
    exprs = {}
    for p in PREDICATES:
        exprs[p] = predicate_expr(mf, registry, p, op, valid, ctx)

    def member(vals):
        return z3.Or(*[op == z3.BitVecVal(v, 32) for v in vals]) if vals else z3.BoolVal(False)

    observations = []
    for p, (definite, widest) in classes.items():
        widest = widest if widest is not None else definite
        # (a) every definite member is accepted; (b) nothing outside the widest class is accepted
        for kind, cond in (("missing", z3.And(member(definite), z3.Not(exprs[p]))),
                           ("extra", z3.And(z3.Not(member(widest)), exprs[p]))):
            blocked = []
            while True:
                st, m = q.check([valid, cond] + [op != z3.BitVecVal(b, 32) for b in blocked], "class/" + kind)
                if st == "unsat":
                    ctx.ob("%s/%s/none-%s" % (p, kind, "further" if blocked else "at-all"), True)
                    break
                if st != "sat":
                    ctx.ob("%s/%s" % (p, kind), None, m)
                    break
                w = m.eval(op, model_completion=True).as_long()
                blocked.append(w)
                real = rp.ask("reflect %s %d" % (p, w))
                nm = names_of[w][0]
                if real.get("value") != (kind == "extra"):
                    ctx.ob("%s/%s/%s" % (p, kind, nm), None, "model Op %d does not reproduce: %s" % (w, real))
                    continue
                ctx.ob("%s/%s/%s" % (p, kind, nm), False, "Op::%s = %d" % (nm, w))
                ctx.violation("reflect::%s/%s/%s" % (p, kind, nm),
                              "reflect::%s(Op::%s) is %s but the specification classes Op%s %s" % (
                                  p, nm, str(kind == "extra").lower(), nm,
                                  "inside" if kind == "missing" else "outside"),
                              {"cmd": "reflect %s %d" % (p, w), "real": real})
        # name-rule-only members: observation, not a violation
        only = [v for v in widest if v not in definite]
        for v in only:
            real = rp.ask("reflect %s %d" % (p, v))
            if not real.get("value"):
                observations.append("%s(Op::%s)=false (name rule says member; JSON class unavailable)" % (p, names_of[v][0]))
    # derived predicates are the documented unions
    unions = {"is_debug": ["is_location_debug", "is_nonlocation_debug"],
              "is_return_or_abort": ["is_return", "is_abort"],
              "is_block_terminator": ["is_branch", "is_return_or_abort"]}
    for dname, parts in unions.items():
        st, m = q.check([valid, exprs[dname] != z3.Or(*[exprs[x] for x in parts])], "union")
        if st == "sat":
            w = m.eval(op, model_completion=True).as_long()
            reals = {x: rp.ask("reflect %s %d" % (x, w)).get("value") for x in [dname] + parts}
            if reals[dname] != any(reals[x] for x in parts):
                ctx.ob("%s/is-union" % dname, False, str(reals))
                ctx.violation("reflect::%s/not-union" % dname, "%s(Op %d=%s) != union of %s: %s" % (dname, w, names_of[w][0], parts, reals),
                              {"op": w, "real": reals})
            else:
                ctx.ob("%s/is-union" % dname, None, "model does not reproduce")
        else:
            ctx.ob("%s/is-union" % dname, st == "unsat" or None)
    # base classes pairwise disjoint
    for i, a in enumerate(BASE):
        for b in BASE[i + 1:]:
            st, m = q.check([valid, exprs[a], exprs[b]], "disjoint")
            if st == "sat":
                w = m.eval(op, model_completion=True).as_long()
                ra, rb = rp.ask("reflect %s %d" % (a, w)), rp.ask("reflect %s %d" % (b, w))
                if ra.get("value") and rb.get("value"):
                    ctx.ob("disjoint/%s/%s" % (a, b), False)
                    ctx.violation("reflect::disjoint/%s/%s" % (a, b), "Op::%s is in both classes" % names_of[w][0], {"op": w})
                else:
                    ctx.ob("disjoint/%s/%s" % (a, b), None, "model does not reproduce")
            else:
                ctx.ob("disjoint/%s/%s" % (a, b), st == "unsat" or None)
    # Builder ends a block exactly for the terminator predicate's opcodes
    enders, non_enders = builder_block_enders()
    valof = {n: v for v, ns in names_of.items() for n in ns}
    for opn, meths in sorted(enders.items()):
        v = valof.get(opn)
        st, m = q.check([op == z3.BitVecVal(v, 32), z3.Not(exprs["is_block_terminator"])], "builder/ender")
        if st == "sat":
            ctx.ob("builder/ends-block/%s" % opn, False, meths)
            ctx.violation("builder/ends-block-for-non-terminator/%s" % opn,
                          "Builder::%s ends the current block but is_block_terminator(Op::%s) is false" % (meths[0], opn),
                          {"method": meths[0], "op": v})
        else:
            ctx.ob("builder/ends-block/%s" % opn, st == "unsat" or None)
    for opn, meths in sorted(non_enders.items()):
        v = valof.get(opn)
        if v is None:
            continue
        st, m = q.check([op == z3.BitVecVal(v, 32), exprs["is_block_terminator"]], "builder/non-ender")
        if st == "sat":
            ctx.ob("builder/keeps-block/%s" % opn, False, meths)
            ctx.violation("builder/terminator-does-not-end-block/%s" % opn,
                          "is_block_terminator(Op::%s) but Builder::%s leaves the block open" % (opn, meths[0]), {"method": meths[0]})
        else:
            ctx.ob("builder/keeps-block/%s" % opn, st == "unsat" or None)
    # ... and the methods that reach end_block / insert_end_block really do close the block, for every insertion point (MIR)
    try:
        import c12
        import c05
        fields = {"Module": c05.struct_fields("rspirv/dr/constructs.rs", "Module"), "Function": c05.struct_fields("rspirv/dr/constructs.rs", "Function"),
                  "Block": c05.struct_fields("rspirv/dr/constructs.rs", "Block"), "Builder": c05.struct_fields("rspirv/dr/build/mod.rs", "Builder")}
        nid = z3.BitVec("next_id", 32)
        c12.every_terminator(ctx, q, mir.MirFile(mir_path("rspirv")), mir.MirFile(mir_path("spirv")), registry, fields, nid,
                             [z3.UGE(nid, 1), z3.ULE(nid, 0xfffffff0)], rp)
    except mir.Unsupported as ex:
        ctx.ob("builder/terminators-close-the-block/encodable", None, str(ex)[:300])
    rp.close()
    ctx.validated = rp.count
    ctx.extra["observations_name_rule_only"] = observations
    ctx.extra["cvc5"] = q.summary()
    ctx.extra["explanation"] = ("Each reflect predicate is a z3 formula obtained by symbolic execution of its MIR over all declared "
                                "Op discriminants; class membership per reference/spec.py; every sat model is replayed on the real predicate.")


def builder_block_enders():
    """(opcode -> [method]) for Builder methods whose body calls end_block/insert_end_block, and for those that
    insert into a block without ending it."""
    enders, others = {}, {}
    for rel in ("rspirv/dr/build/autogen_terminator.rs", "rspirv/dr/build/autogen_norm_insts.rs", "rspirv/dr/build/mod.rs"):
        s = tables.src(rel)
        t = s.toks
        i = 0
        n = len(t)
        while i < n - 2:
            if t[i].v == "fn" and t[i + 1].k == "id":
                name = t[i + 1].v
                j = i
                while t[j].v not in ("{", ";"):
                    j += 1
                if t[j].v == ";":
                    i = j
                    continue
                k = match_close(t, j)
                body = t[j:k]
                vals = [x.v for x in body]
                ops = [body[x + 4].v for x in range(len(body) - 4)
                       if vals[x:x + 4] == ["spirv", "::", "Op", "::"]]
                ends = any(vals[x] == "self" and vals[x + 1] == "." and vals[x + 2] in ("end_block", "insert_end_block")
                           for x in range(len(vals) - 2))
                inserts = any(vals[x] == "self" and vals[x + 1] == "." and vals[x + 2] == "insert_into_block"
                              for x in range(len(vals) - 2))
                if name not in ("end_block", "insert_end_block", "insert_into_block") and len(set(ops)) == 1:
                    if ends:
                        enders.setdefault(ops[0], []).append(name)
                    elif inserts:
                        others.setdefault(ops[0], []).append(name)
                i = k
            i += 1
    return enders, others
