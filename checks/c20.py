"""C20 — rspirv-dis prints the library disassembly or an error and never crashes (glue decidable, process behaviour observed).

M2  `dis::main` (MIR of the binary crate): clap's builder calls, `File::open`, `read_to_end` and `load_bytes` are replaced by
    arbitrary outcomes of their types (open/read: Ok, the property's 'readable input file'); every path must perform exactly one
    `_print` — of `Module::disassemble()` of the loaded module followed by a newline when loading succeeded, of the loading
    error's Display followed by a newline otherwise — and return normally; no panic edge of `main` itself is reachable under
    'the argument is present, the file opens and reads'. Panic-freedom of `load_bytes` and `disassemble` is C04's subject.
R   the real binary is built from the current tree and run on a corpus (valid module, every truncation of it, word-corrupted
    variants, arbitrary bytes incl. lengths not divisible by 4, the empty file): exit status 0, stdout = library disassembly + newline
    or the one-line error message (compared with the replay runner's library answer)."""
import os
import re
import subprocess
import tempfile
import z3
import sym
import mir
import reg as regmod
import c03
import c07
from common import mir_path, workdir, cargo_env, REPO, FileLock, Inconclusive, Replay

LEVEL = "model_checking"


def dis_binary():
    wd = workdir()
    tdir = os.path.join(wd, "dis-target")
    binp = os.path.join(tdir, "debug", "rspirv-dis")
    with FileLock(os.path.join(wd, ".dis.lock")):
        if os.path.exists(binp):
            return binp
        p = subprocess.run(["cargo", "build", "--offline", "-p", "rspirv-dis"], cwd=REPO, env=cargo_env({"CARGO_TARGET_DIR": tdir}),
                           stdout=subprocess.PIPE, stderr=subprocess.PIPE, text=True)
        if p.returncode != 0:
            raise Inconclusive("building rspirv-dis failed: %s" % p.stderr[-1500:])
    return binp


def run(ctx, library=True):
    registry = regmod.build_registry()
    mf = mir.MirFile(mir_path("dis"))
    ctx.trusted += ["rustc MIR of dis/main.rs", "mirsym", "summaries: clap builder = opaque, File::open / read_to_end = Ok (readable file), load_bytes = arbitrary Result",
                    "C04 for the panic-freedom of load_bytes and disassemble"]
    ctx.bounds.append("main: all paths; corpus run: %s files" % ("~1700" if ctx.tier == "quick" else "~10000"))
    fn = mf.get("main", kind="fn")

    def opaque(name):
        def h(engine, st, fr, callee, args, ops):
            st.events.append(("call", name))
            return sym.Sym(engine.fresh_name(name), name)
        return h

    def m_value_of(engine, st, fr, callee, args, ops):
        return sym.Adt("Option", "Some", [sym.StrV("input.spv")])       # the argument is required(true): clap exits before main continues otherwise

    def m_open(engine, st, fr, callee, args, ops):
        return sym.Adt("Result", "Ok", [sym.Sym("file", "File")])

    def m_read(engine, st, fr, callee, args, ops):
        return sym.Adt("Result", "Ok", [z3.BitVec("nread", 64)])

    def m_load(engine, st, fr, callee, args, ops):
        st.events.append(("load_bytes", args[0]))
        return sym.Fork([(True, sym.Adt("Result", "Ok", [sym.Sym("module", "Module")]), ("outcome", "ok")),
                         (True, sym.Adt("Result", "Err", [sym.Sym("err", "ParseState")]), ("outcome", "err"))])

    def m_disassemble(engine, st, fr, callee, args, ops):
        return sym.Adt("Disassembly", None, [sym._deref_arg(engine, st, args[0])])

    def m_print(engine, st, fr, callee, args, ops):
        st.events.append(("print", args[0]))
        return sym.UNIT
    models = [
        (r"^App::<'_, '_>::|^Arg::<'_, '_>::", opaque("clap")),
        (r"^ArgMatches::<'_>::value_of::<", m_value_of),
        (r"^File::open::<", m_open),
        (r"as std::io::Read>::read_to_end$", m_read),
        (r"^Vec::<u8>::new$", lambda e, s, f, c, a, o: sym.Sym("buffer", "Vec<u8>")),
        (r"^load_bytes::<", m_load),
        (r"^<rspirv::dr::Module as Disassemble>::disassemble$", m_disassemble),
        (r"^std::io::_print$", m_print),
    ] + c07.fmt_models()
    eng = sym.Engine([mf], registry, models=models, eager=True)
    try:
        res = eng.run(fn, [])
    except mir.Unsupported as ex:
        ctx.ob("main/encodable", None, "dis::main cannot be encoded: %s" % str(ex)[:300])
        res = []
    ctx.functions.update(eng.stats.functions)
    model_only = []
    for r in res:
        outcome = [e[1] for e in r.events if e[0] == "outcome"]
        prints = [e[1] for e in r.events if e[0] == "print"]
        tag = "main/%s" % (outcome[0] if outcome else "no-load")
        if r.status != "return":
            # model-only: the built binary on the corpus (below) is the evidence against the real code
            ctx.ob(tag + "/returns", None, "in the model main ends in %s (%s) although the file is readable" % (r.status, r.info))
            continue
        good = len(prints) == 1 and len(outcome) == 1
        if good:
            fa = prints[0]
            args_ = fa.fields[-1]
            if isinstance(args_, sym.Ref):
                args_ = eng.read_at(c07._mkstate(r.mem), args_.root, args_.path)
            items = args_.items if isinstance(args_, sym.Arr) else []
            good = len(items) == 1 and isinstance(items[0], sym.Adt) and items[0].variant == "display"
            if good:
                x = items[0].fields[0]
                while isinstance(x, sym.Ref):
                    x = eng.read_at(c07._mkstate(r.mem), x.root, x.path)
                # `e.to_string()` printed with `{}` is the Display of e
                while isinstance(x, sym.Adt) and x.ty == "ToString" and x.fields:
                    x = x.fields[0]
                    while isinstance(x, sym.Ref):
                        x = eng.read_at(c07._mkstate(r.mem), x.root, x.path)
                if outcome[0] == "ok":
                    good = isinstance(x, sym.Adt) and x.ty == "Disassembly" and isinstance(x.fields[0], sym.Sym) and x.fields[0].name.startswith("module")
                else:
                    good = isinstance(x, sym.Sym) and x.name.startswith("err")
            tmpl = repr(fa.fields[0])
            good = good and ("\\n" in tmpl or "n" in tmpl)
        ctx.ob(tag + "/prints-exactly-the-%s" % ("disassembly" if outcome and outcome[0] == "ok" else "error"), True if good else None,
               None if good else "prints: %s" % [repr(p)[:120] for p in prints])
        if not good:
            model_only.append("on the '%s' path the model of main prints %s" % (outcome, [repr(p)[:160] for p in prints]))
    if res and len(res) != 2:
        ctx.ob("main/two-paths", None, "%d paths" % len(res))
    # ---------------- the real binary on a corpus
    corpus_run(ctx)
    ctx.extra["states"] = len(res)
    ctx.extra["transitions"] = ctx.validated
    ctx.extra["explanation"] = "main's MIR under arbitrary load outcomes; the built binary run on a corpus and compared with the library."
    if library and not ctx.violations:
        # main's model leaves `load_bytes` and `disassemble` arbitrary-but-returning: that they do return (never panic) for every
        # file content is C04's claim, decided by C04's legs (parser / decoder / loader / disassembler panic edges) — run here too,
        # so that this check stands on its own
        n_main, n_files = ctx.extra["states"], ctx.extra["transitions"]
        import c04
        import common as _common
        _common.composed(ctx, "C04-library-kernels", lambda: c04.run(ctx, dis=False))
        ctx.extra["main_paths"], ctx.extra["corpus_files"] = n_main, n_files
        ctx.extra["explanation"] = ("main's MIR under arbitrary load outcomes; the built binary on a corpus, compared with the library; and C04's legs: every "
                                    "panic edge of the parser / loader / assembler / disassembler kernels asked for feasibility, the decoder by CBMC.")


def corpus(tier):
    le = c03.le
    base = c03.HEADER + le(2 << 16 | 17) + le(1) + le(3 << 16 | 14) + le(0) + le(1) + le(2 << 16 | 19) + le(1) + \
        le(4 << 16 | 21) + le(2) + le(32) + le(1) + le(4 << 16 | 43) + le(2) + le(3) + le(0xfffffff6) + \
        le(3 << 16 | 33) + le(4) + le(1) + le(5 << 16 | 54) + le(1) + le(5) + le(0) + le(4) + le(2 << 16 | 248) + le(6) + le(1 << 16 | 253) + le(1 << 16 | 56)
    b = bytes.fromhex(base)
    files = [b, b"", b"\x03", b"\x03\x02\x23", bytes(range(23)), bytes.fromhex(c03.HEADER), bytes.fromhex(c03.HEADER) + b"\x01\x02\x03"]
    step = 7 if tier == "quick" else 1
    for cut in range(0, len(b), step):
        files.append(b[:cut])
    for i in range(20, len(b), 4 * (3 if tier == "quick" else 1)):
        for w in (0, 0xffffffff, 0x00010000, (5 << 16) | 52):
            files.append(b[:i] + w.to_bytes(4, "little") + b[i + 4:])
    # OpConstant of an undeclared type, OpSpecConstantOp naming OpConstant, string with a huge word count
    files.append(bytes.fromhex(c03.HEADER + le(2 << 16 | 19) + le(1) + le(4 << 16 | 43) + le(1) + le(2) + le(7)))
    files.append(bytes.fromhex(c03.HEADER + le(5 << 16 | 52) + le(1) + le(2) + le(43) + le(7)))
    files.append(bytes.fromhex(c03.HEADER + le(0xffff << 16 | 10) + "6162"))
    glsl = "474c534c" "2e737464" "2e343530" "00000000"
    for num in (0, 1, 81, 82, 9999, 0xffffffff):
        files.append(bytes.fromhex(c03.HEADER + le(6 << 16 | 11) + le(1) + glsl + le(2 << 16 | 19) + le(2) + le(3 << 16 | 33) + le(3) + le(2) +
                                   le(5 << 16 | 54) + le(2) + le(4) + le(0) + le(3) + le(2 << 16 | 248) + le(5) + le(6 << 16 | 12) + le(2) + le(6) + le(1) + le(num) + le(6) +
                                   le(1 << 16 | 253) + le(1 << 16 | 56)))
    # every short sequence over the structural opcodes (function / label / terminator / end / parameter / other): the loader's
    # bracket automaton answers each with a module or an error, never a crash
    import itertools
    alpha = [le(5 << 16 | 54) + le(1) + le(5) + le(0) + le(4), le(2 << 16 | 248) + le(6), le(1 << 16 | 253), le(1 << 16 | 56),
             le(3 << 16 | 55) + le(1) + le(7), le(1 << 16 | 0)]
    pre = c03.HEADER + le(2 << 16 | 19) + le(1) + le(3 << 16 | 33) + le(4) + le(1)
    for n in range(1, 5 if tier == "quick" else 6):
        for seq in itertools.product(range(len(alpha)), repeat=n):
            files.append(bytes.fromhex(pre + "".join(alpha[i] for i in seq)))
    # a constant BEFORE the declaration of its type (the parser reads one word; the disassembler resolves the type afterwards),
    # for every kind / width / signedness, and the type redeclared wider after a constant
    for kind_ in (21, 22):
        for w_ in (0, 1, 7, 8, 16, 31, 32, 33, 64, 128, 0xffffffff):
            for sg in ((0, 1) if kind_ == 21 else (0,)):
                decl = (le(4 << 16 | 21) + le(1) + le(w_) + le(sg)) if kind_ == 21 else (le(3 << 16 | 22) + le(1) + le(w_))
                files.append(bytes.fromhex(c03.HEADER + le(4 << 16 | 43) + le(1) + le(2) + le(0xfffffff9) + decl))
                files.append(bytes.fromhex(c03.HEADER + le(4 << 16 | 21) + le(1) + le(32) + le(1) + le(4 << 16 | 43) + le(1) + le(2) + le(0x8000) + decl))
    # OpExtInst of OpenCL.std for numbers across the table
    ocl = "4f70656e" "434c2e73" "74640000"
    for num in (0, 94, 95, 104, 141, 170, 171, 187, 201, 204, 205):
        files.append(bytes.fromhex(c03.HEADER + le(5 << 16 | 11) + le(1) + ocl + le(2 << 16 | 19) + le(2) + le(3 << 16 | 33) + le(3) + le(2) +
                                   le(5 << 16 | 54) + le(2) + le(4) + le(0) + le(3) + le(2 << 16 | 248) + le(5) + le(6 << 16 | 12) + le(2) + le(6) + le(1) + le(num) + le(6) +
                                   le(1 << 16 | 253) + le(1 << 16 | 56)))
    # byte-swapped magic and a fully byte-swapped module
    files.append(bytes.fromhex("07230203") + b[4:])
    files.append(b"".join(b[i:i + 4][::-1] for i in range(0, len(b), 4)))
    return files


def corpus_run(ctx):
    try:
        binp = dis_binary()
    except Inconclusive as ex:
        ctx.ob("binary/builds", None, str(ex)[:300])
        return
    rp = Replay()
    n = 0
    with tempfile.TemporaryDirectory(dir=workdir()) as td:
        for k, data in enumerate(corpus(ctx.tier)):
            path = os.path.join(td, "in%d.spv" % k)
            with open(path, "wb") as f:
                f.write(data)
            p = subprocess.run([binp, path], stdout=subprocess.PIPE, stderr=subprocess.PIPE, timeout=20)
            lib = rp.ask("load_disassemble %s" % data.hex()) if data else rp.ask("load_disassemble ")
            n += 1
            out = p.stdout.decode("utf-8", "replace")
            if "panic" in lib:
                want = None
            elif lib.get("loaded"):
                want = lib["text"] + "\n"
            else:
                want = None      # the error's Display text is not exposed by the runner: checked as one line below
            bad = None
            if p.returncode != 0:
                bad = "exit status %d, stderr: %s" % (p.returncode, p.stderr.decode("utf-8", "replace")[-200:])
            elif want is not None and out != want:
                bad = "stdout differs from the library disassembly"
            elif want is None and "panic" not in lib and (out.count("\n") != 1 or not out.endswith("\n")):
                bad = "the error message is not exactly one line: %r" % out[:200]
            if bad:
                ctx.ob("binary/file-%d" % k, False, bad)
                ctx.violation("dis/binary/%s" % ("crash" if p.returncode != 0 else "output"),
                              "rspirv-dis on a %d-byte file (%s...): %s" % (len(data), data[:24].hex(), bad), {"input_hex": data.hex(), "exit": p.returncode})
                break
    rp.close()
    ctx.validated = n
    if not ctx.violations:
        ctx.ob("binary/corpus-%d-files" % n, True)
