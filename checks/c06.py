"""C06 — every module built with the Builder survives assemble-then-load unchanged.

Decided as a composition (the whole history is out of any engine's reach; see DESIGN §6 C06):
  (a) M2, this check: EVERY instruction-emitting Builder method (hand-written and generated, ~1100) is executed symbolically
      from its MIR with symbolic arguments from a state in which it succeeds; the one instruction it adds must carry the
      method's opcode (method name <-> opcode name), result type / result id exactly where the grammar entry has them, and
      the call's arguments as operands in grammar order with the grammar's kinds (grammar tables = rustc's promoted constants);
      it must land in the container the logical layout assigns to that opcode (= where the loader files it, C05), block-ending
      methods <=> block-termination opcodes.
  (b) M1: the version word 0x00MMmm00 packs and unpacks exactly, for all major/minor (z3).
  (c) bound: `module()` writes bound = next id (K harness k_builder_module), ids handed out are below it (C13).
  (d) instruction-level inverse (C02/C09/C17) and loader filing (C05) are the other checks.
R: every method is also called natively with distinct argument values; the emitted instruction is compared the same way."""
import os
import re
import sys
import z3
import sym
import mir
import tables
import gtables
import reg as regmod
import bsweep
import c12 as base
import c05
from common import mir_path, Inconclusive, Replay, VERIF
from smt import Q

sys.path.insert(0, os.path.join(VERIF, "reference"))
import spec  # noqa: E402

LEVEL = "model_checking"

PARAM_KINDS = {"ImageOperands", "LoopControl", "MemoryAccess", "TensorAddressingOperands", "ExecutionMode", "Decoration",
               "CooperativeMatrixOperands", "RawAccessChainOperands", "MatrixMultiplyAccumulateOperands"}
SPECIAL_NAMES = {"ret": "Return", "ret_value": "ReturnValue", "begin_function": "Function", "end_function": "FunctionEnd",
                 "begin_block": "Label", "constant_bit32": "Constant", "constant_bit64": "Constant",
                 "spec_constant_bit32": "SpecConstant", "spec_constant_bit64": "SpecConstant"}
LOADER_TERM = set()      # opcodes on which the loader closes a block (reflect::is_block_terminator, from MIR)
OUTSIDE_LAYOUT = set()   # OpType*/Op*Constant* opcodes whose class cannot be confirmed offline (name-rule-only tier, DESIGN §5)

NOT_EMITTING = {"insert_into_block", "insert_types_global_values", "pop_instruction", "set_version", "version", "module", "module_ref",
                "module_mut", "selected_function", "selected_block", "id", "dedup_insert_type", "find_return_block_indices",
                "select_function_by_name", "select_function", "select_block", "begin_block_no_label", "end_block", "insert_end_block",
                "verif_next_id", "new", "new_from_module", "verif_from_parts"}


def snake(s):
    out = []
    for i, c in enumerate(s):
        if c.isupper():
            prev = s[i - 1] if i > 0 else ""
            nxt = s[i + 1] if i + 1 < len(s) else ""
            if i > 0 and (prev.islower() or (prev.isupper() and nxt.islower())):
                out.append("_")
            out.append(c.lower())
        else:
            out.append(c)
    return "".join(out)


def opcode_of_method(name, file, by_snake, by_flat):
    base_ = name[7:] if name.startswith("insert_") and name not in ("insert_into_block", "insert_types_global_values", "insert_end_block") else name
    if base_ in SPECIAL_NAMES:
        return SPECIAL_NAMES[base_]
    if base_.endswith("_id") and "autogen_type" in file and base_[:-3] in by_snake and (base_ not in by_snake or base_[:-3] + "_id_id" == ""):
        # `type_x_id` is the explicit-id twin of `type_x`; OpTypeReserveId itself is `type_reserve_id` / `type_reserve_id_id`
        return by_snake[base_[:-3]]
    if base_ in by_snake:
        return by_snake[base_]
    return by_flat.get(base_.replace("_", ""))


def run(ctx):
    q = Q(ctx)
    registry = regmod.build_registry()
    mf = mir.MirFile(mir_path("rspirv"))
    ms = mir.MirFile(mir_path("spirv"))
    T = gtables.load_tables()
    kn, qn = T["kind_names"], T["quant_names"]
    entry_by_name = {e["opname"]: e for e in T["core"]}
    by_snake = {snake(e["opname"]): e["opname"] for e in T["core"]}
    by_flat = {e["opname"].lower(): e["opname"] for e in T["core"]}
    P = tables.parse_operand_arms()
    variant_of_kind = {k: a["operands"][0][0] for k, a in P.items() if a["operands"]}
    variant_of_kind["LiteralContextDependentNumber"] = "LiteralBit32|LiteralBit64"
    fields = {
        "Module": c05.struct_fields("rspirv/dr/constructs.rs", "Module"),
        "Function": c05.struct_fields("rspirv/dr/constructs.rs", "Function"),
        "Block": c05.struct_fields("rspirv/dr/constructs.rs", "Block"),
        "Builder": c05.struct_fields("rspirv/dr/build/mod.rs", "Builder"),
    }
    bidx = {n: i for i, n in enumerate(fields["Builder"])}
    sigs = {(s["name"]): s for s in tables.builder_signatures()}
    methods = bsweep.builder_methods(mf)
    ctx.bounds.append("all %d Builder methods, symbolic arguments, Option arguments both ways (up to %d argument combinations per method)" % (
        len(methods), 4 if ctx.tier == "quick" else 8))
    ctx.trusted += ["rustc MIR", "mirsym + models of vec! lowering, Vec/Option, opaque iterator arguments", "grammar tables as rustc's promoted constants",
                    "reference/spec.py for the layout section of each opcode", "z3"]
    ctx.assumptions += ["the end-to-end statement is the composition (a)-(d) of separately decided lemmas; the composition itself is an argument, not a solver result"]
    import c16
    names_of = c05.op_names()
    cat = c05.categories(names_of, c16.builder_type_constant_ops())
    OUTSIDE_LAYOUT.clear()
    OUTSIDE_LAYOUT.update(n for v, c_ in cat.items() if c_ is None for n in names_of[v])
    ctx.extra["outside_layout_claim"] = sorted(OUTSIDE_LAYOUT)
    # the loader closes a block exactly on reflect::is_block_terminator (C05); the Builder must agree with that predicate too
    opv = z3.BitVec("op", 32)
    valid = z3.Or(*[opv == z3.BitVecVal(v, 32) for v in sorted(names_of)])
    term_expr = c16.predicate_expr(mf, registry, "is_block_terminator", opv, valid, ctx)
    LOADER_TERM.clear()
    for v in sorted(names_of):
        if z3.is_true(z3.simplify(z3.substitute(term_expr, (opv, z3.BitVecVal(v, 32))))):
            LOADER_TERM.update(names_of[v])
    rp = Replay()
    nid = z3.BitVec("next_id", 32)
    pre = [z3.UGE(nid, 1), z3.ULE(nid, 0xfffffff0)]
    shape = (1, 1, 0, 1)
    terminators = set(spec.BLOCK_TERMINATORS)
    checked = 0
    for name, file, line in methods:
        if name in NOT_EMITTING or name.startswith("verif_"):
            continue
        sig = sigs.get(name)
        opname = opcode_of_method(name, file, by_snake, by_flat)
        if opname is None or opname not in entry_by_name:
            ctx.ob("method-opcode/%s" % name, None, "cannot relate method name to an opcode")
            continue
        entry = entry_by_name[opname]
        fn = mf.parse_item(line)
        eng = sym.Engine([mf, ms], registry, models=base.MODELS + bsweep.EXTRA_MODELS, eager=True, loop_bound=4)
        # begin_function needs no open function; everything else is run with a block open (block-level calls succeed there)
        if name == "begin_function":
            sel = (None, None)
        elif name in ("begin_block",):
            sel = (0, None)
        else:
            sel = (0, 0)
        combos = bsweep.signature_args(eng, fn, max_combos=4 if ctx.tier == "quick" else 8)
        for args in combos:
            args = list(args)
            b0 = base.make_state(shape, sel[0], sel[1], nid, fields)
            try:
                res = eng.run(fn, [sym.Ref(("h", "b"), (), True)] + args, mem={("h", "b"): b0}, pc=list(pre))
            except mir.Unsupported as ex:
                ctx.ob("builder/%s/encodable" % name, None, str(ex)[:300])
                break
            ctx.functions.add("dr::Builder::" + name)
            for r in res:
                checked += 1
                bad = check_emission(eng, r, b0, bidx, fields, name, sig, args, entry, kn, qn, variant_of_kind, terminators, opname)
                if bad is None:
                    ctx.ob("builder/%s" % name, True)
                    continue
                real = rp.ask("builder_call %s %d" % (name, 0 if sel == (None, None) else (1 if sel == (0, None) else 2)))
                why = check_native(real, name, sig, entry, kn, qn, variant_of_kind, terminators, opname)
                if why:
                    ctx.ob("builder/%s" % name, False, "%s; native: %s" % (bad, why))
                    ctx.violation("builder-method/%s/%s" % (name, classify(why)), "Builder::%s: %s (model: %s)" % (name, why, bad),
                                  {"cmd": "builder_call %s 2" % name, "real": real})
                elif "words of a slice argument" in bad:
                    # duplicates in the slice: the native call with slice arguments [w, w, 101] (101 = the second id argument's value)
                    real2 = rp.ask("builder_call %s 2 7" % name)
                    nops2 = [len(x.get("inst", {}).get("operands", [])) for x in real2.get("added", [])]
                    real1 = rp.ask("builder_call %s 2" % name)
                    nops1 = [len(x.get("inst", {}).get("operands", [])) for x in real1.get("added", [])]
                    if nops1 and nops2 and nops2[0] != nops1[0] + 2:
                        ctx.ob("builder/%s" % name, False, "%s; native: %d operands for a 1-word slice, %d for a 3-word slice with repeated ids" % (bad, nops1[0], nops2[0]))
                        ctx.violation("builder-method/%s/slice-argument-not-carried" % name, "Builder::%s: %s; on the compiled crate a slice argument [w, w, 101] adds %d operands "
                                      "instead of 3" % (name, bad, nops2[0] - nops1[0] + 1), {"cmd": "builder_call %s 2 7" % name, "real": real2})
                    else:
                        ctx.ob("builder/%s" % name, None, "model reports '%s' but the native calls conform: %s" % (bad, str(real2)[:200]))
                else:
                    ctx.ob("builder/%s" % name, None, "model reports '%s' but the native call conforms: %s" % (bad, str(real)[:300]))
    # native sweep over every public method (validation leg and replay of the same criteria)
    native = 0
    for name, sig in sorted(sigs.items()):
        if not sig["pub"] or name in NOT_EMITTING or name.startswith("verif_"):
            continue
        opname = opcode_of_method(name, sig["file"], by_snake, by_flat)
        if opname is None or opname not in entry_by_name:
            continue
        state = 0 if name == "begin_function" else (1 if name == "begin_block" else 2)
        real = rp.ask("builder_call %s %d" % (name, state))
        if "error" in real:
            continue
        native += 1
        why = check_native(real, name, sig, entry_by_name[opname], kn, qn, variant_of_kind, terminators, opname)
        if why:
            ctx.ob("native/%s" % name, False, why)
            ctx.violation("builder-method/%s/%s" % (name, classify(why)), "Builder::%s: %s" % (name, why), {"cmd": "builder_call %s %d" % (name, state), "real": real})
    native_module_roundtrip(ctx, rp, loaded_only=False)
    ctx.validated = native
    rp.close()
    version_word(ctx, q, mf, registry)
    set_version_step(ctx, q, mf, ms, registry, fields)
    # what is emitted: the header, then every section in logical-layout order, then the functions (nothing skipped) -- C01's lemma 3
    import c01
    c01.emission_order_lemma(ctx, registry, mf)
    # the structure the loader will demand is the structure the Builder enforces: every call from every valid state (C12's step
    # check: brackets, which function / block receives what, nothing on a failed call)
    import c12
    c12.run(ctx)
    # what the loader reads back: context-dependent literals (64-bit constants, OpSwitch cases on any 64-bit value) keep their width
    import c10
    import parsersym
    rp10 = Replay()
    S10 = parsersym.Setting()
    c10.literal_lemmas(ctx, q, S10, rp10)
    rp10.close()
    # framing of what the Builder emitted: word count = 1 + result type + result id + the operands' words (one, two, string)
    import c04
    c04.assemble_index(ctx, q, S10)
    # what the loader reads back for parameterised operands (memory access, image operands, execution modes, decorations): the
    # parser delivers exactly the grammar's parameter kinds, so a built operand comes back as the same operand (C03 / C17 legs)
    import c03
    rp03 = Replay()
    import common as _common
    _common.composed(ctx, "C03-mask-parameters", lambda: c03.mask_parameter_bits(ctx, S10, q, rp03))
    _common.composed(ctx, "C03-enum-parameters", lambda: c03.enum_parameter_values(ctx, S10, q, rp03))
    # a type request answers with an earlier declaration only when that declaration carries the same arguments (C13's leg on
    # Instruction::is_type_identical: operand lists of every length pair)
    import c13
    _common.composed(ctx, "C13-type-identity", lambda: c13.type_identity(ctx, q, mf, ms, registry, rp03, 3 if ctx.tier == "quick" else 5))
    rp03.close()
    ctx.extra["states"] = checked
    ctx.extra["transitions"] = checked
    ctx.extra["native_calls"] = native
    ctx.extra["cvc5"] = q.summary()
    ctx.extra["explanation"] = "Each Builder method's MIR is executed with symbolic arguments; the emitted instruction is compared with the grammar entry of the method's opcode."


def native_module_roundtrip(ctx, rp, loaded_only):
    """Every Builder method's instruction in a real module: assemble -> load -> assemble must give identical words.
    loaded_only (C01, whose premise is 'the loader accepts the binary'): a module the loader rejects is outside the claim;
    otherwise (C06: 'every module built with the Builder survives') a rejection is a violation too."""
    sigs = tables.builder_signatures()
    done = 0
    seen = set()
    for s in sigs:
        if not s["pub"] or s["name"] in seen or s["name"] in NOT_EMITTING:
            continue
        if s["name"] in ("end_function", "constant_bit64", "spec_constant_bit64"):
            continue      # the generic harness call would not be a conforming history / input (open block; 64-bit type not declared)
        seen.add(s["name"])
        real = rp.ask("builder_roundtrip %s" % s["name"])
        if "error" in real:
            continue
        done += 1
        if loaded_only and real.get("load_error"):
            continue
        if real.get("same") is False:
            ctx.ob("native-roundtrip/%s" % s["name"], False, str(real)[:300])
            ctx.violation("roundtrip/builder/%s" % s["name"], "a module holding the instruction of Builder::%s does not survive assemble -> load -> assemble: %s" % (
                s["name"], str(real)[:300]), {"cmd": "builder_roundtrip %s" % s["name"], "real": real})
    ctx.ob("native-roundtrip/%d-builder-methods" % done, True if done else None)


def classify(why):
    return re.sub(r"[^a-z]+", "-", why.lower())[:50]


def expected_operands(entry, kn, qn, variant_of_kind):
    """[(kind, quant, variant)] of the grammar entry after result type / result id"""
    out = []
    for k, qq in entry["operands"]:
        kind, quant = kn[k], qn[qq]
        if kind in ("IdResultType", "IdResult"):
            continue
        out.append((kind, quant, variant_of_kind.get(kind, kind)))
    return out


def check_emission(eng, r, b0, bidx, fields, name, sig, args, entry, kn, qn, variant_of_kind, terminators, opname):
    if r.status != "return":
        return "path ends in %s %s" % (r.status, r.info)
    val = r.value
    if isinstance(val, sym.Adt) and val.variant == "Err":
        return "returns %r in a state where it must succeed" % (val,)
    b1 = r.mem[("h", "b")]
    new = bsweep.new_instructions(b0.fields[bidx["module"]], b1.fields[bidx["module"]], fields)
    dedup = name.startswith("type_") and not new
    if dedup:
        return None
    if len(new) != 1:
        return "adds %d instructions (%s)" % (len(new), [p for p, _ in new])
    path, inst = new[0]
    d = bsweep.describe_instruction(eng, r.mem, inst)
    if d is None:
        return "added value is not an instruction built by Instruction::new"
    opc, rtype, rid, ops = d
    if opc != entry["opcode"]:
        return "emits opcode %s, not Op%s (%d)" % (opc, opname, entry["opcode"])
    kinds = [kn[k] for k, _ in entry["operands"]]
    has_rt, has_rid = "IdResultType" in kinds, "IdResult" in kinds
    if (rtype.variant == "Some") != has_rt:
        return "result type %s but the grammar %s one" % ("present" if rtype.variant == "Some" else "absent", "has" if has_rt else "has not")
    if (rid.variant == "Some") != has_rid:
        return "result id %s but the grammar %s one" % ("present" if rid.variant == "Some" else "absent", "has" if has_rid else "has not")
    # container
    sec = spec.layout_section(opname)
    if opname in OUTSIDE_LAYOUT:
        pass
    elif sec is not None:
        want = sec
        if not path.startswith(want):
            return "filed into %s, the logical layout says %s" % (path, want)
    elif opname in ("Function",):
        if ".def" not in path:
            return "filed into %s" % path
    elif opname == "FunctionEnd":
        if ".end" not in path:
            return "filed into %s" % path
    elif opname == "FunctionParameter":
        if ".parameters" not in path:
            return "filed into %s" % path
    elif opname == "Label":
        if ".label" not in path:
            return "filed into %s" % path
    elif opname in ("Variable", "Undef", "Line", "NoLine"):
        if "instructions" not in path and not path.startswith("types_global_values"):
            return "filed into %s" % path
    else:
        if ".instructions[" not in path:
            return "filed into %s, but Op%s belongs into a block" % (path, opname)
    # block ending
    sel_b1 = b1.fields[bidx["selected_block"]]
    if ".instructions[" in path and opname not in ("Variable", "Undef", "Line", "NoLine"):
        closes = sel_b1.variant == "None"
        if closes != (opname in LOADER_TERM) and opname not in ("LifetimeStart", "LifetimeStop", "DemoteToHelperInvocation"):
            return "%s the block but the loader %s a block on Op%s" % ("closes" if closes else "leaves open", "closes" if opname in LOADER_TERM else "does not close", opname)
        if closes != (opname in terminators) and opname not in ("LifetimeStart", "LifetimeStop", "DemoteToHelperInvocation"):
            return "%s the block although Op%s is %sa block-termination instruction" % ("closes" if closes else "leaves open", opname,
                                                                                       "" if opname in terminators else "not ")
    # operands in grammar order with grammar kinds
    exp = expected_operands(entry, kn, qn, variant_of_kind)
    got = []
    for o in ops:
        if o[0] == "*":
            got.append(("*", o[1]))
        else:
            got.append(("1", o[0]))
    i = 0
    for kind, quant, variant in exp:
        vs = variant.split("|")
        if kind.startswith("Pair"):
            # pairs are pushed by a loop over an opaque iterator: zero or one generic pair on this path
            if i + 1 < len(got) and got[i][0] == "1" and got[i + 1][0] == "1":
                i += 2
            continue
        if quant == "One":
            if i >= len(got) or got[i][0] != "1" or got[i][1] not in vs:
                return "operand %d is %s, the grammar has %s %s" % (i, got[i] if i < len(got) else "missing", kind, quant)
            i += 1
        elif quant == "ZeroOrOne":
            if i < len(got) and got[i][0] == "1" and got[i][1] in vs:
                i += 1
        else:
            if i < len(got) and got[i][0] == "*" and (got[i][1] is None or got[i][1] in vs):
                i += 1
            elif i < len(got) and got[i][0] == "1" and got[i][1] in vs:
                while i < len(got) and got[i][0] == "1" and got[i][1] in vs:
                    i += 1
    # trailing additional parameters of parameterised kinds
    if any(k in PARAM_KINDS for k, _, _ in exp):
        i = len(got)
    if i != len(got):
        return "operand %d (%s) has no counterpart in the grammar entry %s" % (i, got[i], [(k, q_) for k, q_, _ in exp])
    # arguments are carried in order: payload of the k-th fixed operand is the k-th value argument
    payloads = [o[1] for o in ops if o[0] != "*" and o[1] is not None]
    argvals = []
    for a in args:
        if isinstance(a, sym.Adt) and a.ty == "Option":
            if a.variant == "Some":
                argvals.append(a.fields[0])
        elif isinstance(a, sym.Adt) and a.ty == "build::InsertPoint":
            continue
        else:
            argvals.append(a)
    pos = []
    for p in payloads:
        for k, a in enumerate(argvals):
            if p is a or (z3.is_expr(p) and z3.is_expr(a) and p.eq(a)) or (isinstance(p, sym.Adt) and p.ty == "String" and p.fields[0] is a):
                pos.append(k)
                break
    if pos != sorted(pos):
        return "operands carry the arguments out of order (argument positions %s)" % pos
    # every word of a slice argument (`impl AsRef<[Word]>`: two opaque words here, possibly equal) shows up as an operand, in order
    all_payloads = [o[1] for o in ops if o[0] != "*" and o[1] is not None and z3.is_expr(o[1])]
    for key_ in sorted((k_ for k_ in r.mem if isinstance(k_, tuple) and len(k_) == 2 and k_[0] == "h" and str(k_[1]).startswith("slice")), key=str):
        if True:
            words = r.mem.get(key_)
            if isinstance(words, sym.Arr):
                k = 0
                for p in all_payloads:
                    if k < len(words.items) and p.eq(words.items[k]):
                        k += 1
                if k != len(words.items):
                    return "only %d of the %d words of a slice argument are carried as operands" % (k, len(words.items))
    return None


def check_native(real, name, sig, entry, kn, qn, variant_of_kind, terminators, opname):
    """Same criteria on a native call with argument value 100+k at parameter position k."""
    if "panic" in real:
        return "panics: %s" % real["panic"]
    if "error" in real:
        return None
    if not str(real.get("result", "")).startswith(("Ok", "unit", "id:")):
        return "returns %s in a state where it must succeed" % real.get("result")
    added = real.get("added", [])
    if name.startswith("type_") and not added:
        return None
    if len(added) != 1:
        return "adds %d instructions" % len(added)
    a = added[0]
    inst = a["inst"]
    if inst["opcode"] != entry["opcode"]:
        return "emits Op%s, not Op%s" % (inst["opname"], opname)
    kinds = [kn[k] for k, _ in entry["operands"]]
    if (inst["rtype"] is not None) != ("IdResultType" in kinds) or (inst["rid"] is not None) != ("IdResult" in kinds):
        return "result type/id presence differs from the grammar entry"
    sec = spec.layout_section(opname)
    if opname in OUTSIDE_LAYOUT:
        sec = "?"
    elif sec is not None and a["container"] != sec:
        return "filed into %s, the logical layout says %s" % (a["container"], sec)
    if opname in OUTSIDE_LAYOUT:
        pass
    elif sec is None and opname not in ("Function", "FunctionEnd", "FunctionParameter", "Label", "Variable", "Undef", "Line", "NoLine") and \
            not a["container"].endswith(".instructions"):
        return "filed into %s, but Op%s belongs into a block" % (a["container"], opname)
    if a["container"].endswith(".instructions") and opname not in ("Variable", "Undef", "Line", "NoLine", "LifetimeStart", "LifetimeStop", "DemoteToHelperInvocation"):
        closes = real.get("sel_b") is None
        if closes != (opname in LOADER_TERM):
            return "%s the block but the loader %s a block on Op%s (reflect::is_block_terminator)" % (
                "closes" if closes else "leaves open", "closes" if opname in LOADER_TERM else "does not close", opname)
        if closes != (opname in terminators):
            return "%s the block although Op%s is %sa block-termination instruction" % ("closes" if closes else "leaves open", opname,
                                                                                       "" if opname in terminators else "not ")
    got = [re.match(r"^(\w+)", o).group(1) for o in inst["operands"]]
    exp = expected_operands(entry, kn, qn, variant_of_kind)
    i = 0
    for kind, quant, variant in exp:
        vs = variant.split("|")
        if kind.startswith("Pair"):
            while i + 1 < len(got) and got[i] in ("LiteralBit32", "IdRef") and got[i + 1] in ("IdRef", "LiteralBit32"):
                i += 2
            continue
        if quant == "One":
            if i >= len(got) or got[i] not in vs:
                return "operand %d is %s, the grammar has %s" % (i, got[i] if i < len(got) else "missing", kind)
            i += 1
        elif quant == "ZeroOrOne":
            if i < len(got) and got[i] in vs:
                i += 1
        else:
            while i < len(got) and got[i] in vs:
                i += 1
    rest = got[i:]
    if any(not x.startswith("Literal") for x in rest) and not any(k in PARAM_KINDS for k, _, _ in exp):
        return "operands %s beyond the grammar entry" % rest
    # order of arguments: payload values 100+k must be increasing
    nums = []
    for o in inst["operands"]:
        m = re.match(r"^(IdRef|IdScope|IdMemorySemantics|LiteralBit32|LiteralExtInstInteger)\((\d+)\)$", o)
        if m and 100 <= int(m.group(2)) < 200:
            nums.append(int(m.group(2)))
    if nums != sorted(nums):
        return "operands carry the arguments out of order: %s" % inst["operands"]
    return None


def set_version_step(ctx, q, mf, ms, registry, fields):
    """`Builder::set_version(M, m)` from MIR on a builder without a header and on one whose module already has an ARBITRARY
    header (an earlier set_version, or `new_from_module`): afterwards the header exists, its version word is 0x00MMmm00
    for every (M, m), and an existing header keeps its other fields. (One step from any state: the version of the built
    module is the one of the LAST call.)"""
    hf = c05.struct_fields("rspirv/dr/constructs.rs", "ModuleHeader")
    c = [x for x in mf.find("set_version") if "dr/build/" in x[0] and "closure" not in x[0]]
    if len(c) != 1 or "version" not in hf:
        ctx.ob("set_version/encodable", None, "%d candidates, header fields %s" % (len(c), hf))
        return
    fn = mf.parse_item(c[0][2])
    M, m_ = z3.BitVec("major", 8), z3.BitVec("minor", 8)
    nid = z3.BitVec("next_id", 32)
    bidx = {n: i for i, n in enumerate(fields["Builder"])}
    hidx = fields["Module"].index("header")
    for have in (False, True):
        b0 = base.make_state((0, 0, 0, 0), None, None, nid, fields)
        old = {n: z3.BitVec("old_" + n, 32) for n in hf}
        if have:
            mod = b0.fields[bidx["module"]]
            mf_ = list(mod.fields)
            mf_[hidx] = base.some(sym.Adt("constructs::ModuleHeader", None, [old[n] for n in hf]))
            bf = list(b0.fields)
            bf[bidx["module"]] = sym.Adt(mod.ty, None, mf_)
            b0 = sym.Adt(b0.ty, None, bf)
        eng = sym.Engine([mf, ms], registry, models=base.MODELS + bsweep.EXTRA_MODELS, eager=True, loop_bound=4)
        tag = "set_version/%s" % ("existing-header" if have else "no-header")
        try:
            res = eng.run(fn, [sym.Ref(("h", "b"), (), True), M, m_], mem={("h", "b"): b0})
        except mir.Unsupported as ex:
            ctx.ob(tag, None, "not encodable: %s" % str(ex)[:300])
            continue
        ctx.functions.update(eng.stats.functions)
        good = True
        why = None
        for r in res:
            if r.status != "return":
                st, mm = q.check(r.pc, "set-version-panic")
                if st != "unsat":
                    good, why = False, "panics: %s" % (r.info,)
                continue
            h1 = r.mem[("h", "b")].fields[bidx["module"]].fields[hidx]
            if not (isinstance(h1, sym.Adt) and h1.variant == "Some"):
                good, why = False, "no header afterwards"
                continue
            hv = h1.fields[0]
            conds = [hv.fields[hf.index("version")] != z3.Concat(z3.BitVecVal(0, 8), M, m_, z3.BitVecVal(0, 8))]
            if have:
                conds += [hv.fields[hf.index(n)] != old[n] for n in hf if n != "version"]
            st, mm = q.check(list(r.pc) + [z3.Or(*conds)], "set-version")
            if st != "unsat":
                good, why = False, "the header afterwards does not carry version %s.%s (or another field changed)" % (
                    mm.eval(M, model_completion=True) if mm is not None else "?", mm.eval(m_, model_completion=True) if mm is not None else "?")
        if good:
            ctx.ob(tag, True)
            continue
        rp = Replay()
        real = rp.ask("builder_set_version %d" % (1 if have else 0))
        rp.close()
        if real.get("version") == [1, 5] and "panic" not in real:
            ctx.ob(tag, None, "model-only deviation (%s); the compiled crate answers %s" % (why, real))
            continue
        ctx.ob(tag, False, "%s; native: %s" % (why, real))
        ctx.violation("builder/set_version/%s" % ("ignored-on-existing-header" if have else "no-header"),
                      "Builder::set_version(1, 5) on a builder %s: %s; the compiled crate reports version %s in the built module" % (
                          "whose module already has a header (version 1.0)" if have else "without a header", why, real.get("version")),
                      {"cmd": "builder_set_version %d" % (1 if have else 0), "real": real})


def version_word(ctx, q, mf, registry):
    eng = sym.Engine([mf], registry, eager=True)
    mk = mf.get("create_word_from_version", kind="fn")
    un = mf.get("create_version_from_word", kind="fn")
    models = [
        (r"^core::num::<impl u32>::from_le_bytes$", lambda e, s, f, c, a, o: z3.Concat(*reversed([x for x in a[0].items]))),
        (r"^core::num::<impl u32>::to_le_bytes$", lambda e, s, f, c, a, o: sym.Arr([z3.Extract(8 * i + 7, 8 * i, a[0]) for i in range(4)])),
    ]
    eng = sym.Engine([mf], registry, models=models, eager=True)
    M, m_ = z3.BitVec("major", 8), z3.BitVec("minor", 8)
    r1 = eng.run(mk, [M, m_])
    if len(r1) != 1 or r1[0].status != "return":
        ctx.ob("version/encodable", None, str(r1[:2]))
        return
    word = r1[0].value
    st, mm = q.check([word != z3.Concat(z3.BitVecVal(0, 8), M, m_, z3.BitVecVal(0, 8))], "version-word")
    ctx.ob("version/word-is-0x00MMmm00", st == "unsat" or (False if st == "sat" else None))
    if st == "sat":
        Mv, mv = mm.eval(M, model_completion=True).as_long(), mm.eval(m_, model_completion=True).as_long()
        rp_ = Replay()
        real = rp_.ask("builder_set_version 0 %d %d" % (Mv, mv))
        rp_.close()
        if "panic" in real or real.get("word") != (Mv << 16 | mv << 8):
            ctx.violation("version/word-layout", "create_word_from_version(%d, %d) is not 0x00MMmm00: the built module's version word is %s" % (Mv, mv, real.get("word")),
                          {"cmd": "builder_set_version 0 %d %d" % (Mv, mv), "real": real})
        else:
            ctx.inconclusive.append(("version/word-is-0x00MMmm00", "model-only: the compiled crate packs %d.%d as %#x" % (Mv, mv, real.get("word"))))
    w = z3.BitVec("w", 32)
    r2 = eng.run(un, [w])
    if len(r2) == 1 and r2[0].status == "return":
        tup = r2[0].value
        a, b = tup.fields
        st, mm = q.check([z3.Or(a != z3.Extract(23, 16, w), b != z3.Extract(15, 8, w))], "version-unpack")
        ctx.ob("version/unpack-takes-bytes-2-and-1", st == "unsat" or (False if st == "sat" else None))
        if st == "sat":
            wv = mm.eval(w, model_completion=True).as_long()
            import c03
            hexb = c03.le(0x07230203) + c03.le(wv) + c03.le(0) + c03.le(9) + c03.le(0)
            rp_ = Replay()
            real = rp_.ask("load_disassemble %s" % hexb)
            rp_.close()
            want = "; Version: %d.%d" % ((wv >> 16) & 0xff, (wv >> 8) & 0xff)
            if "panic" in real or (real.get("loaded") and want not in real.get("text", "")):
                ctx.violation("version/unpack", "create_version_from_word(%#x) is not (byte 2, byte 1): the disassembly header reads %r" % (
                    wv, [l for l in real.get("text", "").split("\n") if "Version" in l]), {"cmd": "load_disassemble %s" % hexb, "real": real})
            else:
                ctx.inconclusive.append(("version/unpack-takes-bytes-2-and-1", "model-only: the compiled crate unpacks %#x as %s" % (wv, want)))
        r3 = eng.run(un, [word])
        if len(r3) == 1 and r3[0].status == "return":
            a, b = r3[0].value.fields
            st, mm = q.check([z3.Or(a != M, b != m_)], "version-roundtrip")
            ctx.ob("version/roundtrip", st == "unsat" or (False if st == "sat" else None))
            if st == "sat":
                Mv, mv = mm.eval(M, model_completion=True).as_long(), mm.eval(m_, model_completion=True).as_long()
                rp_ = Replay()
                real = rp_.ask("builder_set_version 0 %d %d" % (Mv, mv))
                rp_.close()
                if "panic" in real or real.get("version") != [Mv, mv]:
                    ctx.violation("version/roundtrip", "version %d.%d does not survive the version word: the built module reports %s" % (Mv, mv, real.get("version")),
                                  {"cmd": "builder_set_version 0 %d %d" % (Mv, mv), "real": real})
                else:
                    ctx.inconclusive.append(("version/roundtrip", "model-only: the compiled crate reports %s" % real.get("version")))
    ctx.functions.update(["utils::version::create_word_from_version", "utils::version::create_version_from_word"])
