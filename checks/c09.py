"""C09 — grammar tables are total, unique, well-formed and match the pinned grammar.

M: the three tables are the values rustc computes for their promoted constants (MIR evaluation); `lookup_opcode`
and `get` of the three table types are executed symbolically from their MIR over n:BV16 / n:BV32 / op:BV32 with
`slice::iter` and `Iterator::find` given their std contract (first element satisfying the closure, the closure
itself being executed from its MIR on every entry). z3 decides totality, uniqueness and well-formedness
(entries as SMT arrays with symbolic entry / operand indices). Snapshot comparison = drift detection.
"""
import json
import os
import z3
import sym
import mir
import tables
import gtables
import itermodels
from common import Inconclusive, Replay, VERIF
from smt import Q


def model_slice_iter(engine, st, fr, callee, args, ops):
    """`table.iter()` / `table[start..].iter()`: the standard concrete iterator (lib/itermodels.py) over references to the entries"""
    return itermodels.m_slice_iter(engine, st, fr, callee, args, ops)


def model_range_from(engine, st, fr, callee, args, ops):
    """`table[start..]`: the elements from `start` on (panics when start > len). A start that depends on the looked-up number
    is split into its feasible concrete values (at most 8)."""
    base_ref = args[0]
    arr = sym._deref_arg(engine, st, base_ref)
    rng = args[1]
    start = rng.fields[0] if isinstance(rng, sym.Adt) else rng
    n = len(arr.items)
    vals = []
    sv = z3.simplify(start)
    if z3.is_bv_value(sv):
        vals = [(True, sv.as_long())]
    else:
        s_ = z3.Solver()
        for c in st.pc:
            s_.add(c)
        while len(vals) < 9 and s_.check() == z3.sat:
            v = s_.model().eval(start, model_completion=True).as_long()
            vals.append((start == z3.BitVecVal(v, start.size()), v))
            s_.add(start != z3.BitVecVal(v, start.size()))
        if len(vals) > 8:
            raise mir.Unsupported("slice start takes more than 8 values")
    alts = []
    for c, v in vals:
        if v > n:
            alts.append((c, sym.Panic(("slice start index out of range", fr.fn.name, fr.bb))))
        else:
            alts.append((c, sym.Adt("Slice", None, [base_ref, v])))
    return alts[0][1] if len(alts) == 1 and alts[0][0] is True else sym.Fork(alts)


def _first_match(engine, st, args, by_ref, result):
    """first element of the iterator for which the closure (run from its MIR) holds -> result(index, element reference)"""
    items = itermodels._citer(engine, st, args[0])
    clo = args[1]
    fn = engine.resolve_fn(clo.name if isinstance(clo, sym.FnV) else str(clo))
    # closure value lives in a fresh cell so that `&mut closure` can be passed
    cell = ("h", "closure%d" % st.uid)
    st.mem[cell] = clo
    alts = []
    for i, item_ref in enumerate(items):
        arg = item_ref
        cellr = None
        if by_ref:
            cellr = ("h", "itemref%d_%d" % (st.uid, i))
            st.mem[cellr] = item_ref
            arg = sym.Ref(cellr, ())
        res = engine.call_pure(st, fn, [sym.Ref(cell, (), True), arg])
        conds = []
        for r in res:
            if r.status != "return":
                raise mir.Unsupported("find closure did not return: %s" % r)
            extra = r.pc[len(st.pc):]
            conds.append(z3.And(*(extra + [r.value])) if extra else r.value)
        c = z3.simplify(z3.Or(*conds)) if len(conds) > 1 else z3.simplify(conds[0])
        alts.append((c, sym.Adt("Option", "Some", [result(i, item_ref)])))
        if cellr is not None:
            del st.mem[cellr]
    st.events.append(("find", len(items)))
    return sym.FirstMatch(alts, sym.Adt("Option", "None", []))


def model_find(engine, st, fr, callee, args, ops):
    """<slice::Iter as Iterator>::find(closure): first element for which the closure (run from its MIR) holds."""
    return _first_match(engine, st, args, True, lambda i, r: r)


def model_position(engine, st, fr, callee, args, ops):
    """<slice::Iter as Iterator>::position(closure): index (from the iterator's start) of the first such element."""
    return _first_match(engine, st, args, False, lambda i, r: z3.BitVecVal(i, 64))


def model_same_impl(engine, st, fr, callee, args, ops):
    """`Self::lookup_opcode(..)` called from `get` of the same table type: the callee of the caller's own impl block, from its MIR"""
    import re as _re
    m_ = _re.match(r"^(.*<impl at [^>]*>)::", fr.fn.name)     # also from a closure inside the method
    impl_ = m_.group(1) if m_ else fr.fn.name.rsplit("::", 1)[0]
    last = callee.rsplit("::", 1)[1]
    for mf in engine.mirs:
        c = [x for x in mf.find(last) if "closure" not in x[0] and x[0].rsplit("::", 1)[0] == impl_]
        if len(c) == 1:
            return sym.Inline(mf.parse_item(c[0][2]), args, None)
    raise mir.Unsupported("cannot resolve %s within %s" % (callee, impl_))


def closure_name_of(callee):
    return callee


MODELS = [
    (r"Index<(std::ops::)?RangeFrom<usize>>>::index$", model_range_from),
    (r"^core::slice::<impl \[.*\]>::iter$", model_slice_iter),
    (r"as Iterator>::find::<\{closure@", model_find),
    (r"as Iterator>::position::<\{closure@", model_position),
    (r"^\w+InstructionTable::\w+$", model_same_impl),
]

SPECIAL_KINDS = {"IdResultType", "IdResult", "LiteralContextDependentNumber", "PairLiteralIntegerIdRef",
                 "LiteralSpecConstantOpInteger"}


def run(ctx):
    q = Q(ctx, cross_every=400)
    eng0, mf, ms, registry = gtables.engine_and_mir()
    T = gtables.load_tables()
    enums, _ = tables.spirv_decls()
    ctx.trusted += ["rustc MIR dump", "mirsym", "std contracts: slice::iter yields the elements in order; Iterator::find returns the first element satisfying the predicate; Option::expect panics on None",
                    "z3 (cvc5 sample)", "reference/snapshot.json = generator output at the pinned commit (stand-in for the Khronos JSON, absent here)"]
    ctx.bounds.append("lookup: all 2^16 core opcode numbers, all 2^32 extended-instruction numbers; all entries, all operand positions")
    rp = Replay()
    spec_tables = {
        "core": (gtables.TABLES["core"], 16, "Op"),
        "glsl": (gtables.TABLES["glsl"], 32, "GLOp"),
        "opencl": (gtables.TABLES["opencl"], 32, "CLOp"),
    }
    for key, (hint, width, ename) in spec_tables.items():
        entries = T[key]
        decl = enums[ename]
        D = sorted(set(v for _, v in decl["variants"]))
        names_of = {}
        for nme, v in decl["variants"]:
            names_of.setdefault(v, []).append(nme)
        # ---- D fits the lookup width (no aliasing by `as u16`)
        if width == 16:
            x, y = z3.BitVec("x", 32), z3.BitVec("y", 32)
            inDx = z3.Or(*[x == v for v in D])
            inDy = z3.Or(*[y == v for v in D])
            st, m = q.check([inDx, inDy, x != y, z3.Extract(15, 0, x) == z3.Extract(15, 0, y)], "u16-truncation-injective")
            ctx.ob("%s/opcode-as-u16-injective" % key, st == "unsat" or (False if st == "sat" else None))
            if st == "sat":
                xv, yv = m.eval(x, model_completion=True).as_long(), m.eval(y, model_completion=True).as_long()
                ra, rb = rp.ask("from_u32 Op %d" % xv), rp.ask("from_u32 Op %d" % yv)
                if ra.get("some") and rb.get("some"):
                    ctx.violation("grammar/%s/u16-alias" % key, "two declared opcodes share their low 16 bits: %d %d" % (xv, yv), {"cmd": "from_u32 Op %d" % xv, "real": [ra, rb]})
                else:
                    ctx.inconclusive.append(("%s/opcode-as-u16-injective" % key, "model-only: %s %s" % (ra, rb)))
        try:
            symbolic_lookups(ctx, q, rp, eng0, mf, ms, registry, key, hint, width, ename, entries, D, names_of)
        except mir.Unsupported as ex:
            ctx.ob("%s/lookup/encodable" % key, None, "lookup/get of the %s table cannot be encoded: %s" % (key, ex))
        # validate the MIR-evaluated table against the compiled crate on every entry
        for e in entries:
            real = rp.ask("lookup %s %d" % (key, e["opcode"]))
            ctx.validated += 1
            kn, qn = T["kind_names"], T["quant_names"]
            mine = [[kn[a], qn[b]] for a, b in e["operands"]]
            first = [f for f in entries if f["opcode"] == e["opcode"]][0]
            if first is e and not real.get("found") and e["opcode"] in names_of:
                # the compiled crate itself fails to find a declared opcode: a direct, replayed violation
                ctx.ob("%s/real-lookup-finds-declared/%s" % (key, e["opname"]), False)
                ctx.violation("grammar/%s/lookup-misses-declared/%s" % (key, names_of[e["opcode"]][0]),
                              "%s lookup_opcode(%d) is None on the compiled crate although %s is declared and has a table entry" % (key, e["opcode"], e["opname"]),
                              {"cmd": "lookup %s %d" % (key, e["opcode"]), "real": real})
            elif first is e and (real.get("opname") != e["opname"] or real.get("operands") != mine):
                ctx.ob("%s/table-extraction-matches-compiled/%s" % (key, e["opname"]), None, "real=%s mine=%s" % (real, mine))
        # ---- every entry's number converts to an enumerant on the compiled crate (the table and the enumeration agree both ways)
        for num_, nm_ in sorted(set((e["opcode"], e["opname"]) for e in entries)):
            real = rp.ask("from_u32 %s %d" % (ename, num_))
            if real.get("some") is False:
                ctx.ob("%s/entry-is-an-enumerant/%s" % (key, nm_), False)
                ctx.violation("grammar/%s/entry-without-enumerant/%s" % (key, nm_), "%s table has an entry %s = %d but %s::from_u32(%d) is None" % (key, nm_, num_, ename, num_),
                              {"cmd": "from_u32 %s %d" % (ename, num_), "real": real})
                break
        # ---- well-formedness, as SMT over the entry arrays
        wellformed(ctx, q, key, entries, T)
        # ---- snapshot
        snapshot_diff(ctx, key, entries, T)
    # the names the tables are asked with: `Op`'s variants AND its alias constants carry the pinned numbers (C08's leg, for Op)
    import c08
    import tables as _tables
    enums_, masks_ = _tables.spirv_decls()
    import common as _common
    _common.composed(ctx, "C08-pinned-numbers", lambda: c08.snapshot_agreement(ctx, rp, enums_, masks_, only=("Op", "GLOp", "CLOp")))
    rp.close()
    ctx.extra["cvc5"] = q.summary()
    ctx.extra["entries"] = {k: len(T[k]) for k in ("core", "glsl", "opencl")}
    ctx.extra["explanation"] = ("lookup_opcode/get of the three tables are symbolically executed from MIR over all numbers; the tables are the "
                                "values of rustc's promoted constants; well-formedness is a z3 query with symbolic entry and operand indices over "
                                "array-encoded tables; grammar agreement is a semantic diff against the pinned snapshot.")


def symbolic_lookups(ctx, q, rp, eng0, mf, ms, registry, key, hint, width, ename, entries, D, names_of):
    # ---- lookup_opcode(n) from MIR
    cands = [c for c in mf.find("lookup_opcode") if "closure" not in c[0] and uses_static(mf, c[2], hint)]
    if len(cands) != 1:
        raise Inconclusive("lookup_opcode of %s table: %d candidates" % (key, len(cands)))
    fn = mf.parse_item(cands[0][2])
    n = z3.BitVec("n", width)
    eng = sym.Engine([mf, ms], registry, models=MODELS, eager=True, max_steps=10 ** 7, loop_bound=len(entries) + 2)   # a lookup written as a plain loop runs once per entry
    eng._const_cache, eng._const_mem = eng0._const_cache, getattr(eng0, "_const_mem", {})
    res = eng.run(fn, [n])
    ctx.functions.update(eng.stats.functions)
    inD = z3.Or(*[n == z3.BitVecVal(v, width) for v in D])
    hit_idx = set()
    for r in res:
        if r.status != "return":
            st, m = q.check(r.pc, "lookup/reach")
            ctx.ob("%s/lookup/no-panic" % key, st == "unsat" or None, str(r.info))
            continue
        v = r.value
        if v.variant == "None":
            st, m = q.check(r.pc + [inD], "lookup/declared-found")
            if st == "sat":
                w = m.eval(n, model_completion=True).as_long()
                real = rp.ask("lookup %s %d" % (key, w))
                if not real.get("found"):
                    ctx.ob("%s/lookup/declared=>found" % key, False, "n=%d" % w)
                    ctx.violation("grammar/%s/lookup-misses-declared/%s" % (key, names_of[w][0]),
                                  "%s lookup_opcode(%d) is None although %s::%s = %d is declared" % (key, w, ename, names_of[w][0], w),
                                  {"cmd": "lookup %s %d" % (key, w), "real": real})
                else:
                    ctx.ob("%s/lookup/declared=>found" % key, None, "model %d does not reproduce" % w)
            else:
                ctx.ob("%s/lookup/declared=>found" % key, st == "unsat" or None)
            continue
        ref = v.fields[0]
        idx = ref.path[-1][1]
        hit_idx.add(idx)
        e = entries[idx]
        # found entry carries the requested number, a declared one, under its declared name
        st, m = q.check(r.pc + [z3.Or(n != z3.BitVecVal(e["opcode"] & ((1 << width) - 1), width), z3.Not(inD))], "lookup/found-is-n")
        if st == "sat":
            w = m.eval(n, model_completion=True).as_long()
            real = rp.ask("lookup %s %d" % (key, w))
            if real.get("found") and (real.get("opcode") != w or w not in names_of):
                ctx.ob("%s/lookup/found-is-n/%d" % (key, idx), False)
                ctx.violation("grammar/%s/lookup-wrong-entry/%s" % (key, e["opname"]), "lookup_opcode(%d) returns entry %s (%d)" % (w, e["opname"], e["opcode"]),
                              {"cmd": "lookup %s %d" % (key, w), "real": real})
            else:
                ctx.ob("%s/lookup/found-is-n/%d" % (key, idx), None, "model %d does not reproduce: %s" % (w, real))
        else:
            ctx.ob("%s/lookup/found-is-n/%d" % (key, idx), st == "unsat" or None)
        nm_ok = e["opname"] in names_of.get(e["opcode"], [])
        if key != "core":
            # extended tables carry the instruction's own spelling; the enum uses the same spelling
            nm_ok = nm_ok or e["opname"].lower() in [x.lower() for x in names_of.get(e["opcode"], [])]
        ctx.ob("%s/entry-name/%s" % (key, e["opname"]), True if nm_ok else False)
        if not nm_ok:
            ctx.violation("grammar/%s/entry-name/%s" % (key, e["opname"]),
                          "entry named %s carries opcode %d (= %s)" % (e["opname"], e["opcode"], names_of.get(e["opcode"])),
                          {"cmd": "lookup %s %d" % (key, e["opcode"])})
    # entries never returned by any lookup are shadowed duplicates (or unreachable)
    truncated = any(r_.status == "loop_bound" for r_ in res)
    unreached = [i for i in range(len(entries)) if i not in hit_idx]
    if unreached and (truncated or len(unreached) > 8):
        # the exploration did not cover the whole table (a lookup written as a loop longer than the unrolling bound): no verdict
        ctx.ob("%s/lookup/covers-the-table" % key, None, "%d of %d entries were not reached by the symbolic lookup (exploration bound)" % (len(unreached), len(entries)))
        unreached = []
    for i in unreached:
        e = entries[i]
        first = [j for j, f in enumerate(entries) if f["opcode"] == e["opcode"]][0]
        real = rp.ask("lookup %s %d" % (key, e["opcode"]))
        if first != i or not real.get("found") or real.get("opname") != e["opname"]:
            ctx.ob("%s/entry-reachable/%s" % (key, e["opname"]), False, "shadowed by entry %d" % first)
            ctx.violation("grammar/%s/duplicate-opcode/%s" % (key, e["opname"]),
                          "entry %s (opcode %d) can never be returned by lookup_opcode: entry %s precedes it (the compiled crate answers %s)" % (
                              e["opname"], e["opcode"], entries[first]["opname"], real.get("opname")), {"cmd": "lookup %s %d" % (key, e["opcode"]), "real": real})
        else:
            ctx.ob("%s/entry-reachable/%s" % (key, e["opname"]), None, "not reached by the symbolic lookup, but the compiled crate returns it")
    # ---- get(op) is total on declared opcodes
    gc = [c for c in mf.find("get") if "closure" not in c[0] and "syntax.rs" in c[0] and uses_static(mf, c[2], hint)]
    if not gc:
        # `get` may go through `lookup_opcode` instead of touching the table itself: take the `get` of the same impl block
        impl_ = cands[0][0].rsplit("::", 1)[0]
        gc = [c for c in mf.find("get") if "closure" not in c[0] and c[0].rsplit("::", 1)[0] == impl_]
    if len(gc) != 1:
        raise Inconclusive("get of %s table: %d candidates" % (key, len(gc)))
    gfn = mf.parse_item(gc[0][2])
    op = z3.BitVec("op", 32)
    validop = z3.Or(*[op == z3.BitVecVal(v, 32) for v in D])
    eng = sym.Engine([mf, ms], registry, models=MODELS, eager=True, max_steps=10 ** 7, loop_bound=len(entries) + 2)   # a lookup written as a plain loop runs once per entry
    eng._const_cache, eng._const_mem = eng0._const_cache, getattr(eng0, "_const_mem", {})
    res = eng.run(gfn, [op], pc=[validop])
    ctx.functions.update(eng.stats.functions)
    for r in res:
        if r.status == "panic":
            st, m = q.check(r.pc, "get/total")
            if st == "sat":
                w = m.eval(op, model_completion=True).as_long()
                real = rp.ask("get %s %d" % (key, w))
                if "panic" in real:
                    ctx.ob("%s/get/total" % key, False, "op=%d" % w)
                    ctx.violation("grammar/%s/get-panics/%s" % (key, names_of[w][0]), "%s table get(%s) panics" % (key, names_of[w][0]),
                                  {"cmd": "get %s %d" % (key, w), "real": real})
                else:
                    ctx.ob("%s/get/total" % key, None, "model does not reproduce")
            else:
                ctx.ob("%s/get/total" % key, st == "unsat" or None)
        elif r.status == "return":
            idx = r.value.path[-1][1]
            st, m = q.check(r.pc + [op != z3.BitVecVal(entries[idx]["opcode"], 32)], "get/returns-op")
            ctx.ob("%s/get/returns-requested/%d" % (key, idx), st == "unsat" or (False if st == "sat" else None))
            if st == "sat":
                wv = m.eval(op, model_completion=True).as_long()
                real = rp.ask("get %s %d" % (key, wv))
                if "panic" in real or ("opcode" in real and real.get("opcode") != wv):
                    ctx.violation("grammar/%s/get-wrong-entry/%s" % (key, entries[idx]["opname"]), "get(%d) returns the entry of opcode %s" % (wv, real.get("opcode")),
                                  {"cmd": "get %s %d" % (key, wv), "real": real})
                else:
                    ctx.inconclusive.append(("%s/get/returns-requested/%d" % (key, idx), "model-only: the compiled crate answers %s" % str(real)[:160]))
        else:
            ctx.ob("%s/get/path" % key, None, str(r))


def uses_static(mf, line, static_name):
    """Does the MIR item starting at `line` reference `static_name` (allocation notes printed after the body)?"""
    pat = "(static: %s," % static_name
    for i in range(line + 1, min(line + 20000, len(mf.lines))):
        ln = mf.lines[i]
        if ln.startswith("fn "):
            return False
        if pat in ln:
            return True
    return False


def wellformed(ctx, q, key, entries, T):
    kn, qn = T["kind_names"], T["quant_names"]
    kind_id = {v: k for k, v in kn.items()}
    quant_id = {v: k for k, v in qn.items()}
    I = z3.IntSort()
    LEN = z3.K(I, z3.IntVal(0))
    KIND = z3.K(I, z3.K(I, z3.IntVal(-1)))
    QUANT = z3.K(I, z3.K(I, z3.IntVal(-1)))
    for i, e in enumerate(entries):
        LEN = z3.Store(LEN, i, len(e["operands"]))
        ka = z3.K(I, z3.IntVal(-1))
        qa = z3.K(I, z3.IntVal(-1))
        for j, (k, qq) in enumerate(e["operands"]):
            ka = z3.Store(ka, j, k)
            qa = z3.Store(qa, j, qq)
        KIND = z3.Store(KIND, i, ka)
        QUANT = z3.Store(QUANT, i, qa)
    i, j, k2 = z3.Ints("i j k")
    ent = [i >= 0, i < len(entries), j >= 0, j < LEN[i]]
    kind = lambda a: KIND[i][a]
    quant = lambda a: QUANT[i][a]
    RT, RID = kind_id["IdResultType"], kind_id["IdResult"]
    ONE, OPT, MANY = quant_id["One"], quant_id["ZeroOrOne"], quant_id["ZeroOrMore"]
    rules = {
        "result-type-only-first": [kind(j) == RT, j != 0],
        "result-id-only-after-type-or-first": [kind(j) == RID, z3.Not(z3.Or(j == 0, z3.And(j == 1, kind(0) == RT)))],
        "result-type-followed-by-result-id-or-operand": [kind(j) == RT, quant(j) != ONE],
        "result-id-is-required": [kind(j) == RID, quant(j) != ONE],
        "no-required-after-optional": [k2 >= 0, k2 < j, quant(k2) != ONE, quant(j) == ONE],
        "variadic-only-last": [quant(j) == MANY, j != LEN[i] - 1],
    }
    if key == "core":
        # special kinds only where the parser handles them
        CD, PAIR, SCO = kind_id["LiteralContextDependentNumber"], kind_id["PairLiteralIntegerIdRef"], kind_id["LiteralSpecConstantOpInteger"]
        OPC = z3.K(I, z3.IntVal(-1))
        for x, e in enumerate(entries):
            OPC = z3.Store(OPC, x, e["opcode"])
        by = {e["opname"]: e["opcode"] for e in entries}
        rules["context-dependent-literal-only-in-constant"] = [kind(j) == CD, z3.Not(z3.Or(OPC[i] == by.get("Constant", -2), OPC[i] == by.get("SpecConstant", -2)))]
        rules["context-dependent-literal-after-result-type"] = [kind(j) == CD, kind(0) != RT]
        rules["pair-literal-idref-only-in-switch"] = [kind(j) == PAIR, z3.Or(OPC[i] != by.get("Switch", -2), kind(0) != kind_id["IdRef"])]
    for name, cond in rules.items():
        st, m = q.check(ent + cond, "wellformed")
        if st == "sat":
            ii = m.eval(i, model_completion=True).as_long()
            e = entries[ii]
            ctx.ob("%s/wellformed/%s" % (key, name), False, e["opname"])
            ctx.violation("grammar/%s/malformed/%s/%s" % (key, name, e["opname"]),
                          "entry %s violates %s: %s" % (e["opname"], name, [[kn[a], qn[b]] for a, b in e["operands"]]),
                          {"cmd": "lookup %s %d" % (key, e["opcode"])})
        else:
            ctx.ob("%s/wellformed/%s" % (key, name), st == "unsat" or None)


def snapshot_diff(ctx, key, entries, T):
    snap = json.load(open(os.path.join(VERIF, "reference", "snapshot.json")))["grammar"][key]
    kn, qn = T["kind_names"], T["quant_names"]
    cur = {e["opcode"]: e for e in entries}
    old = {e["opcode"]: e for e in snap}
    for oc in sorted(set(cur) | set(old)):
        a, b = cur.get(oc), old.get(oc)
        nm = (a or b)["opname"]
        if a is None or b is None:
            ctx.ob("%s/snapshot/%s" % (key, nm), False, "entry %s" % ("missing" if a is None else "not in the pinned grammar"))
            ctx.violation("grammar/%s/snapshot/presence/%s" % (key, nm), "entry %s %s" % (nm, "is missing" if a is None else "is not in the pinned grammar"),
                          {"cmd": "lookup %s %d" % (key, oc)})
            continue
        mine = [[kn[x], qn[y]] for x, y in a["operands"]]
        diffs = []
        if a["opname"] != b["opname"]:
            diffs.append("name %s != %s" % (a["opname"], b["opname"]))
        if mine != b["operands"]:
            diffs.append("operands %s != %s" % (mine, b["operands"]))
        if sorted(a["caps"]) != sorted(b["caps"]):
            diffs.append("capabilities %s != %s" % (a["caps"], b["caps"]))
        if sorted(a["exts"]) != sorted(b["exts"]):
            diffs.append("extensions %s != %s" % (a["exts"], b["exts"]))
        ctx.ob("%s/snapshot/%s" % (key, nm), not diffs, "; ".join(diffs) or None)
        if diffs:
            ctx.violation("grammar/%s/snapshot/%s" % (key, nm), "entry %s differs from the pinned grammar: %s" % (nm, "; ".join(diffs)),
                          {"cmd": "lookup %s %d" % (key, oc)})
