"""C07 — disassembly is a complete, unambiguous rendering of the instruction stream (partially decidable, see DESIGN §6 C07).

Decided on the real code:
  T+SMT  mask rendering: every `impl Disassemble for <Mask>`: each declared single bit is tested exactly once, in ascending order,
         under a name distinct from the others and equal to the pinned specification name; z3: for v1 != v2 (any subsets of the
         declared bits) the emitted name lists differ; empty => "None";
  M2     `<Operand as Disassemble>::disassemble` (MIR), all Operand discriminants: every mask variant is routed to its name table,
         every id variant to `%<id>`, everything else to Display;
  T      Display of enumerant variants prints the variant name (Dim: with the `Dim` prefix stripped, names stay distinct);
  M2     `disas_literal_bit` for u32 and u64 (MIR): Integer(_, true) => signed cast of the SAME width, Integer(_, false) => unsigned,
         Float => from_bits of the same width;
  M2     `disas_constant` picks the literal rule from the tracked type of the result type (C04 decides its panic edges);
  M2     the module walk: `Module::disassemble` renders header, global instructions in `global_inst_iter()` order, then per function
         def, parameters, per block label + instructions, end (z3 sequences, the machinery of C15), one line each;
  M2     `disas_instruction`: the five format arguments are result id, opcode name, result type, space, operands, in this order.
Not decided here: injectivity of the final text through core::fmt (integer/float Display, {:?} escaping of strings) — assumed."""
import json
import os
import re
import z3
import sym
import mir
import tables
import parsersym
import reg as regmod
import c15
from common import mir_path, Inconclusive, Replay, VERIF
from smt import Q

LEVEL = "other"


def fmt_models():
    def new_arg(kind):
        def h(engine, st, fr, callee, args, ops):
            return sym.Adt("FmtArg", kind, [args[0]])
        return h

    def new_args(engine, st, fr, callee, args, ops):
        return sym.Adt("FmtArgs", None, list(args))

    def fmt(engine, st, fr, callee, args, ops):
        return sym.Adt("Formatted", None, [args[0]])

    def ident(engine, st, fr, callee, args, ops):
        return args[0]

    def to_string(engine, st, fr, callee, args, ops):
        m = re.match(r"^<(.*) as ToString>::to_string$", callee)
        st.events.append(("to_string", m.group(1) if m else callee, sym._deref_arg(engine, st, args[0])))
        return sym.Adt("ToString", m.group(1) if m else "?", [sym._deref_arg(engine, st, args[0])])
    return [
        (r"^core::fmt::rt::Argument::<'_>::new_display::<", new_arg("display")),
        (r"^core::fmt::rt::Argument::<'_>::new_debug::<", new_arg("debug")),
        (r"^Arguments::<'_>::new(_const|_v1)?::<", new_args),
        (r"^(std::fmt::|alloc::fmt::)?format$", fmt),
        (r"^must_use::<", ident),
        (r"as ToString>::to_string$", to_string),
        (r"^(std::string::)?String::new$", lambda e, s, f, c, a, o: sym.Adt("String", "empty", [])),
    ]


def run(ctx):
    q = Q(ctx, cross_every=50)
    S = parsersym.Setting()
    registry, mf = S.registry, S.mf
    enums, masks = S.enums, S.masks
    ctx.trusted += ["token reader for the generated name tables", "reference/snapshot.json (pinned specification names)", "rustc MIR", "mirsym", "z3"]
    ctx.assumptions += ["std's Display for integers/floats and Debug for str are injective (the final text is not modelled)",
                        "'two different streams never share a disassembly' is claimed only up to these token-level facts; NaN payloads excepted as the property states"]
    ctx.bounds.append("all subsets of declared bits of all 15 masks; all Operand discriminants; module walk for 2 functions x 2 blocks with free section contents")
    rp = Replay()
    snap = json.load(open(os.path.join(VERIF, "reference", "snapshot.json")))["disas_masks"]
    # ---------------- mask rendering
    D = tables.disas_mask_tables()
    for mask in sorted(masks):
        d = D.get(mask)
        if d is None:
            consts0 = dict(masks[mask]["consts"])
            want0 = dict((consts0.get(n), nm) for n, nm in snap.get(mask, {"bits": []})["bits"])
            b0 = sorted(b for b in want0 if b)[0] if [b for b in want0 if b] else None
            real = rp.ask("disas_operand %s %d" % (mask, b0)) if b0 is not None else {}
            if b0 is not None and real.get("text") != want0[b0]:
                ctx.ob("mask-names/%s/has-table" % mask, False)
                ctx.violation("disassemble/mask/%s/no-name-table" % mask, "spirv::%s has no name table: bit %#x is rendered as %r, the specification name is %s" % (
                    mask, b0, real.get("text"), want0[b0]), {"cmd": "disas_operand %s %d" % (mask, b0), "real": real})
            else:
                ctx.ob("mask-names/%s/has-table" % mask, None, "no `impl Disassemble for spirv::%s` found by the token reader, but the compiled crate renders %r" % (mask, real.get("text")))
            continue
        consts = dict(masks[mask]["consts"])
        single = {n: b for n, b in consts.items() if b and bin(b).count("1") == 1}
        v1, v2 = z3.BitVecs("v1 v2", 32)
        allb = 0
        for b in consts.values():
            allb |= b
        dec = lambda v: (v & z3.BitVecVal(~allb & 0xffffffff, 32)) == 0
        tests = [(consts.get(n), name) for n, name in d["bits"]]
        if any(b is None for b, _ in tests):
            ctx.ob("mask-names/%s/bits-declared" % mask, False, str(d["bits"]))
            continue
        # distinct streams => distinct renderings: same pattern of contains() AND same emptiness => equal values
        def shown(v, i):
            # the i-th name is printed iff its bit test holds and, for an `else if` arm, none of the earlier tests of its chain did
            b = tests[i][0]
            c = (v & b) == b
            for pj in d.get("else_of", {}).get(i, []):
                c = z3.And(c, (v & tests[pj][0]) != tests[pj][0])
            return c
        same = z3.And(*[shown(v1, i) == shown(v2, i) for i in range(len(tests))]) if tests else z3.BoolVal(True)
        st, m = q.check([dec(v1), dec(v2), v1 != v2, same], "mask-injective")
        names = [nm for _, nm in tests]
        dup = sorted(set(n for n in names if names.count(n) > 1))
        asc = [b for b, _ in tests] == sorted(b for b, _ in tests)
        want = snap.get(mask, {"bits": [], "empty": "None"})
        snapnames = {consts.get(n): nm for n, nm in want["bits"]}
        wrong = [(nm, snapnames.get(b)) for b, nm in tests if snapnames.get(b) != nm]
        good = st == "unsat" and not dup and asc and d["empty"] == "None" and not wrong and d["sep"] == "|"
        ctx.ob("mask-names/%s" % mask, True if good else False, None if good else "injective=%s duplicates=%s ascending=%s wrong-names=%s empty=%r" % (st, dup, asc, wrong, d["empty"]))
        if not good:
            w = m.eval(v1, model_completion=True).as_long() if st == "sat" else (tests[[n for _, n in tests].index(dup[0])][0] if dup else (wrong and [b for b, nm in tests if snapnames.get(b) != nm][0]) or 0)
            w2 = m.eval(v2, model_completion=True).as_long() if st == "sat" else None
            real = rp.ask("disas_operand %s %d" % (mask, w))
            real2 = rp.ask("disas_operand %s %d" % (mask, w2)) if w2 is not None else None
            ctx.violation("disassemble/mask/%s/%s" % (mask, "ambiguous" if (st == "sat" or dup) else "names"),
                          "spirv::%s: %s; %#x renders as %s%s" % (mask, "two values share a rendering" if st == "sat" else ("duplicate names %s" % dup if dup else "names differ from the specification %s" % wrong),
                                                                 w, real.get("text"), (", %#x as %s" % (w2, real2.get("text"))) if real2 else ""),
                          {"cmd": "disas_operand %s %d" % (mask, w), "real": real})
    # ---------------- Operand::disassemble routing
    routing(ctx, S, rp)
    # ---------------- enumerant names through Display
    display_names(ctx)
    display_arms(ctx, S, rp)
    ext_inst_names(ctx, rp)
    # ---------------- literal rule
    literal_rule(ctx, q, S, rp)
    constant_injective(ctx, q, S, rp)
    version_line(ctx, q, S, rp)
    # ---------------- line format and module walk
    line_format(ctx, S)
    module_walk(ctx, q, S)
    rp.close()
    ctx.validated = rp.count
    ctx.extra["cvc5"] = q.summary()
    ctx.extra["explanation"] = "Name tables as z3 functions of the mask value; routing, literal rule, line format and module walk from MIR."


def routing(ctx, S, rp):
    registry, mf = S.registry, S.mf
    c = [x for x in mf.find("disassemble") if re.search(r"\(_1: &(\w+::)*Operand\)", mf.lines[x[2]])]
    if len(c) != 1:
        raise Inconclusive("Operand::disassemble: %d candidates" % len(c))
    fn = mf.parse_item(c[0][2])
    e = registry.lookup("constructs::Operand")
    import c02
    ptypes = c02.operand_payload_types()

    def m_mask_impl(engine, st, fr, callee, args, ops):
        m = re.match(r"^<(?:spirv::)?(\w+) as Disassemble>::disassemble$", callee)
        return sym.Adt("Text", "mask-table:" + m.group(1), [])
    for variant, disc in e["variants"]:
        ty = ptypes.get(variant, "u32")
        payload = sym.Sym("s", "String") if ty == "String" else z3.BitVec("p", 64 if ty == "u64" else 32)
        eng = sym.Engine([mf], registry, models=[(r"^<(spirv::)?\w+ as Disassemble>::disassemble$", m_mask_impl)] + fmt_models(), eager=True)
        opv = sym.Adt("dr::constructs::Operand", variant, [payload])
        res = eng.run(fn, [sym.Ref(("h", "op"), ())], mem={("h", "op"): opv})
        if len(res) != 1 or res[0].status != "return":
            ctx.ob("routing/%s" % variant, None, str(res[:2]))
            continue
        v = res[0].value
        kind = ty[7:] if ty.startswith("spirv::") else ty
        if kind in S.masks:
            good = isinstance(v, sym.Adt) and v.ty == "Text" and v.variant == "mask-table:" + kind
            ctx.ob("routing/%s->name-table" % variant, True if good else False, None if good else "rendered through %r" % (v,))
            if not good:
                bit = [b for _, b in S.masks[kind]["consts"] if b][0]
                real = rp.ask("disas_operand %s %d" % (variant, bit))
                ctx.violation("disassemble/operand-routing/%s" % variant,
                              "Operand::%s is not rendered through the %s name table: a value with one bit set prints as %s" % (variant, kind, real.get("text")),
                              {"cmd": "disas_operand %s %d" % (variant, bit), "real": real})
        elif variant in ("IdRef", "IdScope", "IdMemorySemantics"):
            good = isinstance(v, sym.Adt) and v.ty == "Formatted"
            if good:
                fa = v.fields[0].fields[-1]
                if isinstance(fa, sym.Ref):
                    fa = eng.read_at(_mkstate(res[0].mem), fa.root, fa.path)
                args_ = fa.items if isinstance(fa, sym.Arr) else []
                good = len(args_) == 1 and isinstance(args_[0], sym.Adt) and args_[0].variant == "display"
                tmpl = v.fields[0].fields[0]
                good = good and ("%" in repr(tmpl))
            ctx.ob("routing/%s->%%id" % variant, True if good else None, None if good else repr(v)[:200])
        else:
            good = isinstance(v, sym.Adt) and v.ty == "Formatted"
            ctx.ob("routing/%s->Display" % variant, True if good else None, None if good else repr(v)[:200])


def display_names(ctx):
    """`Operand::V(ref v) => write!(f, "{:?}", v)` for every enumerant variant (derive(Debug) prints the variant name, C08)."""
    s = tables.src("rspirv/dr/autogen_operand.rs")
    txt = " ".join(t.v for t in s.toks)
    i = txt.index("impl fmt :: Display for Operand")
    j = txt.index("impl", i + 10)
    body = txt[i:j]
    enums, masks = tables.spirv_decls()
    n = 0
    for m in re.finditer(r"Operand :: (\w+) \( ref v \) => write ! \( f , (\"[^\"]*\") , ([^)]*\)?[^)]*) \) ,", body):
        variant, fmtstr, arg = m.group(1), m.group(2), m.group(3).strip()
        if variant in enums and variant != "Dim":
            ok = fmtstr == '"{:?}"' and arg == "v"
            ctx.ob("display/%s-prints-variant-name" % variant, True if ok else None, None if ok else "%s %s" % (fmtstr, arg))
            n += 1
    dim = [nm[3:] for nm, _ in enums["Dim"]["variants"] if nm.startswith("Dim")]
    ok = len(dim) == len(set(dim)) == len(enums["Dim"]["variants"])
    ctx.ob("display/Dim-prefix-strip-keeps-names-distinct", True if ok else False)
    ctx.extra["enumerant_display_arms"] = n


def ext_inst_names(ctx, rp):
    """'extended-instruction numbers by name when the imported set is GLSL.std.450 or OpenCL.std': for EVERY entry of the two
    extended tables (the values rustc computes for the table constants) an OpExtInst with that number, in a module importing the
    set, is disassembled with the entry's name; a number outside the table stays a number. (The lookups themselves are decided
    for all 2^32 numbers in C09; this is the composition with the disassembler on the compiled crate.)"""
    import gtables
    import c03
    T = gtables.load_tables()
    le = c03.le
    sets = {"glsl": "474c534c" "2e737464" "2e343530" "00000000", "opencl": "4f70656e" "434c2e73" "74640000"}
    for key, name_hex in sets.items():
        entries = T[key]
        nums = {}
        for e in entries:
            nums.setdefault(e["opcode"], e["opname"])
        probe = sorted(set([0] + sorted(nums) + [max(nums) + 1, 0xffffffff]))
        bad = None
        for num in probe:
            nw = len(name_hex) // 8
            words = c03.HEADER + le((2 + nw) << 16 | 11) + le(1) + name_hex + le(2 << 16 | 19) + le(2) + le(3 << 16 | 33) + le(3) + le(2) + \
                le(5 << 16 | 54) + le(2) + le(4) + le(0) + le(3) + le(2 << 16 | 248) + le(5) + le(6 << 16 | 12) + le(2) + le(6) + le(1) + le(num) + le(6) + \
                le(1 << 16 | 253) + le(1 << 16 | 56)
            real = rp.ask("load_disassemble %s" % words)
            line = [l for l in real.get("text", "").split("\n") if "OpExtInst " in l]
            want = nums.get(num)
            if "panic" in real or not line:
                bad = (num, want, real, "no OpExtInst line")
                break
            toks = line[0].split()
            shown = toks[toks.index("OpExtInst") + 3] if "OpExtInst" in toks and len(toks) > toks.index("OpExtInst") + 3 else None
            if (want is not None and shown != want) or (want is None and shown != str(num)):
                bad = (num, want, real, "prints %r" % shown)
                break
        if bad is None:
            ctx.ob("ext-inst-names/%s/%d-numbers" % (key, len(nums)), True)
            continue
        num, want, real, what = bad
        ctx.ob("ext-inst-names/%s" % key, False, what)
        ctx.violation("disassemble/ext-inst-name/%s/%s" % (key, want or num), "OpExtInst %d of the imported set %s: %s, expected %s" % (
            num, "GLSL.std.450" if key == "glsl" else "OpenCL.std", what, want or ("the bare number %d" % num)), {"cmd": "load_disassemble", "real": real})


def display_arms(ctx, S, rp):
    """M2: `<Operand as Display>::fmt` for every Operand variant: the arm writes its payload through exactly ONE placeholder with
    no literal text around it (ids: the prefix `%`), strings through `{:?}` (quoted AND escaped, so a string cannot spill over
    the line or close its own quotes), numbers through `{}`, enumerants through `{:?}` (the variant name, C08)."""
    mf, registry = S.mf, S.registry
    c = [x for x in mf.find("fmt", kind="fn") if "autogen_operand.rs" in x[0] and re.search(r"\(_1: &(\w+::)*Operand, _2: &mut Formatter", mf.lines[x[2]])]
    # the derived Debug::fmt has the same signature: Display is the one that goes through write_fmt
    def body_has(ln, needle):
        k = ln + 1
        while k < len(mf.lines) and not mf.lines[k].startswith("}"):
            if needle in mf.lines[k]:
                return True
            k += 1
        return False
    c = [x for x in c if body_has(x[2], "write_fmt") and not body_has(x[2], "debug_tuple_field")]
    if len(c) != 1:
        ctx.ob("display-arms/encodable", None, "%d candidates for <Operand as Display>::fmt" % len(c))
        return
    fn = mf.parse_item(c[0][2])
    e = registry.lookup("constructs::Operand")
    payload_ty = __import__("c02").operand_payload_types()
    enums, masks = tables.spirv_decls()

    def m_write_fmt(engine, st, fr, callee, args, ops):
        st.events.append(("write_fmt", args[1]))
        return sym.Adt("Result", "Ok", [sym.UNIT])
    bad = []
    n = 0
    for variant, disc in e["variants"]:
        ty = payload_ty.get(variant)
        if ty is None:
            continue
        pv = sym.Sym("text", "String") if ty == "String" else z3.BitVec("payload", 64 if ty == "u64" else 32)
        eng = sym.Engine([mf], registry, models=[(r"^Formatter::<'_>::write_fmt$", m_write_fmt),
                                                 (r"^<(std::string::)?String as (std::ops::)?Index<(std::ops::)?RangeFrom<usize>>>::index$",
                                                  lambda en, st_, fr, cl, a, o: sym.Adt("StrSuffix", None, [a[0], a[1]]))] + fmt_models(), eager=True, loop_bound=3)
        try:
            res = eng.run(fn, [sym.Ref(("h", "op"), ()), sym.Sym("f", "Formatter")], mem={("h", "op"): sym.Adt("dr::constructs::Operand", variant, [pv])})
        except mir.Unsupported as ex:
            ctx.ob("display-arms/%s" % variant, None, "not encodable: %s" % str(ex)[:200])
            continue
        ctx.functions.update(eng.stats.functions)
        wf = [ev for r in res for ev in r.events if ev[0] == "write_fmt"]
        if len(res) != 1 or len(wf) != 1 or not (isinstance(wf[0][1], sym.Adt) and wf[0][1].ty == "FmtArgs"):
            ctx.ob("display-arms/%s" % variant, None, "%d paths, %d write_fmt calls" % (len(res), len(wf)))
            continue
        fa = wf[0][1]
        tmpl = fa.fields[0]
        tmpl_s = tmpl.root[1] if isinstance(tmpl, sym.Ref) and isinstance(tmpl.root, tuple) and tmpl.root[0] == "lit" else repr(tmpl)
        args_ = fa.fields[-1]
        if isinstance(args_, sym.Ref):
            args_ = eng.read_at(_mkstate(res[0].mem), args_.root, args_.path)
        kinds = [a.variant for a in args_.items] if isinstance(args_, sym.Arr) else []
        is_id = variant.startswith("Id")
        want_t = 'b"\\x01%\\xc0\\x00"' if is_id else 'b"\\xc0\\x00"'
        if ty == "String" or (variant in enums and variant != "Dim") or variant in masks or variant == "LiteralSpecConstantOpInteger":
            want_k = ["debug"]
        else:
            want_k = ["display"]
        n += 1
        ok = tmpl_s == want_t and kinds == want_k
        if want_k == ["display"] and kinds == ["debug"] and ty in ("u32", "u64") and variant not in enums and variant not in masks:
            ok = tmpl_s == want_t          # Debug and Display of the primitive integers print the same decimal digits
        if variant == "Dim":
            ok = tmpl_s == want_t and kinds == ["display"]
        ctx.ob("display-arms/%s" % variant, True if ok else False, None if ok else "template %s with %s; expected %s with %s" % (tmpl_s, kinds, want_t, want_k))
        if not ok:
            bad.append((variant, tmpl_s, kinds))
    ctx.extra["display_arms"] = n
    if not bad:
        return
    # native confirmation
    for variant, tmpl_s, kinds in bad[:3]:
        if variant == "LiteralString":
            le = __import__("c03").le
            txt = b'a"b\nOpNop\\\x00\x00'          # a"b<newline>OpNop<backslash>, NUL padded to 12 bytes
            txt = txt + b"\x00" * ((4 - len(txt) % 4) % 4)
            words = __import__("c03").HEADER + le((2 + len(txt) // 4) << 16 | 5) + le(1) + txt.hex()
            real = rp.ask("load_disassemble %s" % words)
            text = real.get("text", "")
            lines = [l for l in text.split("\n") if "OpName" in l or l.strip() == "OpNop" or l.startswith("OpNop")]
            want_line = 'OpName %1 "a\\"b\\nOpNop\\\\"'
            if real.get("loaded") and not any(l.strip() == want_line for l in text.split("\n")):
                ctx.violation("disassemble/string-not-escaped", "a string operand is not rendered quoted-and-escaped: OpName %%1 with the name a\"b<newline>OpNop\\ is disassembled as %r "
                              "(expected the single line %r)" % ([l for l in text.split("\n")[-3:]], want_line), {"cmd": "load_disassemble %s" % words, "real": real})
            else:
                ctx.inconclusive.append(("display-arms/%s/native" % variant, "model sees template %s %s but the compiled crate prints the escaped form" % (tmpl_s, kinds)))
        else:
            real = rp.ask("disas_operand %s %d" % (variant, 7))
            ctx.violation("disassemble/operand-display/%s" % variant, "Operand::%s is written with template %s and %s arguments (one bare placeholder%s expected); "
                          "the compiled crate prints %r for the payload 7" % (variant, tmpl_s, kinds, " after '%'" if variant.startswith("Id") else "", real.get("text")),
                          {"cmd": "disas_operand %s 7" % variant, "real": real})


def literal_rule(ctx, q, S, rp):
    mf, registry = S.mf, S.registry
    for width, ty in ((32, "u32"), (64, "u64")):
        c = [x for x in mf.find("disas_literal_bit") if re.search(r"\(_1: %s," % ty, mf.lines[x[2]])]
        if len(c) != 1:
            ctx.ob("literal/%s/encodable" % ty, None, "%d candidates" % len(c))
            continue
        fn = mf.parse_item(c[0][2])
        for tvar, fields in (("Integer", [z3.BitVec("w", 32), z3.BoolVal(True)]), ("Integer", [z3.BitVec("w", 32), z3.BoolVal(False)]), ("Float", [z3.BitVec("w", 32)])):
            eng = sym.Engine([mf], registry, models=fmt_models() + [
                (r"^core::f(32|64)::<impl f(32|64)>::from_bits$", lambda e, s, f, c_, a, o: sym.Adt("Float", c_.split("::")[1], [a[0]]))], eager=True)
            val = z3.BitVec("value", width)
            tcell = sym.Adt("binary::tracker::Type", tvar, fields)
            res = eng.run(fn, [val, sym.Ref(("h", "ty"), ())], mem={("h", "ty"): tcell})
            tag = "literal/%s/%s%s" % (ty, tvar, "" if tvar == "Float" else ("-signed" if z3.is_true(fields[1]) else "-unsigned"))
            rets = [r_ for r_ in res if r_.status == "return"]
            if not rets or len(rets) != len(res):
                ctx.ob(tag, None, str(res[:2]))
                continue
            bad = None
            for r_ in rets:
                v = r_.value
                if not (isinstance(v, sym.Adt) and v.ty == "ToString"):
                    bad = ("renders %s" % repr(v)[:120], None)
                    break
                shown_ty, shown = v.variant, v.fields[0]
                if tvar == "Float":
                    ok_ = shown_ty == "f%d" % width and isinstance(shown, sym.Adt) and shown.ty == "Float" and shown.fields[0].eq(val)
                    mdl = None
                    if not ok_:
                        st_, mdl = q.check(list(r_.pc), "literal-float-path")
                        ok_ = st_ == "unsat"
                else:
                    want_ty = ("i%d" if z3.is_true(fields[1]) else "u%d") % width
                    ok_ = shown_ty == want_ty and z3.is_bv(shown) and shown.size() == width
                    mdl = None
                    if ok_:
                        st_, mdl = q.check(list(r_.pc) + [shown != val], "literal-int")
                        ok_ = st_ == "unsat"
                    else:
                        st_, mdl = q.check(list(r_.pc), "literal-int-path")
                        ok_ = st_ == "unsat"
                        mdl = None          # the deviation is in the rendering's type / width, not in particular bits: use the default probe
                if not ok_:
                    bad = ("renders <%s as ToString>(%s)" % (shown_ty, shown), mdl)
                    break
            ctx.ob(tag, True if bad is None else False, None if bad is None else bad[0])
            if bad is not None:
                mdl = bad[1]
                probe = mdl.eval(val, model_completion=True).as_long() if mdl is not None else ((1 << (width - 1)) + 5 if tvar != "Float" else 0x40490fdb)
                wdecl = mdl.eval(fields[0], model_completion=True).as_long() if mdl is not None else width
                if width == 64:
                    wdecl = 64
                elif wdecl == 64 or wdecl == 0:
                    wdecl = width
                signed_ = 1 if (tvar == "Integer" and z3.is_true(fields[1])) else 0
                cmd = "disas_constant %d %s %d %d" % (wdecl, "float" if tvar == "Float" else "int", signed_, probe)
                real = rp.ask(cmd)
                text = str(real.get("text", ""))
                if tvar == "Float":
                    expect = None
                elif signed_:
                    expect = str(probe - (1 << width) if probe >> (width - 1) else probe)
                else:
                    expect = str(probe)
                if "panic" in real or (expect is not None and text.split(" ")[-1] != expect) or (expect is None and mdl is None):
                    ctx.violation("disassemble/literal/%s-%s" % (ty, tag.split("/")[-1]),
                                  "a %d-bit %s literal of a type declared with width %d is rendered through %s; bit pattern %d prints as %r%s" % (
                                      width, tag.split("/")[-1], wdecl, bad[0], probe, text, (", expected %s" % expect) if expect else ""), {"cmd": cmd, "real": real})
                else:
                    ctx.inconclusive.append((tag, "model-only deviation (%s); the compiled crate prints %r for %d" % (bad[0], text, probe)))


def constant_injective(ctx, q, S, rp):
    """`disas_constant` (the rendering of OpConstant / OpSpecConstant literals) from MIR, with the literal, the result type id and
    the tracker symbolic: two DIFFERENT literals of the same tracked type never get the same rendering, NaN bit patterns excepted
    (self-composition: every pair of paths, one copy of the literal each). What is rendered is read off the path's result:
    `<T as ToString>::to_string(e)` — injective in e for integers, and for floats `from_bits(e)` up to NaN — or the generic
    operand rendering (the word itself)."""
    import c03
    fn = S.mf.get("disas_constant", kind="fn")

    def _as_ref(engine, st, v):
        cell = ("h", engine.fresh_name("tmp"))
        st.mem[cell] = v
        return sym.Ref(cell, ())

    def m_disas_instruction(engine, st, fr, callee, args, ops):
        clo, inst_ref = args[2], args[0]
        opsref = sym.Ref(inst_ref.root, inst_ref.path + (("field", 3, "Vec<Operand>"),))
        return sym.Inline(engine.resolve_fn(clo.name), [_as_ref(engine, st, clo), _as_ref(engine, st, opsref)], wrap=lambda rv: sym.Adt("Line", None, [rv]))

    def m_generic(engine, st, fr, callee, args, ops):
        return sym.Adt("Line", None, [sym.Adt("Generic", None, [])])

    def m_inline(engine, st, fr, callee, args, ops):
        return sym.Inline(engine.resolve_fn(callee.split("::<")[0]), args)
    def m_literal_bit(engine, st, fr, callee, args, ops):
        # `<T as DisassembleLiteralBit>::disas_literal_bit` in the generic helper: the impl of the literal's integer type
        ty = "u%d" % args[0].size()
        c = [x for x in S.mf.find("disas_literal_bit") if re.search(r"\(_1: %s," % ty, S.mf.lines[x[2]])]
        if len(c) != 1:
            raise mir.Unsupported("disas_literal_bit for %s: %d candidates" % (ty, len(c)))
        return sym.Inline(S.mf.parse_item(c[0][2]), args)
    I = z3.BitVecSort(32)
    for variant, width in (("LiteralBit32", 32), ("LiteralBit64", 64)):
        val = z3.BitVec("lit%d" % width, width)
        val2 = z3.BitVec("lit%d_b" % width, width)
        eng = S.engine([(r"^disas_instruction::<", m_disas_instruction), (r"^disas_literal_bit_operand::<", m_inline), (r"as DisassembleLiteralBit>::disas_literal_bit$", m_literal_bit),
                        (r"as Disassemble>::disassemble$", m_generic),
                        (r"^core::f(32|64)::<impl f(32|64)>::from_bits$", lambda e, s_, f, c_, a, o: sym.Adt("Float", c_.split("::")[1], [a[0]]))] + fmt_models() + [
                            (r"^[a-z_0-9]+$", m_inline)], loop_bound=4)      # free helper functions of the module: from their own MIR
        classv = sym.Adt("grammar::Instruction", None, [sym.StrV("Constant"), z3.BitVecVal(43, 32), sym.Sym("c", "&[Capability]"), sym.Sym("e", "&[&str]"), sym.Sym("o", "&[LogicalOperand]")])
        rt = z3.BitVec("rt", 32)
        inst = sym.Adt("Instruction", None, [sym.Ref(("h", "class"), ()), sym.Adt("Option", "Some", [rt]), sym.Adt("Option", "Some", [z3.BitVec("rid", 32)]),
                                             sym.Arr([sym.Adt("dr::constructs::Operand", variant, [val])], "vec")])
        mem = {("h", "class"): classv, ("h", "inst"): inst, ("h", "tt"): S.tracker_value("tt")}
        tag = "constant-rendering/%s/injective" % variant
        try:
            res = eng.run(fn, [sym.Ref(("h", "inst"), ()), sym.Ref(("h", "tt"), ())], mem=mem)
        except mir.Unsupported as ex:
            ctx.ob(tag, None, "disas_constant cannot be encoded: %s" % str(ex)[:300])
            continue
        ctx.functions.update(eng.stats.functions)
        keyed = []
        undecided = None
        for r in res:
            if r.status != "return":
                continue        # panic edges are C04's
            v = r.value
            x = v.fields[0] if isinstance(v, sym.Adt) and v.ty == "Line" else v
            if isinstance(x, sym.Adt) and x.ty == "Generic":
                keyed.append((r, "generic", z3.ZeroExt(64 - width, val) if width < 64 else val, None))
            elif isinstance(x, sym.Adt) and x.ty == "ToString" and z3.is_expr(x.fields[0]) and z3.is_bv(x.fields[0]):
                e_ = x.fields[0]
                keyed.append((r, x.variant, z3.ZeroExt(64 - e_.size(), e_) if e_.size() < 64 else e_, None))
            elif isinstance(x, sym.Adt) and x.ty == "ToString" and isinstance(x.fields[0], sym.Adt) and x.fields[0].ty == "Float" and z3.is_expr(x.fields[0].fields[0]):
                e_ = x.fields[0].fields[0]
                if e_.size() == 32:
                    nan = z3.And((e_ & 0x7f800000) == 0x7f800000, (e_ & 0x7fffff) != 0)
                else:
                    nan = z3.And((e_ & 0x7ff0000000000000) == 0x7ff0000000000000, (e_ & 0xfffffffffffff) != 0)
                keyed.append((r, x.variant, z3.ZeroExt(64 - e_.size(), e_) if e_.size() < 64 else e_, nan))
            else:
                undecided = repr(x)[:160]
        if undecided:
            ctx.ob(tag, None, "a rendering the check cannot read: %s" % undecided)
            continue
        sub = lambda t: z3.substitute(t, (val, val2))
        bad = None
        for i, (ra, ka, ea, na) in enumerate(keyed):
            for rb, kb, eb, nb in keyed[i:]:
                if ka != kb:
                    continue            # renderings through different formatters: their texts are not compared here (stated)
                cs = list(ra.pc) + [sub(c) for c in rb.pc] + [val != val2, ea == sub(eb)]
                if na is not None:
                    cs.append(z3.Not(na))
                st_, m = q.check(cs, "constant-injective")
                if st_ == "sat":
                    bad = (m, ka)
                    break
                if st_ != "unsat":
                    undecided = str(m)
            if bad:
                break
        if bad is None:
            ctx.ob(tag, True if not undecided else None, undecided or "%d rendering paths, all pairs" % len(keyed))
            continue
        m, ka = bad
        a, b = m.eval(val, model_completion=True).as_long(), m.eval(val2, model_completion=True).as_long()
        present = z3.is_true(m.eval(z3.Select(z3.Array("tt.present", I, z3.BoolSort()), rt), model_completion=True))
        isf = z3.is_true(m.eval(z3.Select(z3.Array("tt.isfloat", I, z3.BoolSort()), rt), model_completion=True))
        wd = m.eval(z3.Select(z3.Array("tt.width", I, I), rt), model_completion=True).as_long()
        sg = 1 if z3.is_true(m.eval(z3.Select(z3.Array("tt.signed", I, z3.BoolSort()), rt), model_completion=True)) else 0
        if not present or (width == 64) != (wd == 64):
            ctx.ob(tag, None, "model-only collision (%d vs %d rendered through %s) under a tracker state the builder-made probe cannot realise" % (a, b, ka))
            continue
        t1 = rp.ask("disas_constant %d %s %d %d" % (wd, "float" if isf else "int", sg, a))
        t2 = rp.ask("disas_constant %d %s %d %d" % (wd, "float" if isf else "int", sg, b))
        if "panic" not in t1 and "panic" not in t2 and t1.get("text") is not None and re.sub(r"^%\d+ = ", "", t1.get("text")) == re.sub(r"^%\d+ = ", "", t2.get("text")):
            ctx.ob(tag, False, "%d and %d" % (a, b))
            ctx.violation("disassemble/constant-collision/%s-%d" % ("float" if isf else "int", wd),
                          "two different OpConstant literals of the same %s type of width %d get the same disassembly: bit patterns %d and %d both print %r (neither is a NaN)" % (
                              "float" if isf else "integer", wd, a, b, t1.get("text")), {"cmd": "disas_constant %d %s %d %d" % (wd, "float" if isf else "int", sg, a), "real": [t1, t2]})
        else:
            ctx.ob(tag, None, "model-only collision (%d vs %d through %s); the compiled crate prints %r and %r" % (a, b, ka, t1.get("text"), t2.get("text")))


def version_line(ctx, q, S, rp):
    """the `; Version: M.m` line: `create_version_from_word` from MIR for all 2^32 words — major and minor are the two middle bytes
    of the version word, so different version words (in those bytes) print different lines"""
    import c03
    c = [x for x in S.mf.find("create_version_from_word") if "closure" not in x[0]]
    if len(c) != 1:
        ctx.ob("header/version-line", None, "create_version_from_word: %d candidates" % len(c))
        return
    fn = S.mf.parse_item(c[0][2])
    w = z3.BitVec("version_word", 32)
    try:
        res = S.engine(loop_bound=3).run(fn, [w])
    except mir.Unsupported as ex:
        ctx.ob("header/version-line", None, "not encodable: %s" % str(ex)[:200])
        return
    bad = None
    for r in res:
        if r.status != "return":
            st_, m = q.check(list(r.pc), "version-panic")
            if st_ != "unsat":
                bad = ("ends in %s" % r.status, m if st_ == "sat" else None)
                break
            continue
        v = r.value
        if not (isinstance(v, sym.Adt) and len(v.fields) == 2 and all(z3.is_expr(f) for f in v.fields)):
            ctx.ob("header/version-line", None, "returns %r" % (v,))
            return
        st_, m = q.check(list(r.pc) + [z3.Or(v.fields[0] != z3.Extract(23, 16, w), v.fields[1] != z3.Extract(15, 8, w))], "version-bytes")
        if st_ == "sat":
            bad = ("major / minor are not bytes 2 and 1 of the version word", m)
            break
        if st_ != "unsat":
            ctx.ob("header/version-line", None, str(m))
            return
    if bad is None:
        ctx.ob("header/version-line", True, "all 2^32 version words")
        return
    what, m = bad
    wv = m.eval(w, model_completion=True).as_long() if m is not None else 0x00110200
    words = "03022307" + c03.le(wv) + c03.le(0) + c03.le(8) + c03.le(0)
    real = rp.ask("load_disassemble %s" % words)
    want = "; Version: %d.%d" % ((wv >> 16) & 0xff, (wv >> 8) & 0xff)
    if "panic" in real or (real.get("loaded") and want not in real.get("text", "")):
        ctx.ob("header/version-line", False, what)
        ctx.violation("disassemble/header/version", "a module whose version word is %#010x is disassembled with the version line %r, not %r (%s)" % (
            wv, [l for l in real.get("text", "").split("\n") if "Version" in l][:1], want, what), {"cmd": "load_disassemble %s" % words, "real": real})
    else:
        ctx.ob("header/version-line", None, "model-only deviation (%s); the compiled crate prints %r" % (what, want))


def line_format(ctx, S):
    mf, registry = S.mf, S.registry
    fn = [mf.parse_item(x[2]) for x in mf.find("disas_instruction") if "closure" not in x[0]]
    if len(fn) != 1:
        ctx.ob("line-format/encodable", None, "%d candidates" % len(fn))
        return

    def m_map_or(engine, st, fr, callee, args, ops):
        opt, default, clo = args
        if isinstance(opt, sym.Adt) and opt.variant == "Some":
            return sym.Inline(engine.resolve_fn(clo.name), [clo, opt.fields[0]])
        return default

    def m_call_f(engine, st, fr, callee, args, ops):
        return sym.Adt("OperandsText", None, [args[1] if len(args) > 1 else args[0]])
    eng = sym.Engine([mf], registry, models=fmt_models() + [
        (r"^Option::<u32>::map_or::<", m_map_or),
        (r"as Fn<\(&Vec<Operand>,\)>>::call$", m_call_f),
    ], eager=True)
    rid, rt = z3.BitVec("rid", 32), z3.BitVec("rt", 32)
    classv = sym.Adt("grammar::Instruction", None, [sym.StrV("OPNAME"), z3.BitVecVal(1, 32), sym.Sym("c", "&[Capability]"), sym.Sym("e", "&[&str]"), sym.Sym("o", "&[LogicalOperand]")])
    inst = sym.Adt("Instruction", None, [sym.Ref(("h", "class"), ()), sym.Adt("Option", "Some", [rt]), sym.Adt("Option", "Some", [rid]), sym.Sym("operands", "Vec<Operand>")])
    mem = {("h", "class"): classv, ("h", "inst"): inst, ("h", "f"): sym.FnV("F")}
    try:
        res = eng.run(fn[0], [sym.Ref(("h", "inst"), ()), sym.StrV(" "), sym.FnV("F")], mem=mem)
    except mir.Unsupported as ex:
        ctx.ob("line-format/encodable", None, str(ex)[:300])
        return
    if not res or any(r_.status != "return" or not (isinstance(r_.value, sym.Adt) and r_.value.ty == "Formatted") for r_ in res):
        ctx.ob("line-format/shape", None, str(res[:1])[:300])
        return
    for r_ in res:
        _line_format_path(ctx, eng, r_, rid, rt, len(res))


def _line_format_path(ctx, eng, r_, rid, rt, npaths):
    """one path of disas_instruction on an instruction with a result id and a result type (both arbitrary words)"""
    res = [r_]
    fa = res[0].value.fields[0]
    args_ = fa.fields[-1]
    if isinstance(args_, sym.Ref):
        args_ = eng.read_at(_mkstate(res[0].mem), args_.root, args_.path)
    items = args_.items if isinstance(args_, sym.Arr) else []

    def flat(x, depth=0):
        """repr of a value with references followed (bounded)"""
        st_ = _mkstate(res[0].mem)
        if depth > 8:
            return "..."
        if isinstance(x, sym.Ref):
            try:
                return flat(eng.read_at(st_, x.root, x.path), depth + 1)
            except Exception:
                return repr(x)
        if isinstance(x, sym.Adt):
            return "%s::%s[%s]" % (x.ty, x.variant, ", ".join(flat(f, depth + 1) for f in x.fields))
        if isinstance(x, sym.Arr):
            return "[%s]" % ", ".join(flat(f, depth + 1) for f in x.items)
        return repr(x)

    def what(a):
        r = flat(a.fields[0])
        if "rid" in r:
            return "rid"
        if "rt" in r and "OPNAME" not in r:
            return "rtype"
        if "OPNAME" in r:
            return "opname"
        if "OperandsText" in r:
            return "operands"
        if "' '" in r or 'str(" ")' in r or "str(' ')" in r:
            return "space"
        return r[:30]
    order = [what(a) for a in items]
    good = order == ["rid", "opname", "rtype", "space", "operands"]
    if good:
        ctx.ob("line-format/rid,opname,rtype,space,operands", True, "argument order %s" % order)
        return
    # native confirmation on one instruction whose ids are the path's witness values
    sol = z3.Solver()
    for c in r_.pc:
        sol.add(c)
    if sol.check() != z3.sat:
        ctx.ob("line-format/rid,opname,rtype,space,operands", True, "an infeasible path")
        return
    m_ = sol.model()
    ridv = m_.eval(rid, model_completion=True).as_long() if npaths > 1 else 6
    import c03
    le = c03.le
    words = c03.HEADER + le(4 << 16 | 21) + le(1) + le(32) + le(0) + le(2 << 16 | 19) + le(2) + le(3 << 16 | 33) + le(3) + le(2) + \
        le(5 << 16 | 54) + le(2) + le(4) + le(0) + le(3) + le(2 << 16 | 248) + le(5) + le(5 << 16 | 128) + le(1) + le(ridv) + le(7) + le(8) + le(1 << 16 | 253) + le(1 << 16 | 56)
    rp = Replay()
    real = rp.ask("load_disassemble %s" % words)
    rp.close()
    line = [l for l in real.get("text", "").split("\n") if "IAdd" in l]
    ok_native = bool(line) and re.match(r"^%%%d = OpIAdd  %%1  %%7 %%8$" % ridv, line[0]) is not None
    if ok_native:
        ctx.ob("line-format/rid,opname,rtype,space,operands", None, "model sees argument order %s but the compiled crate prints %r" % (order, line[0]))
    else:
        ctx.ob("line-format/rid,opname,rtype,space,operands", False, "argument order %s; native line %r" % (order, line[:1]))
        ctx.violation("disassemble/line-format", "an instruction line is not `%%id = Op<name>  %%type  operands`: for an OpIAdd with result id %d the compiled crate prints %r" % (ridv, line[:1]),
                      {"cmd": "load_disassemble %s" % words, "real": real})


def _mkstate(mem):
    st = sym.State()
    st.mem = mem
    return st


def module_walk(ctx, q, S):
    """Module::disassemble pushes one line per instruction in the order header, global_inst_iter(), functions (def, params, blocks, end)."""
    mf, registry = S.mf, S.registry
    c = [x for x in mf.find("disassemble") if re.search(r"\(_1: &(\w+::)*Module\)", mf.lines[x[2]])]
    if len(c) != 1:
        ctx.ob("walk/encodable", None, "%d candidates" % len(c))
        return
    fn = mf.parse_item(c[0][2])
    F, B = 2, 2
    eng = sym.Engine([mf], registry, eager=True, loop_bound=24)
    den = c15.Den(eng, mf, F, B)
    lines = []

    def m_emit(engine, st, fr, callee, args, ops):
        return sym.Adt("Line", None, [args[0]])

    def m_push_line(engine, st, fr, callee, args, ops):
        st.events.append(("line", args[1]))
        return sym.UNIT

    def m_is_empty(engine, st, fr, callee, args, ops):
        return z3.BoolVal(False)

    def m_track(engine, st, fr, callee, args, ops):
        st.events.append(("track", args[0], args[1] if len(args) > 1 else None))
        return sym.UNIT

    def m_new_tracker(engine, st, fr, callee, args, ops):
        return sym.Sym(engine.fresh_name("tracker"), "Tracker")

    def m_map(engine, st, fr, callee, args, ops):
        st.events.append(("map_closure", args[1], len(st.events)))
        return c15.T("mapped", c15.into_term(engine, st, args[0]), args[1])

    def m_collect_join(engine, st, fr, callee, args, ops):
        return args[0]

    def m_join(engine, st, fr, callee, args, ops):
        v = sym._deref_arg(engine, st, args[0])
        return sym.Adt("Joined", None, [v])

    def m_map_or(engine, st, fr, callee, args, ops):
        opt = args[0]
        o = sym._deref_arg(engine, st, opt) if isinstance(opt, sym.Ref) else opt
        if isinstance(o, sym.Adt) and o.ty == "OptRef":
            return sym.Adt("Line", None, [o.fields[0]])
        return sym.Adt("Line", None, [opt])

    def m_as_ref(engine, st, fr, callee, args, ops):
        return sym.Adt("OptRef", None, [args[0]])
    models = [
        (r"^tracker::(ExtInstSetTracker|TypeTracker)::new$|^(ExtInstSetTracker|TypeTracker)::new$", m_new_tracker),
        (r"(ExtInstSetTracker|TypeTracker)::track$", m_track),
        (r"as Disassemble>::disassemble$", m_emit),
        (r"^disas_(constant|ext_inst|join)", m_emit),
        (r"^(std::string::)?String::is_empty$", m_is_empty),
        (r"^Vec::<(std::string::)?String>::push$", m_push_line),
        (r"^Vec::<(std::string::)?String>::new$", lambda e, s, f, c_, a, o: sym.Arr([], "vec")),
        (r"^Option::<.*>::as_ref$", m_as_ref),
        (r"^Option::<&.*>::map_or::<", m_map_or),
        (r"as Iterator>::map::<", m_map),
        (r"as Iterator>::collect::<", m_collect_join),
        (r"^<Vec<(std::string::)?String> as Deref>::deref$", lambda e, s, f, c_, a, o: a[0]),
        (r"join::<&str>$", m_join),
    ] + c15.assemble_models(den) + c15.ITER_MODELS + fmt_models()
    eng.models = models
    module = sym.Sym("module", "Module")
    mem = {("h", "module"): module}
    try:
        res = eng.run(fn, [sym.Ref(("h", "module"), ())], mem=mem)
    except mir.Unsupported as ex:
        ctx.ob("walk/encodable", None, str(ex)[:400])
        return
    ctx.functions.update(eng.stats.functions)
    oks = [r for r in res if r.status == "return"]
    if not oks:
        ctx.ob("walk/paths", None, str(res[:2])[:300])
        return
    r = max(oks, key=lambda x: len(x.events))
    kinds = []
    parts = []
    st_ = _mkstate(r.mem)
    den.engine = eng
    try:
        for ev in r.events:
            if ev[0] != "line":
                continue
            v = ev[1]
            kinds.append(repr(v)[:120])
            if isinstance(v, sym.Adt) and v.ty == "Joined":
                t = v.fields[0]
                if isinstance(t, c15.T) and t.kind == "mapped":
                    parts.append(den.term(t.a[0], st_))
                    continue
                raise mir.Unsupported("joined %r" % (t,))
            x = v.fields[0] if isinstance(v, sym.Adt) and v.ty == "Line" else v
            if isinstance(x, sym.Adt) and x.ty == "Slice":
                x = x.fields[0]
            if isinstance(x, sym.Ref):
                nm = str(x.root[1]) if isinstance(x.root, tuple) else str(x.root)
                if nm.startswith("each:"):
                    parts.append(den.seqvar(nm[5:], False))
                    continue
                inner = eng.read_at(st_, x.root, x.path)
                ty = inner.ty if isinstance(inner, sym.Sym) else ""
                if "ModuleHeader" in ty:
                    continue            # the header comment, not an instruction line
                if "Option<" in ty:
                    parts.append(den.seqvar(c15.place_name(x), True))
                elif "Vec<" in ty:
                    parts.append(den.seqvar(c15.place_name(x), False))
                else:
                    raise mir.Unsupported("line source %r: %s" % (x, ty))
                continue
            raise mir.Unsupported("line source %r" % (v,))
        walk = z3.Concat(*parts) if len(parts) > 1 else parts[0]
        # the traversal the assembler follows (C15): all_inst_iter
        c = [x for x in mf.find("all_inst_iter") if "closure" not in x[0] and re.search(r"\(_1: &(\w+::)*Module\)", mf.lines[x[2]])]
        fn2 = mf.parse_item(c[0][2])
        eng3 = sym.Engine([mf], registry, models=c15.ITER_MODELS, eager=True, loop_bound=4)
        res3 = eng3.run(fn2, [sym.Ref(("h", "module"), ())], mem={("h", "module"): sym.Sym("module", "Module")})
        st3 = _mkstate(res3[0].mem)
        den.engine = eng3
        alli = den.term(c15.into_term(eng3, st3, res3[0].value), st3)
        stq, m = q.check(den.constraints + [walk != alli], "walk-seq")
        ctx.ob("walk/one-line-per-instruction-in-assembly-order", stq == "unsat" or (False if stq == "sat" else None),
               "%d line sources" % len(parts))
        if stq == "sat":
            nonempty = sorted(str(d)[2:] for d in m.decls() if str(d).startswith("s:") and m.eval(z3.Length(d()), model_completion=True).as_long() > 0)
            import c20
            data = c20.corpus("quick")[0]
            rp_ = Replay()
            real = rp_.ask("load_disassemble %s" % data.hex())
            rp_.close()
            names_ = [re.sub(r"^.*?(Op\w+).*$", r"\1", l) for l in real.get("text", "").split("\n") if "Op" in l]
            want_ = ["OpCapability", "OpMemoryModel", "OpTypeVoid", "OpTypeInt", "OpConstant", "OpTypeFunction", "OpFunction", "OpLabel", "OpReturn", "OpFunctionEnd"]
            if real.get("loaded") and names_ != want_:
                ctx.violation("disassemble/walk-order", "Module::disassemble does not render the instructions in assembly order (differs when %s are non-empty): %s" % (nonempty, names_),
                              {"cmd": "load_disassemble %s" % data.hex(), "real": real})
            else:
                ctx.inconclusive.append(("walk/one-line-per-instruction-in-assembly-order", "model-only (differs when %s are non-empty); the compiled crate renders %s" % (nonempty, names_)))
    except mir.Unsupported as ex:
        ctx.ob("walk/encodable", None, str(ex)[:300])
    ctx.extra["walk_sample"] = kinds[:12]
    try:
        constants_see_all_types(ctx, q, S, eng, r, models)
    except mir.Unsupported as ex:
        ctx.ob("walk/constants-typed-against-all-declarations", None, "not encodable: %s" % str(ex)[:300])


def constants_see_all_types(ctx, q, S, eng, r, models):
    """'OpConstant literals [are rendered] according to the declared type' for every module the loader can produce — also when
    the type is declared AFTER the constant: the type tracker handed to `disas_constant` must have been fed ALL of
    types_global_values before the first global line is rendered, and rendering itself must not feed it."""
    mf = S.mf
    tag = "walk/constants-typed-against-all-declarations"
    ev = r.events
    # 1. a complete loop over module.types_global_values that tracks every element into some tracker T
    tgv = None
    fields = __import__("c05").struct_fields("rspirv/dr/constructs.rs", "Module")
    want_place = "module.%d" % fields.index("types_global_values")
    fed = {}          # tracker place -> index of the each_end event of a complete feeding loop
    cur = None
    for k, e in enumerate(ev):
        if e[0] == "each_begin":
            t = e[1]
            cur = (c15.place_name(t.a[0]) if getattr(t, "kind", None) == "vec" else repr(t), [])
        elif e[0] == "track" and cur is not None:
            elem = e[2]
            if isinstance(elem, sym.Ref) and isinstance(elem.root, tuple) and str(elem.root[1]).startswith("each:"):
                cur[1].append((e[1].root, tuple(e[1].path)) if isinstance(e[1], sym.Ref) else None)
        elif e[0] == "each_end" and cur is not None:
            if cur[0] == want_place:
                for trk in cur[1]:
                    if trk is not None:
                        fed[trk] = k
            cur = None
    # 2. the closure that renders the global instructions
    clos = [e for e in ev if e[0] == "map_closure" and isinstance(e[1], sym.FnV)]
    glob = None
    for e in clos:
        fn_ = eng.resolve_fn(e[1].name)
        body = "\n".join(mf.lines[fn_.line:fn_.line + 80])
        if "disas_constant" in body:
            glob = (e, fn_)
            break
    if glob is None:
        ctx.ob(tag, None, "no rendering closure that calls disas_constant found")
        return
    e, cfn = glob
    log = []

    def m_dc(engine, st, fr, callee, args, ops):
        log.append(("disas_constant", args[1]))
        st.events.append(("disas_constant", args[1]))
        return sym.Adt("Line", None, [args[0]])

    def m_trk(engine, st, fr, callee, args, ops):
        st.events.append(("track-in-closure", args[0]))
        return sym.UNIT
    eng2 = sym.Engine([mf], S.registry, models=[(r"^disas_constant$", m_dc), (r"(ExtInstSetTracker|TypeTracker)::track$", m_trk)] + models, eager=True, loop_bound=4)
    opc = z3.BitVec("opcode", 32)
    mem = dict(r.mem)
    mem[("h", "gclass")] = sym.Adt("grammar::Instruction", None, [sym.StrV("?"), opc, sym.Sym("c", "&[Capability]"), sym.Sym("e", "&[&str]"), sym.Sym("o", "&[LogicalOperand]")])
    mem[("h", "ginst")] = sym.Adt("Instruction", None, [sym.Ref(("h", "gclass"), ()), sym.Sym("rt", "Option<u32>"), sym.Sym("rid", "Option<u32>"), sym.Sym("ops", "Vec<Operand>")])
    mem[("h", "gclo")] = e[1]
    res = eng2.run(cfn, [sym.Ref(("h", "gclo"), (), True), sym.Ref(("h", "ginst"), ())], mem=mem)
    bad = None
    saw_const = False
    for p_ in res:
        if p_.status != "return":
            continue
        if any(x[0] == "track-in-closure" for x in p_.events):
            st_, m_ = q.check(list(p_.pc), "walk-closure-track")
            if st_ != "unsat":
                bad = "the type tracker is still being fed while the global instructions are rendered"
        for x in p_.events:
            if x[0] == "disas_constant":
                saw_const = True
                tr = x[1]
                key = (tr.root, tuple(tr.path)) if isinstance(tr, sym.Ref) else None
                # the closure captured a reference: follow it to the tracker place
                while key is not None and key not in fed:
                    v = mem.get(key[0]) if not key[1] else None
                    if isinstance(v, sym.Ref):
                        key = (v.root, tuple(v.path))
                    else:
                        break
                if key not in fed:
                    bad = bad or "disas_constant is given a tracker that was not fed all of types_global_values beforehand"
                elif fed[key] > e[2]:
                    bad = bad or "the tracker is fed after the rendering closure was built and run"
    if not saw_const:
        ctx.ob(tag, None, "the rendering closure has no path reaching disas_constant")
        return
    if bad is None:
        ctx.ob(tag, True)
        return
    # native confirmation: a signed constant BEFORE the declaration of its 32-bit signed type must still print as -7
    le = __import__("c03").le
    words = __import__("c03").HEADER + le(4 << 16 | 43) + le(1) + le(2) + le(0xfffffff9) + le(4 << 16 | 21) + le(1) + le(32) + le(1)
    rp = Replay()
    real = rp.ask("load_disassemble %s" % words)
    rp.close()
    text = real.get("text", "")
    if real.get("loaded") and "OpConstant  %1  -7" not in text and "OpConstant %1 -7" not in text:
        ctx.ob(tag, False, "%s; native: %r" % (bad, [l for l in text.split("\n") if "OpConstant" in l]))
        ctx.violation("disassemble/constant-before-its-type", "%s: a module whose OpConstant precedes the OpTypeInt 32 1 of its type is rendered as %r instead of -7" % (
            bad, [l for l in text.split("\n") if "OpConstant" in l]), {"cmd": "load_disassemble %s" % words, "real": real})
    else:
        ctx.ob(tag, None, "model: %s; but the compiled crate renders the witness module correctly: %r" % (bad, [l for l in text.split("\n") if "OpConstant" in l]))
