"""C17 — operand reflection agrees with the parser and the grammar.

T + SMT: the parameter tables exist twice in generated code: parser side (`parse_*_arguments`) and reflection side
(`Operand::additional_operands`). Both are read at token level and turned into z3 functions of the operand value:
for bit masks a per-kind count (sum of ite(bit set, n, 0)) over ALL subsets of the declared bits (v:BV32), for
enumerants a sequence (length + kind at each position) over ALL declared enumerants; z3 decides equality.
required_capabilities / required_extensions are compared as set-valued functions of the value with the pinned grammar
snapshot (masks: over all bit combinations, so `contains` vs `intersects` matters). M1: `id_ref_any(_mut)` from MIR over
all 64+ Operand discriminants. Token level: From<T> / unwrap_* pairs. R replays every witness on the compiled crate."""
import json
import os
import re
import z3
import sym
import mir
import tables
import reg as regmod
from common import mir_path, Inconclusive, Replay, VERIF
from smt import Q
from rtok import match_close

PARAM_KINDS = ["ImageOperands", "LoopControl", "MemoryAccess", "TensorAddressingOperands", "ExecutionMode", "Decoration"]


def contains(v, bits):
    return (v & bits) == bits


def run(ctx):
    q = Q(ctx, cross_every=50)
    enums, masks = tables.spirv_decls()
    P = tables.operand_param_tables()
    snap = json.load(open(os.path.join(VERIF, "reference", "snapshot.json")))["operand_params"]
    rp = Replay()
    ctx.trusted += ["token reader (lib/tables.py) — every extracted entry is cross-checked against the compiled crate via R for the witnesses it produces",
                    "reference/snapshot.json (generator output at the pinned commit) as the stand-in for the Khronos grammar", "z3 (cvc5 sample)"]
    ctx.bounds.append("none: all subsets of declared bits of each mask (v:BV32), all declared enumerants of ExecutionMode and Decoration, all Operand discriminants")
    variant_of_kind = {}
    for kind, arm in P["parse_operand"].items():
        if arm["operands"]:
            variant_of_kind[kind] = arm["operands"][0][0]
    # ---------------- parser vs reflection
    for kind in PARAM_KINDS:
        arm = P["parse_operand"].get(kind)
        if not arm or not arm["args_fn"]:
            ctx.ob("%s/parser-consumes-parameters" % kind, None, "parse_operand has no *_arguments call for %s" % kind)
            continue
        pa = P["parse_arguments"].get(arm["args_fn"])
        ao = P["additional_operands"].get(kind)
        if pa is not None and pa["form"] == "irregular":
            continue      # see snapshot_params: the MIR legs decide
        if pa is None or ao is None or pa["kind"] != kind or pa["form"] != ao["form"]:
            ctx.ob("%s/tables-present" % kind, None, "parser/reflection tables missing or of different form")
            continue
        if pa["form"] == "mask":
            consts = dict(masks[kind]["consts"])
            allbits = 0
            for b in consts.values():
                allbits |= b
            v = z3.BitVec("v", 32)
            declared = (v & z3.BitVecVal(~allbits & 0xffffffff, 32)) == 0
            variants = sorted(set(x[0] for _, ops in pa["entries"] for x in ops) |
                              set(variant_of_kind.get(k, "?" + k) for _, ops in ao["entries"] for k, _q in ops))

            def count(entries, variant, reflect, else_of=None):
                terms = []
                for ei, (names, ops) in enumerate(entries):
                    n = sum(1 for o in ops if (variant_of_kind.get(o[0], "?" + o[0]) if reflect else o[0]) == variant)
                    if n == 0:
                        continue
                    for nm in names:
                        if nm not in consts:
                            raise Inconclusive("%s::%s is not a declared constant" % (kind, nm))
                        cond = contains(v, z3.BitVecVal(consts[nm], 32))
                        # an `else if` arm is only taken when none of the earlier arms of its chain was
                        for pj in (else_of or {}).get(ei, []):
                            for pn in entries[pj][0]:
                                cond = z3.And(cond, z3.Not(contains(v, z3.BitVecVal(consts[pn], 32))))
                        terms.append(z3.If(cond, n, 0))
                return z3.Sum(terms) if terms else z3.IntVal(0)
            bad_q = [q_ for _n, ops in ao["entries"] for _k, q_ in ops if q_ != "One"]
            ctx.ob("%s/reflection-quantifiers-are-One" % kind, not bad_q, str(bad_q) if bad_q else None)
            diff = z3.Or(*[count(pa["entries"], var, False, pa.get("else_of")) != count(ao["entries"], var, True, ao.get("else_of")) for var in variants])
            blocked = []
            while len(blocked) < 8:
                st, m = q.check([declared, diff] + [v != b for b in blocked], "mask-multiset")
                if st == "unsat":
                    ctx.ob("%s/parser-multiset=reflection-multiset%s" % (kind, "/no-further" if blocked else ""), True)
                    break
                if st != "sat":
                    ctx.ob("%s/parser-multiset=reflection-multiset" % kind, None, m)
                    break
                w = m.eval(v, model_completion=True).as_long()
                blocked.append(w)
                real = rp.ask("operand_params %s %d" % (kind, w))
                real["additional"] = [variant_of_kind.get(k_, k_) for k_ in real.get("additional", ["!"])]
                if sorted(real.get("parsed", ["?"])) != sorted(real.get("additional", ["!"])):
                    ctx.ob("%s/bits-%#x" % (kind, w), False, str(real))
                    ctx.violation("operand-params/%s/parser-vs-reflection/%s" % (kind, bitnames(consts, w)),
                                  "%s value %#x: the parser consumes %s, additional_operands reports %s" % (kind, w, real.get("parsed"), real.get("additional")),
                                  {"cmd": "operand_params %s %d" % (kind, w), "real": real})
                else:
                    ctx.ob("%s/bits-%#x" % (kind, w), None, "model does not reproduce: %s" % real)
        else:
            valof = dict(enums[kind]["variants"])
            for al, tgt in enums[kind]["aliases"]:
                valof[al] = valof[tgt]
            e = z3.BitVec("e", 32)
            D = sorted(set(valof.values()))
            inD = z3.Or(*[e == z3.BitVecVal(x, 32) for x in D])
            vid = {}

            def vcode(name):
                return vid.setdefault(name, len(vid) + 1)

            def seqfun(entries, reflect):
                maxlen = max([len(ops) for _, ops in entries] + [0])
                length = z3.IntVal(0)
                at = [z3.IntVal(0)] * maxlen
                for names, ops in reversed(entries):
                    cond = z3.Or(*[e == z3.BitVecVal(valof[nm], 32) for nm in names if nm in valof])
                    length = z3.If(cond, len(ops), length)
                    for i in range(maxlen):
                        code = 0
                        if i < len(ops):
                            code = vcode(variant_of_kind.get(ops[i][0], "?" + ops[i][0]) if reflect else ops[i][0])
                        at[i] = z3.If(cond, code, at[i])
                return length, at
            lp, ap = seqfun(pa["entries"], False)
            la, aa = seqfun(ao["entries"], True)
            n = max(len(ap), len(aa))
            ap += [z3.IntVal(0)] * (n - len(ap))
            aa += [z3.IntVal(0)] * (n - len(aa))
            diff = z3.Or(lp != la, *[ap[i] != aa[i] for i in range(n)])
            unknown = [nm for names, _ in pa["entries"] + ao["entries"] for nm in names if nm not in valof]
            ctx.ob("%s/table-enumerants-declared" % kind, not unknown, str(unknown) if unknown else None)
            blocked = []
            while len(blocked) < 8:
                st, m = q.check([inD, diff] + [e != b for b in blocked], "enum-sequence")
                if st == "unsat":
                    ctx.ob("%s/parser-sequence=reflection-sequence%s" % (kind, "/no-further" if blocked else ""), True)
                    break
                if st != "sat":
                    ctx.ob("%s/parser-sequence=reflection-sequence" % kind, None, m)
                    break
                w = m.eval(e, model_completion=True).as_long()
                blocked.append(w)
                nm = [k for k, x in valof.items() if x == w][0]
                real = rp.ask("operand_params %s %d" % (kind, w))
                real["additional"] = [variant_of_kind.get(k_, k_) for k_ in real.get("additional", ["!"])]
                if real.get("parsed", ["?"]) != real.get("additional", ["!"]):
                    ctx.ob("%s/%s" % (kind, nm), False, str(real))
                    ctx.violation("operand-params/%s/parser-vs-reflection/%s" % (kind, nm),
                                  "%s::%s: the parser consumes %s, additional_operands reports %s" % (kind, nm, real.get("parsed"), real.get("additional")),
                                  {"cmd": "operand_params %s %d" % (kind, w), "real": real})
                else:
                    ctx.ob("%s/%s" % (kind, nm), None, "model does not reproduce: %s" % real)
    # ---------------- tables vs pinned grammar snapshot (parameters, capabilities, extensions)
    snapshot_params(ctx, q, rp, P, snap, enums, masks)
    # ---------------- the parser side once more, from MIR instead of tokens (per declared bit / pairs / all, per enumerant, also through
    # the `parse_operand` arm itself): parser = pinned grammar; with reflection = pinned grammar above, parser = reflection
    import c03
    import parsersym
    S_ = parsersym.Setting()
    c03.mask_parameter_bits(ctx, S_, q, rp)
    c03.enum_parameter_values(ctx, S_, q, rp)
    irregular = [k for k, a in P["parse_operand"].items() if a.get("irregular")]
    if irregular:
        ctx.extra["irregular_parse_operand_arms"] = irregular
    # ---------------- id_ref_any / id_ref_any_mut
    id_ref_any(ctx, q, rp)
    # ---------------- From<T> / unwrap_*
    from_unwrap(ctx)
    from_mir(ctx, rp)
    rp.close()
    ctx.validated = rp.count
    ctx.extra["cvc5"] = q.summary()
    ctx.extra["explanation"] = ("Parser-side and reflection-side parameter tables become z3 functions of the operand value; equality decided "
                                "over all bit subsets / enumerants; capability and extension requirements compared with the pinned grammar as "
                                "set-valued functions of the value.")


def bitnames(consts, w):
    names = [n for n, b in consts.items() if b and (w & b) == b and bin(b).count("1") == 1]
    return "|".join(sorted(names)) or "0"


def snapshot_params(ctx, q, rp, P, snap, enums, masks):
    def norm_entries(tab):
        return tab
    # parser parameters
    for fn, cur in P["parse_arguments"].items():
        old = snap["parse_arguments"].get(fn)
        if old is None:
            ctx.ob("snapshot/parse_arguments/%s" % fn, None, "not in the pinned grammar")
            continue
        kind = cur["kind"]
        if cur["form"] == "irregular":
            # not readable token-wise (restructured by hand): decided by the MIR legs below, which execute the function itself
            ctx.extra.setdefault("irregular_parse_arguments", []).append(fn)
            continue
        cmap = {}
        for names, ops in cur["entries"]:
            for nm in names:
                cmap[nm] = [o[0] for o in ops]
        omap = {}
        for names, ops in old["entries"]:
            for nm in names:
                omap[nm] = [o[0] for o in ops]
        for nm in sorted(set(cmap) | set(omap)):
            a, b = cmap.get(nm, []), omap.get(nm, [])
            ctx.ob("snapshot/parse_arguments/%s/%s" % (kind, nm), a == b, None if a == b else "%s != pinned %s" % (a, b))
            if a != b:
                val = (dict(enums[kind]["variants"]).get(nm) if kind in enums else dict(masks[kind]["consts"]).get(nm)) or 0
                real = rp.ask("operand_params %s %d" % (kind, val))
                if real.get("parsed") == b:
                    ctx.inconclusive.append(("snapshot/parse_arguments/%s/%s" % (kind, nm), "the token reading (%s) differs from the pinned grammar but the compiled parser consumes exactly %s" % (a, b)))
                    continue
                ctx.violation("operand-params/%s/parser-vs-grammar/%s" % (kind, nm),
                              "%s::%s: the parser consumes %s, the pinned grammar lists %s" % (kind, nm, a, b),
                              {"cmd": "operand_params %s %d" % (kind, val), "real": real})
    # reflection parameters
    for kind, cur in P["additional_operands"].items():
        old = snap["additional_operands"].get(kind, {"entries": []})
        cmap, omap = {}, {}
        for names, ops in cur["entries"]:
            for nm in names:
                cmap[nm] = [list(o) for o in ops]
        for names, ops in old["entries"]:
            for nm in names:
                omap[nm] = [list(o) for o in ops]
        for nm in sorted(set(cmap) | set(omap)):
            a, b = cmap.get(nm, []), omap.get(nm, [])
            ctx.ob("snapshot/additional_operands/%s/%s" % (kind, nm), a == b, None if a == b else "%s != pinned %s" % (a, b))
            if a != b:
                val = (dict(enums[kind]["variants"]).get(nm) if kind in enums else dict(masks[kind]["consts"]).get(nm)) or 0
                real = rp.ask("operand_params %s %d" % (kind, val))
                ctx.violation("operand-params/%s/reflection-vs-grammar/%s" % (kind, nm),
                              "%s::%s: additional_operands reports %s, the pinned grammar lists %s" % (kind, nm, a, b),
                              {"cmd": "operand_params %s %d" % (kind, val), "real": real})
    # capabilities / extensions
    for tabname in ("required_capabilities", "required_extensions"):
        cur_t, old_t = P[tabname], snap[tabname]
        for kind in sorted(set(cur_t) | set(old_t)):
            cur = cur_t.get(kind, {"form": None, "entries": []})
            old = old_t.get(kind, {"form": None, "entries": []})
            form = cur["form"] or old["form"]
            items = sorted(set(i for _m, _n, its in cur["entries"] + old["entries"] for i in its))
            if form == "mask":
                consts = dict(masks[kind]["consts"])
                allbits = 0
                for b in consts.values():
                    allbits |= b
                v = z3.BitVec("v", 32)
                declared = (v & z3.BitVecVal(~allbits & 0xffffffff, 32)) == 0

                def req(entries, item):
                    terms = []
                    for meth, names, its in entries:
                        if item not in its:
                            continue
                        union = 0
                        for nm in names:
                            union |= consts.get(nm, 0)
                        u = z3.BitVecVal(union, 32)
                        terms.append(contains(v, u) if meth == "contains" else (v & u) != 0)
                    return z3.Or(*terms) if terms else z3.BoolVal(False)
                for item in items:
                    st, m = q.check([declared, req(cur["entries"], item) != req(old["entries"], item)], "mask-requirements")
                    if st == "sat":
                        w = m.eval(v, model_completion=True).as_long()
                        real = rp.ask("operand_requires %s %d" % (kind, w))
                        have = item in real.get("capabilities" if tabname.endswith("capabilities") else "extensions", [])
                        want = bool(z3.is_true(m.eval(req(old["entries"], item), model_completion=True)))
                        if have != want:
                            ctx.ob("%s/%s/%s" % (tabname, kind, item), False, "value %#x" % w)
                            ctx.violation("operand-requires/%s/%s/%s" % (kind, tabname, item),
                                          "%s value %#x (%s): %s %s %s, the pinned grammar %s" % (kind, w, bitnames(consts, w), tabname,
                                                                                                "includes" if have else "omits", item,
                                                                                                "requires it" if want else "does not"),
                                          {"cmd": "operand_requires %s %d" % (kind, w), "real": real})
                        else:
                            ctx.ob("%s/%s/%s" % (tabname, kind, item), None, "model does not reproduce: %s" % real)
                    else:
                        ctx.ob("%s/%s/%s" % (tabname, kind, item), st == "unsat" or None)
            else:
                valof = dict(enums[kind]["variants"]) if kind in enums else {}
                for al, tgt in (enums[kind]["aliases"] if kind in enums else []):
                    valof[al] = valof[tgt]

                def bymap(entries):
                    mp = {}
                    for _m, names, its in entries:
                        for nm in names:
                            mp.setdefault(valof.get(nm, nm), set()).update(its)
                    return mp
                a, b = bymap(cur["entries"]), bymap(old["entries"])
                for val in sorted(set(a) | set(b), key=str):
                    x, y = a.get(val, set()), b.get(val, set())
                    nm = [k for k, vv in valof.items() if vv == val][:1] or [str(val)]
                    ctx.ob("%s/%s/%s" % (tabname, kind, nm[0]), x == y, None if x == y else "%s != pinned %s" % (sorted(x), sorted(y)))
                    if x != y:
                        real = rp.ask("operand_requires %s %s" % (kind, val))
                        ctx.violation("operand-requires/%s/%s/%s" % (kind, tabname, nm[0]),
                                      "%s::%s: %s = %s, the pinned grammar lists %s" % (kind, nm[0], tabname, sorted(x), sorted(y)),
                                      {"cmd": "operand_requires %s %s" % (kind, val), "real": real})


def id_ref_any(ctx, q, rp):
    registry = regmod.build_registry()
    mf = mir.MirFile(mir_path("rspirv"))
    e = registry.lookup("constructs::Operand")
    ids = {"IdRef", "IdScope", "IdMemorySemantics"}
    for fname in ("id_ref_any", "id_ref_any_mut"):
        fn = mf.get(fname, kind="fn")
        eng = sym.Engine([mf], registry, eager=True)
        opv = sym.Sym("operand", "dr::constructs::Operand")
        d = eng.discriminant(opv, opv.ty, "isize")
        valid = z3.And(d >= 0, d < len(e["variants"]))
        res = eng.run(fn, [sym.Ref(("h", "op"), (), fname.endswith("mut"))], mem={("h", "op"): opv}, pc=[valid])
        ctx.functions.add("dr::Operand::" + fname)
        for r in res:
            if r.status != "return":
                ctx.ob("%s/path" % fname, None, str(r))
                continue
            some = r.value.variant == "Some"
            for name, disc in e["variants"]:
                st, m = q.check(r.pc + [d == disc], "id_ref_any")
                if st != "sat":
                    continue
                want = name in ids
                ok = some == want
                if ok and some:
                    payload = r.value.fields[0]
                    if fname == "id_ref_any":
                        ok = z3.is_bv(payload) and (".%s." % name) in str(payload)
                    else:
                        ok = isinstance(payload, sym.Ref) and any(len(s_) > 3 and s_[3] == name for s_ in payload.path)
                ctx.ob("%s/%s" % (fname, name), True if ok else False, None if ok else "returns %r" % (r.value,))
                if not ok:
                    confirmed = None
                    for probe_ in (77, 0, 0xffffffff, 1):
                        real = rp.ask("id_ref_any %s %d" % (name, probe_))
                        got = real.get(fname, "?")
                        if "error" in real:
                            break
                        if "panic" in real or got != (probe_ if want else None):
                            confirmed = (probe_, got, real)
                            break
                    if confirmed is None:
                        ctx.inconclusive.append(("%s/%s" % (fname, name), "model-only deviation (%r); the compiled crate answers %s" % (r.value, real)))
                    else:
                        probe_, got, real = confirmed
                        ctx.violation("operand/%s/%s" % (fname, name), "Operand::%s(%d): %s returns %s, expected %s" % (name, probe_, fname, got, ("Some(%d)" % probe_) if want else "None"),
                                      {"cmd": "id_ref_any %s %d" % (name, probe_), "real": real})



def from_mir(ctx, rp):
    """Every `impl From<T> for Operand` (generated and hand-written, `From<&str>` included) executed from its MIR with the payload
    symbolic: the result must be one Operand variant holding exactly the payload — for every u32 / u64 by z3, for every string or
    enumeration value because the payload is an opaque symbol that must come back untouched. An impl that cannot be shown to do so
    is probed on the compiled crate (conversion followed by the unwrap_* extractor) with payloads chosen for the conversion's type;
    a probe that fails is a concrete counterexample, no failing probe leaves the impl inconclusive."""
    mf = mir.MirFile(mir_path("rspirv"))
    ms = mir.MirFile(mir_path("spirv"))
    registry = regmod.build_registry()
    n = 0
    variants = {}
    for name, lst in sorted(mf.items.items()):
        if not re.search(r"<impl at rspirv/dr/(autogen_operand|constructs)\.rs:[^>]*>::from$", name):
            continue
        for k, ln in lst[:1]:
            fn = mf.parse_item(ln)
            if len(fn.args) != 1:
                continue
            ty = fn.args[0][1].strip()
            if ty == "u32":
                arg = z3.BitVec("payload", 32)
            elif ty == "u64":
                arg = z3.BitVec("payload", 64)
            else:
                arg = sym.Sym("payload", ty)
            tag = "From-from-MIR/%s" % ty
            eng = sym.Engine([mf, ms], registry, eager=True, loop_bound=4)
            why = None
            try:
                res = eng.run(fn, [arg], mem={}, pc=[])
            except mir.Unsupported as ex:
                res, why = [], "not encodable: %s" % str(ex)[:160]
            ctx.functions.add("dr::Operand::from(%s)" % ty)
            n += 1
            if why is None:
                if len(res) != 1 or res[0].status != "return":
                    why = "%d paths, first %s" % (len(res), res[0].status if res else "-")
                else:
                    v = res[0].value
                    if not (isinstance(v, sym.Adt) and v.ty.endswith("Operand") and len(v.fields) == 1):
                        why = "result is %r" % (v,)
                    else:
                        f = v.fields[0]
                        if z3.is_expr(arg):
                            s_ = z3.Solver()
                            s_.add(f != arg) if z3.is_expr(f) and f.sort() == arg.sort() else s_.add(z3.BoolVal(True))
                            if s_.check() != z3.unsat:
                                why = "payload altered: %s" % f
                        elif not (isinstance(f, sym.Sym) and f.name == "payload" and not f.over):
                            why = "payload altered: %r" % (f,)
                        if why is None:
                            variants.setdefault(v.variant, []).append(ty)
            if why is None:
                ctx.ob(tag, True)
                continue
            # native probes
            kind = "str" if ty in ("&str", "&'a str") else "string" if ty.endswith("String") else ty if ty in ("u32", "u64") else None
            if kind is None:
                ctx.ob(tag, None, why)
                continue
            if kind in ("str", "string"):
                probes = [b"", b"a", b"a\x00b", b"tail\x00", b"\x00", "\u00e9\u0000x".encode(), b" lead", b"trail ", b"x" * 70, "\u4e2d\u6587".encode()]
                cmds = ["from_roundtrip %s %s" % (kind, pb.hex() or "-") for pb in probes]
            else:
                cmds = ["from_roundtrip %s %d" % (kind, x) for x in (0, 1, 0x7fffffff, 0x80000000, 0xffffffff, 1 << 32, (1 << 64) - 1) if kind == "u64" or x < (1 << 32)]
            hit = None
            for cmd in cmds:
                real = rp.ask(cmd)
                if "panic" in real or real.get("same") is False or real.get("agree") is False:
                    hit = (cmd, real)
                    break
            if hit:
                ctx.ob(tag, False, "%s; native: %s" % (why, str(hit[1])[:200]))
                ctx.violation("From/%s/payload-not-preserved" % kind,
                              "Operand::from(%s) followed by the unwrap_* extractor does not return the payload (%s); on the compiled crate %r answers %s"
                              % (ty, why, hit[0], str(hit[1])[:300]), {"cmd": hit[0], "real": hit[1]})
            else:
                ctx.ob(tag, None, "%s; no native probe fails" % why)
    # two conversions into the same variant (From<&str> / From<String>) are both identity on the payload, hence agree
    ctx.extra["from_impls_from_mir"] = n
    ctx.bounds.append("From<T> for Operand: %d impls from MIR, payload symbolic (all u32 / u64 values; strings and enumeration values as opaque symbols)" % n)


def from_unwrap(ctx):
    s = tables.src("rspirv/dr/autogen_operand.rs")
    t = s.toks
    vals = [x.v for x in t]
    n_from = n_unwrap = 0
    from_map, unwrap_map = {}, {}
    i = 0
    while i < len(t) - 8:
        if vals[i:i + 4] == ["impl", "From", "<", "spirv"] and vals[i + 4] == "::":
            kind = vals[i + 5]
            j = vals.index("{", i)
            k = match_close(t, j)
            body = " ".join(vals[j + 1:k])
            mm = re.fullmatch(r"fn from \( (\w+) : spirv :: %s \) -> Self \{ Self :: (\w+) \( \1 \) \}" % kind, body)
            ok = mm is not None
            if ok:
                from_map[mm.group(2)] = kind
            ctx.ob("From<%s>" % kind, True if ok else None, None if ok else body[:120])
            n_from += 1
            i = k
        elif vals[i] == "fn" and vals[i + 1].startswith("unwrap_"):
            j = vals.index("{", i)
            k = match_close(t, j)
            sig = " ".join(vals[i:j])
            body = " ".join(vals[j + 1:k])
            m = re.search(r"-> (?:& )?(?:spirv :: )?(\w+)$", sig)
            m2 = re.match(r"match \*? ?self \{ Self :: (\w+) \( (?:ref )?(\w+) \) => (\w+)", body)
            ok = bool(m and m2 and m2.group(2) == m2.group(3))
            if ok:
                unwrap_map[m2.group(1)] = m.group(1)
            ctx.ob("unwrap/%s" % vals[i + 1], True if ok else None, None if ok else body[:120])
            n_unwrap += 1
            i = k
        i += 1
    # converting a payload into an operand and extracting it again returns the payload: From<K> -> V and unwrap of V -> K
    for v, k in from_map.items():
        if v in unwrap_map:
            ok = unwrap_map[v] == k
            ctx.ob("From/unwrap-pair/%s" % v, ok, None if ok else "From<%s> builds %s but unwrap returns %s" % (k, v, unwrap_map[v]))
            if not ok:
                # two token-level readings of code that type-checks: a mismatch here means my reader is off, not the code
                ctx.inconclusive.append(("From/unwrap-pair/%s" % v, "From<%s> builds Operand::%s but unwrap is read as returning %s" % (k, v, unwrap_map[v])))
    ctx.extra["from_impls"] = n_from
    ctx.extra["unwrap_fns"] = n_unwrap
