"""C19 — storage tokens are stable handles. K: Kani over histories of append / fetch_or_append
(Storage<u8> and Storage<Odd> with non-reflexive equality) against an array model."""
import kani

LEVEL = "model_checking"


def run(ctx):
    n = 4 if ctx.tier == "quick" else 6
    hs = ["k_storage_u8_%d" % n, "k_storage_odd_%d" % n]
    ctx.bounds.append("histories of <= %d operations, any operation kinds and any u8 values; instantiations Storage<u8>, Storage<Odd>" % n)
    ctx.assumptions += ["outside the bound: longer histories; u32 truncation of the index at 2^32 elements",
                        "CBMC unwinding assertions are on (a too-small unwind bound is a failure, not a pass)"]
    ctx.trusted += ["Kani 0.68 / CBMC 6.11 (cadical)", "scenario code /verif/kani/src/storage.rs (array model)"]
    ctx.functions.update(["rspirv::sr::storage::Storage::<T>::{new,append,fetch_or_append}", "Index<Token<T>> for Storage<T>", "Token::index"])
    res = kani.run_many(hs, cap_s=300 if ctx.tier == "quick" else 1500)
    kani.settle(ctx, res, lambda h: "storage_u8" if "u8" in h else "storage_odd")
    ctx.extra["states"] = sum(r.checks_total for r in res.values()) or 1
    ctx.extra["transitions"] = n
    ctx.extra["explanation"] = "CBMC decides the scenario for every byte string encoding a history of <= %d operations." % n
