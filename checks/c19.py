"""C19 — storage tokens are stable handles.

K   Kani over histories of append / fetch_or_append (Storage<u8>, Storage<Odd> with non-reflexive equality, Storage<Keyed> whose
    equality ignores a payload field, so 'the stored value is kept on a hit' is observable) against an array model.
M2  one-step induction on the generic MIR of `Storage::<T>::{append, fetch_or_append}`, `Index<Token<T>>` and `Token::index`:
    the pre-state is a storage of concrete length L (every L <= LMAX) holding L opaque values e0..e(L-1); the argument is an
    opaque value v; `T::eq` is an uninterpreted predicate (one free Boolean per compared pair: any equality, reflexive or not).
    `Iterator::position` is summarised as 'index of the first element the closure accepts' and runs the real closure's MIR.
    For every path: the post-state and the returned index are compared with the specification by z3 —
      append:           index = L, data' = data ++ [v];
      fetch_or_append:  first i with eq(e_i, v) -> index = i and data' = data (same values, same places), none -> as append;
      lookup(token i):  the i-th element, i < L (no panic edge reachable).
    Since every operation leaves a prefix untouched and only ever pushes at the end, the step covers histories of any length
    whose storage stays within LMAX elements."""
import z3
import kani
import sym
import mir
import reg as regmod
import itermodels
from common import mir_path, Replay
from smt import Q

LEVEL = "model_checking"


HINT = "rspirv/sr/storage.rs"


def _storage_fn(engine, last, nargs):
    for mf in engine.mirs:
        c = [mf.parse_item(ln) for _, _, ln in mf.find(last, file_hint=HINT, kind="fn")]
        c = [f for f in c if len(f.args) == nargs]
        if len(c) == 1:
            return c[0]
    raise mir.Unsupported("cannot resolve %s/%d in %s" % (last, nargs, HINT))


def m_inline(last, nargs):
    def h(engine, st, fr, callee, args, ops):
        return sym.Inline(_storage_fn(engine, last, nargs), args)
    return h


MODELS = [
    (r"^sr::storage::Token::<T>::new$", m_inline("new", 1)),
    (r"^sr::storage::Storage::<T>::append$", m_inline("append", 2)),
] + itermodels.MODELS


def eq_atoms(expr):
    out = set()

    def walk(e):
        if z3.is_const(e) and e.decl().kind() == z3.Z3_OP_UNINTERPRETED and z3.is_bool(e):
            out.add(str(e))
        for c in e.children():
            walk(c)
    walk(expr)
    return out


def boundary_lengths(lmax, top):
    """every length up to lmax, then the lengths around each power of two up to `top` (a search window, a chunk size or an index
    width shows at such a boundary)"""
    out = list(range(0, lmax + 1))
    p = 32
    while p <= top:
        out += [x for x in (p - 1, p, p + 1) if x > lmax]
        p *= 2
    return sorted(set(out))


def storage_step(ctx, lmax, top=None):
    lengths = boundary_lengths(lmax, top or lmax)
    registry = regmod.build_registry()
    mf = mir.MirFile(mir_path("rspirv"))
    q = Q(ctx)
    hint = HINT
    f_append = mf.get("append", file_hint=hint, kind="fn")
    f_fetch = mf.get("fetch_or_append", file_hint=hint, kind="fn")
    idx_c = [c for c in mf.find("index", file_hint=hint, kind="fn")]
    f_index = f_tokidx = None
    for name, k, ln in idx_c:
        it = mf.parse_item(ln)
        if len(it.args) == 2:
            f_index = it
        elif len(it.args) == 1:
            f_tokidx = it
    if f_index is None or f_tokidx is None:
        raise mir.Unsupported("Index<Token<T>> / Token::index not found in the MIR dump")
    n_paths = 0

    def mk_engine():
        return sym.Engine([mf], registry, models=MODELS, eager=True, loop_bound=max(lengths) + 8)

    def token_index(eng, st_mem, tok):
        """Token::index on the returned token, from its MIR."""
        cell = ("h", "tok")
        mem = dict(st_mem)
        mem[cell] = tok
        res = eng.run(f_tokidx, [sym.Ref(cell, ())], mem=mem)
        if len(res) != 1 or res[0].status != "return":
            raise mir.Unsupported("Token::index does not return a single value")
        return res[0].value

    def data_of(eng, mem):
        s = mem[("h", "s")]
        d = s.fields[0]
        if not isinstance(d, sym.Arr):
            raise mir.Unsupported("storage data is %r" % (d,))
        return d.items

    def same(a, b):
        return isinstance(a, sym.Sym) and isinstance(b, sym.Sym) and a.name == b.name and not a.over and not b.over

    # ---- a long history of appends from Storage::new(), whatever the representation: token k has index k and keeps yielding value k
    nhist = 300 if ctx.tier == "quick" else 1200
    eng = mk_engine()
    r0 = eng.run([f for f in [mf.parse_item(ln) for _, _, ln in mf.find("new", file_hint=HINT, kind="fn")] if len(f.args) == 0 and "Storage" in mf.lines[f.line]][0], [])
    if len(r0) == 1 and r0[0].status == "return":
        mem = dict(r0[0].mem)
        mem[("h", "s")] = r0[0].value
        toks, vals = [], []
        bad = None
        for k in range(nhist):
            vk = sym.Sym("h%d" % k, "T")
            res = eng.run(f_append, [sym.Ref(("h", "s"), (), True), vk], mem=mem)
            res = [x for x in res if x.status == "return"]
            if len(res) != 1:
                bad = "append #%d does not return on exactly one path" % (k + 1)
                break
            mem = dict(res[0].mem)
            idx = z3.simplify(token_index(eng, mem, res[0].value))
            if not (z3.is_bv_value(idx) and idx.as_long() == k):
                bad = "append #%d returns the index %s" % (k + 1, idx)
                break
            toks.append(res[0].value)
            vals.append(vk)
        if bad is None:
            for k in range(len(toks)):
                res = eng.run(f_index, [sym.Ref(("h", "s")), toks[k]], mem=mem)
                ok = len(res) == 1 and res[0].status == "return"
                if ok:
                    x = res[0].value
                    while isinstance(x, sym.Ref):
                        x = eng.read_at(_st(res[0].mem), x.root, x.path)
                    ok = same(x, vals[k])
                if not ok:
                    bad = "after %d appends the token of value #%d yields %s" % (len(toks), k + 1, repr(res[0].value if res else None)[:80])
                    break
        ctx.functions.update(eng.stats.functions)
        n_paths += nhist
        if bad is None:
            ctx.ob("history/%d-appends-then-every-lookup" % nhist, True)
        else:
            rp_ = Replay()
            real = rp_.ask("storage_history %d" % nhist)
            rp_.close()
            if real.get("ok") is False or "panic" in real:
                ctx.ob("history/%d-appends-then-every-lookup" % nhist, False, "%s; native: %s" % (bad, real))
                ctx.violation("storage/history", "%s; the real Storage: %s" % (bad, real), {"cmd": "storage_history %d" % nhist, "real": real})
                return n_paths
            ctx.ob("history/%d-appends-then-every-lookup" % nhist, None, "model-only: %s; the real Storage passes %s" % (bad, real))
    else:
        ctx.ob("history/encodable", None, "Storage::new does not evaluate: %s" % (r0[:1],))
    def any_length_leg():
        nonlocal n_paths
        # ---- append on a storage of ANY length below 2^32 (opaque contents): the token's index is the old length, one value pushed
        eng = mk_engine()
        data = sym.Sym("data", "Vec<T>")
        v0 = sym.Sym("v", "T")
        res = eng.run(f_append, [sym.Ref(("h", "s"), (), True), v0], mem={("h", "s"): sym.Adt("sr::storage::Storage", None, [data])})
        ctx.functions.update(eng.stats.functions)
        n0 = eng.len_of(None, data)
        small = z3.ULT(n0, z3.BitVecVal(1 << 32, 64))
        bad = None
        last_query = None
        for r in res:
            n_paths += 1
            pc = list(r.pc) + [small]
            if r.status != "return":
                if q.check(pc, "append-any-length/panic")[0] != "unsat":
                    bad = "a panic edge is reachable: %s %s" % (r.status, r.info)
                    mdl = q.check(pc, "append-any-length/panic")[1]
                continue
            idx = token_index(eng, r.mem, r.value)
            d1 = r.mem[("h", "s")].fields[0]
            pushed = d1.over.get(("pushed",), ()) if isinstance(d1, sym.Sym) else None
            shape_ok = isinstance(d1, sym.Sym) and d1.name == "data" and pushed is not None and len(pushed) == 1 and same(pushed[0], v0)
            query = pc + [z3.ZeroExt(64 - idx.size(), idx) != n0] if shape_ok else pc
            rr = q.check(query, "append-any-length")
            if rr[0] != "unsat":
                last_query = query
                bad = "the returned index is not the previous length" if shape_ok else "the storage is not the old contents plus the value"
                mdl = rr[1]
        if bad is None:
            ctx.ob("step/append/any-length-below-2^32", True)
        else:
            L = mdl.eval(n0, model_completion=True).as_long() if mdl is not None else 0
            # the smallest storage that shows it (so that it can be replayed)
            if mdl is not None and last_query:
                opt = z3.Optimize()
                opt.set("timeout", 60000)
                for c_ in last_query:
                    opt.add(c_)
                opt.minimize(n0)
                if opt.check() == z3.sat:
                    L = opt.model().eval(n0, model_completion=True).as_long()
            if L > (1 << 22):
                ctx.ob("step/append/any-length-below-2^32", None, "%s for a storage of %d values: too large to replay natively" % (bad, L))
            else:
                confirm(ctx, "step/append/any-length-below-2^32", "append", [False] * L, bad)
            return True
        return False
    try:
        if any_length_leg():
            return n_paths
    except mir.Unsupported as ex:
        ctx.ob("step/append/any-length/encodable", None, "the representation-specific leg cannot be encoded: %s" % str(ex)[:200])
    for L in lengths:
        elems = [sym.Sym("e%d" % i, "T") for i in range(L)]
        v = sym.Sym("v", "T")
        s0 = sym.Adt("sr::storage::Storage", None, [sym.Arr(elems, "vec")])
        for opname, fn in (("append", f_append), ("fetch_or_append", f_fetch)):
            eng = mk_engine()
            res = eng.run(fn, [sym.Ref(("h", "s"), (), True), v], mem={("h", "s"): s0})
            ctx.functions.update(eng.stats.functions)
            tag = "step/%s/len-%d" % (opname, L)
            covered = []
            bad = None
            for r in res:
                n_paths += 1
                pc = z3.And(*r.pc) if r.pc else z3.BoolVal(True)
                if r.status != "return":
                    rr = q.check([pc], "panic-edge")
                    if rr[0] == "unknown":
                        raise mir.Unsupported("solver: %s" % (rr[1],))
                    if rr[0] == "sat":
                        bad = ("a panic edge is reachable: %s %s" % (r.status, r.info), pc)
                        break
                    continue
                idx = token_index(eng, r.mem, r.value)
                data = data_of(eng, r.mem)
                # the specification, as a formula over the equality atoms
                atoms = [sym.struct_eq(eng, None, elems[i], v) for i in range(L)] if opname == "fetch_or_append" else []
                hit = None
                if len(data) == L and all(same(a, b) for a, b in zip(data, elems)):
                    shape = "unchanged"
                elif len(data) == L + 1 and all(same(a, b) for a, b in zip(data, elems)) and same(data[L], v):
                    shape = "appended"
                else:
                    shape = "other"
                if opname == "append":
                    want = z3.BoolVal(shape == "appended") if shape != "appended" else (idx == L)
                else:
                    # prefix[i] = "none of the first i values equals the argument", as a chain of shared sub-terms (linear size)
                    prefix = [z3.BoolVal(True)]
                    for a in atoms:
                        prefix.append(z3.And(prefix[-1], z3.Not(a)))
                    cases = [z3.And(prefix[L], idx == L)] if shape == "appended" else []
                    if shape == "unchanged":
                        cases += [z3.And(prefix[i], a, idx == i) for i, a in enumerate(atoms)]
                    want = z3.Or(*cases) if cases else z3.BoolVal(False)
                covered.append(pc)
                rr = q.check([pc, z3.Not(want)], "path-post")
                if rr[0] == "unknown":
                    raise mir.Unsupported("solver: %s" % (rr[1],))
                if rr[0] == "sat":
                    bad = ("returns index %s with the data %s" % (z3.simplify(idx), shape), z3.And(pc, z3.Not(want)))
                    break
            if bad is None and q.check([z3.Not(z3.Or(*covered)) if covered else z3.BoolVal(True)], "paths-exhaustive")[0] != "unsat":
                bad = ("some equality outcomes have no returning path", z3.Not(z3.Or(*covered)) if covered else z3.BoolVal(True))
            if bad is None:
                ctx.ob(tag, True)
                continue
            # witness: which elements compare equal to the argument
            s = z3.Solver()
            s.add(bad[1])
            s.check()
            m = s.model()
            eqs = []
            for i in range(L):
                a = sym.struct_eq(eng, None, elems[i], v)
                eqs.append(bool(z3.is_true(m.eval(a, model_completion=True))))
            confirm(ctx, tag, opname, eqs, bad[0])
            return n_paths
        # lookup through every token of a storage of length L (and one past the end is the caller's error, outside the property)
        eng = mk_engine()
        for i in range(L):
            if L > 6 and i not in (0, 1, L // 2, L - 2, L - 1):
                continue
            tok = sym.Adt("sr::storage::Token", None, [z3.BitVecVal(i, 32), sym.UNIT])
            res = eng.run(f_index, [sym.Ref(("h", "s")), tok], mem={("h", "s"): s0})
            ok = len(res) == 1 and res[0].status == "return"
            if ok:
                x = res[0].value
                while isinstance(x, sym.Ref):
                    x = eng.read_at(_st(res[0].mem), x.root, x.path)
                ok = same(x, elems[i])
            if not ok:
                ctx.ob("step/lookup/len-%d/token-%d" % (L, i), False, repr(res)[:200])
                confirm(ctx, "step/lookup/len-%d" % L, "lookup", [False] * L, "token %d does not yield the %d-th value" % (i, i), lookup=i)
                return n_paths
        ctx.ob("step/lookup/len-%d" % L, True)
    return n_paths


class _st:
    def __init__(self, mem):
        self.mem = mem


def confirm(ctx, tag, opname, eqs, what, lookup=None):
    """Replay the witness natively: a storage of len(eqs) values whose equality with the argument is as in the model."""
    rp = Replay()
    pat = "".join("1" if e else "0" for e in eqs) or "-"
    if len(eqs) > 64 and not any(eqs):
        pat = "n%d" % len(eqs)
    ans = rp.ask("storage_step %s %s" % (opname, pat))
    rp.close()
    L = len(eqs)
    first = eqs.index(True) if True in eqs else None
    if opname == "append" or first is None:
        want = dict(index=L, len=L + 1, kept=True)
    else:
        want = dict(index=first, len=L, kept=True)
    got = {k: ans.get(k) for k in ("index", "len", "kept")}
    if "panic" in ans or got != want:
        ctx.ob(tag, False, "%s; native: %s, expected %s" % (what, ans, want))
        ctx.violation("storage/%s" % opname,
                      "%s on a storage of %d values, equal-to-argument pattern %s: %s; the real Storage answers %s, the property demands %s"
                      % (opname, L, pat if len(pat) <= 64 else pat[:61] + "...", what, ans, want),
                      {"op": opname, "eq_pattern": eqs, "native": ans, "expected": want})
    else:
        ctx.ob(tag, None, "model-only deviation (%s); the real code answers as specified: %s" % (what, ans))


def run(ctx):
    n = 4 if ctx.tier == "quick" else 6
    lmax = 24 if ctx.tier == "quick" else 64
    top = 256 if ctx.tier == "quick" else 512
    hs = ["k_storage_u8_%d" % n, "k_storage_odd_%d" % n, "k_storage_keyed_%d" % n, "k_storage_cross_%d" % min(n, 5)]
    if n > 5:
        hs.append("k_storage_cross_%d" % n)   # optional: exhausts CBMC's memory (14 GB) on this machine; histories of 5 are the required verdict
    ctx.bounds.append("K: histories of <= %d operations, any operation kinds and any u8 values; instantiations Storage<u8>, Storage<Odd>, Storage<Keyed>" % n)
    ctx.bounds.append("M2: one step of append / fetch_or_append from every storage of length 0..%d with opaque values and an uninterpreted "
                      "equality, and of the lengths 2^k-1, 2^k, 2^k+1 up to %d; lookup through tokens 0..L-1" % (lmax, top + 1))
    ctx.assumptions += ["outside the bound: fetch_or_append on storages of more than %d elements other than the power-of-two boundary lengths (M2; append: any length below 2^32) / histories of more than %d operations (K); u32 truncation of the index at 2^32 elements" % (lmax, n),
                        "CBMC unwinding assertions are on (a too-small unwind bound is a failure, not a pass)",
                        "M2 summary: Iterator::position = index of the first element the (real, MIR-executed) closure accepts; Vec::push/len/index built-in models"]
    ctx.trusted += ["Kani 0.68 / CBMC 6.11 (cadical)", "scenario code /verif/kani/src/storage.rs (array model)", "rustc MIR (generic, pre-monomorphisation)", "mirsym"]
    ctx.functions.update(["rspirv::sr::storage::Storage::<T>::{new,append,fetch_or_append}", "Index<Token<T>> for Storage<T>", "Token::index"])
    try:
        paths = storage_step(ctx, lmax, top)
    except mir.Unsupported as ex:
        ctx.ob("step/encodable", None, "Storage<T> step cannot be encoded: %s" % str(ex)[:300])
        paths = 0
    except (IndexError, KeyError, AttributeError, TypeError) as ex:
        # the storage no longer has the representation the state-constructing legs assume
        ctx.ob("step/encodable", None, "Storage<T> step cannot be encoded (representation changed?): %s: %s" % (type(ex).__name__, str(ex)[:200]))
        paths = 0
    if not ctx.violations:
        res = kani.run_many(hs, cap_s=1200 if ctx.tier == "quick" else 3000)
        kani.settle(ctx, res, lambda h: "storage_u8" if "u8" in h else ("storage_odd" if "odd" in h else ("storage_cross" if "cross" in h else "storage_keyed")), optional=("k_storage_cross_6",))
        ctx.extra["states"] = (sum(r.checks_total for r in res.values()) or 1) + paths
    else:
        ctx.extra["states"] = paths
    ctx.extra["transitions"] = n
    ctx.extra["explanation"] = ("CBMC decides the scenario for every byte string encoding a history of <= %d operations; z3 decides one step of "
                                "each operation from every storage of <= %d opaque values under an arbitrary equality." % (n, lmax))
