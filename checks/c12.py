"""C12 — Builder calls never panic, failed calls change nothing, structure is enforced.
K: one arbitrary call (17 call kinds covering begin/end function, begin block, terminators, block instructions,
parameter, module-level instruction, variable/undef/line/no_line, select_function/select_block with any index,
pop_instruction, insertion points with offsets within the block, id()) from an arbitrary state that satisfies the
invariant the property states, over module shapes (functions x blocks x instructions); the invariant is re-checked
after the call, so invariant + step covers call histories of any length on these shapes."""
import kani

LEVEL = "model_checking"
SHAPES_QUICK = ["0_0_0", "1_0_0", "1_1_1", "2_1_1"]
SHAPES_THOROUGH = ["0_0_0", "1_0_0", "1_1_0", "1_1_1", "2_1_1", "2_2_1"]


def run(ctx):
    shapes = SHAPES_QUICK if ctx.tier == "quick" else SHAPES_THOROUGH
    hs = ["k_builder_step_" + s for s in shapes]
    ctx.bounds += ["module shapes (functions_blocks_instructions): %s; selection any Option<usize> x Option<usize> satisfying the invariant; next_id any u32 in 1..=0xfffffff0" % shapes,
                   "one call of 17 kinds with arbitrary arguments (explicit/implicit ids, any selection index, insertion offsets <= block length)"]
    ctx.assumptions += ["precondition = the property's own invariant: a selected block implies a selected function, both indices in range",
                        "CoreInstructionTable::get is stubbed by its contract get(op).opcode == op (discharged by C09)",
                        "outside: id counter exhaustion (next_id > 0xfffffff0); insertion offsets beyond the block length; shapes larger than 2x2x1"]
    ctx.trusted += ["Kani 0.68 / CBMC 6.11, unwinding assertions on", "hook Builder::verif_from_parts / verif_next_id"]
    ctx.functions.update(["rspirv::dr::Builder::{begin_function,end_function,begin_block,ret,insert_ret,nop,insert_nop,function_parameter,capability,variable,undef,line,no_line,select_function,select_block,pop_instruction,id,insert_into_block,insert_end_block}"])
    res = kani.run_many(hs, cap_s=600 if ctx.tier == "quick" else 2400)
    kani.settle(ctx, res, lambda h: h[2:])
    ctx.extra["states"] = sum(r.checks_total for r in res.values()) or 1
    ctx.extra["transitions"] = 17 * len(hs)
    ctx.extra["harness_times_s"] = {h: round(r.time, 1) for h, r in res.items()}
    ctx.extra["explanation"] = "CBMC decides, for every state of the stated shapes satisfying the invariant and every call, the post-conditions and the invariant."
