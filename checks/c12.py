"""C12 (and the id part of C13) — Builder calls never panic, failed calls change nothing, structure is enforced.

M2: the Builder's hand-written methods (and the generated `ret`/`nop`/`insert_*` wrappers over them) are executed
symbolically from MIR — everything under `dr::build` is inlined from its own MIR, `dr::Instruction::new` included,
`CoreInstructionTable::get` replaced by its contract (C09) — from EVERY state of a family of module shapes that satisfies
the invariant the property states (selection designates an existing function and block, or nothing), with the id counter
symbolic, for every call of the property's list with every Option / index / insertion-point argument enumerated.
Each path must return (no panic edge), answer Ok/Err as the property says, re-establish the invariant, leave the module
value untouched on Err, and obey the id discipline (z3 over the counter). Invariant + step => call histories of any length.
Violating paths are replayed natively through the scenario crate (the K scenario `builder_step_*`)."""
import re
import z3
import sym
import mir
import tables
import reg as regmod
from common import mir_path, Inconclusive, Replay
from smt import Q
import c05

LEVEL = "model_checking"

# (NF, NB of function 0, NB of the others, NI) — the shapes the native scenario crate also knows
SHAPES_QUICK = [(0, 0, 0, 0), (1, 0, 0, 0), (1, 1, 0, 0), (1, 1, 0, 1), (2, 1, 0, 1)]
SHAPES_THOROUGH = SHAPES_QUICK + [(2, 2, 1, 1)]

# call ids follow /verif/kani/src/builder.rs
GROUPS = [[0, 1, 2, 5], [3, 4, 13, 14, 16], [6, 7, 8, 9, 10], [11, 12, 15]]


def m_inline_builder(engine, st, fr, callee, args, ops):
    name = re.match(r"^(?:\w+::)*Builder::(\w+)(?:::<.*>)?$", callee).group(1)
    for mf in engine.mirs:
        c = [x for x in mf.find(name) if "dr/build/" in x[0] and "closure" not in x[0]]
        if len(c) == 1:
            return sym.Inline(mf.parse_item(c[0][2]), args)
    raise mir.Unsupported("cannot resolve Builder::%s" % name)


def m_inline_new(engine, st, fr, callee, args, ops):
    ty = re.match(r"^(?:\w+::)*(\w+)::new$", callee).group(1)
    for mf in engine.mirs:
        c = [x for x in mf.find("new") if re.search(r"\) -> (\w+::)*%s \{$" % ty, mf.lines[x[2]]) and "constructs" in x[0]]
        if len(c) == 1:
            return sym.Inline(mf.parse_item(c[0][2]), args)
    raise mir.Unsupported("cannot resolve %s" % callee)


def m_table_get(engine, st, fr, callee, args, ops):
    cell = ("h", engine.fresh_name("class"))
    st.mem[cell] = sym.Adt("grammar::Instruction", None, [sym.StrV("?"), args[0], sym.Sym("caps", "&[Capability]"),
                                                         sym.Sym("exts", "&[&str]"), sym.Sym("ops", "&[LogicalOperand]")])
    return sym.Ref(cell, ())


MODELS = [
    (r"^(\w+::)*Builder::\w+(::<.*>)?$", m_inline_builder),
    (r"^(\w+::)*(Instruction|Function|Block|Module|ModuleHeader)::new$", m_inline_new),
    (r"CoreInstructionTable::get$", m_table_get),
    (r"^(\w+::)*ModuleHeader::(set_version|version)$", lambda e, s, f, c, a, o: sym.Inline(
        [mf_.parse_item(x[2]) for mf_ in e.mirs for x in mf_.find(c.split("::")[-1]) if "constructs" in x[0]][0], a)),
    (r"^(\w+::)*(create_word_from_version|create_version_from_word|is_type_identical)$",
     lambda e, s, f, c, a, o: sym.Inline(e.resolve_fn(c.split("::")[-1]), a)),
    (r"^(\w+::)*is_[a-z_]+$", lambda e, s, f, c, a, o: sym.Inline(e.resolve_fn(c.split("::")[-1]), a)),   # grammar::reflect predicates, from their MIR
    (r"^core::num::<impl u32>::from_le_bytes$", lambda e, s, f, c, a, o: z3.Concat(*reversed([x for x in a[0].items]))),
    (r"^core::num::<impl u32>::to_le_bytes$", lambda e, s, f, c, a, o: sym.Arr([z3.Extract(8 * i + 7, 8 * i, a[0]) for i in range(4)])),
]


def _with_iter_models():
    import itermodels
    return MODELS + itermodels.MODELS


def none():
    return sym.Adt("Option", "None", [])


def some(v):
    return sym.Adt("Option", "Some", [v])


def vec(items):
    return sym.Arr(items, "vec")


def make_state(shape, sel_f, sel_b, next_id, fields, ended=False):
    nf, nb0, nb1, ni = shape
    funcs = []
    for f in range(nf):
        blocks = []
        for b in range(nb0 if f == 0 else nb1):
            insts = [sym.Sym("inst_%d_%d_%d" % (f, b, i), "Instruction") for i in range(ni)]
            blk = {"label": some(sym.Sym("label_%d_%d" % (f, b), "Instruction")), "instructions": vec(insts)}
            blocks.append(sym.Adt("Block", None, [blk[n] for n in fields["Block"]]))
        fn = {"def": some(sym.Sym("def_%d" % f, "Instruction")), "end": some(sym.Sym("end_%d" % f, "Instruction")) if ended else none(),
              "parameters": vec([]), "blocks": vec(blocks)}
        funcs.append(sym.Adt("Function", None, [fn[n] for n in fields["Function"]]))
    mod = {}
    for n in fields["Module"]:
        mod[n] = vec([])
    mod["header"] = none()
    mod["memory_model"] = none()
    mod["functions"] = vec(funcs)
    module = sym.Adt("Module", None, [mod[n] for n in fields["Module"]])
    usz = lambda x: none() if x is None else some(z3.BitVecVal(x, 64))
    b = {"module": module, "next_id": next_id, "selected_function": usz(sel_f), "selected_block": usz(sel_b)}
    return sym.Adt("Builder", None, [b[n] for n in fields["Builder"]])


def same(a, b):
    if a is b:
        return True
    if z3.is_expr(a) and z3.is_expr(b):
        return a.eq(b)
    if isinstance(a, sym.Sym) and isinstance(b, sym.Sym):
        return a.name == b.name and a.over.keys() == b.over.keys() and all(same(a.over[k], b.over[k]) for k in a.over)
    if isinstance(a, sym.Adt) and isinstance(b, sym.Adt):
        return a.variant == b.variant and len(a.fields) == len(b.fields) and all(same(x, y) for x, y in zip(a.fields, b.fields))
    if isinstance(a, sym.Arr) and isinstance(b, sym.Arr):
        return len(a.items) == len(b.items) and all(same(x, y) for x, y in zip(a.items, b.items))
    if isinstance(a, sym.Unit) and isinstance(b, sym.Unit):
        return True
    if isinstance(a, sym.StrV) and isinstance(b, sym.StrV):
        return a.s == b.s
    return False


def optval(v):
    if v.variant == "None":
        return None
    x = z3.simplify(v.fields[0])
    return x.as_long() if z3.is_bv_value(x) else x


def calls_for(shape, sel_f, sel_b):
    """(call id, label, method, extra args builder, raw args for the native scenario)"""
    nf, nb0, nb1, ni = shape
    nbsel = (nb0 if sel_f == 0 else nb1) if sel_f is not None else 0
    w = z3.BitVec("w", 32)
    u = lambda n: z3.BitVecVal(n, 64)
    out = []
    for explicit in (False, True):
        ex = some(w) if explicit else none()
        a0 = 1 if explicit else 0
        out.append((0, "begin_function(%s)" % ("Some" if explicit else "None"), "begin_function",
                    [z3.BitVecVal(7, 32), ex, z3.BitVec("ctl", 32), z3.BitVecVal(8, 32)], (a0, 0, 0)))
        out.append((2, "begin_block(%s)" % ("Some" if explicit else "None"), "begin_block", [ex], (a0, 0, 0)))
        out.append((7, "variable(%s)" % ("Some" if explicit else "None"), "variable",
                    [z3.BitVecVal(9, 32), ex, z3.BitVec("sc", 32), none()], (a0, 0, 0)))
        out.append((8, "undef(%s)" % ("Some" if explicit else "None"), "undef", [z3.BitVecVal(9, 32), ex], (a0, 0, 0)))
    out.append((1, "end_function", "end_function", [], (0, 0, 0)))
    out.append((3, "ret", "ret", [], (0, 0, 0)))
    out.append((4, "nop", "nop", [], (0, 0, 0)))
    out.append((5, "function_parameter", "function_parameter", [z3.BitVecVal(9, 32)], (0, 0, 0)))
    out.append((6, "capability", "capability", [z3.BitVec("cap", 32)], (0, 0, 0)))
    out.append((9, "line", "line", [z3.BitVecVal(3, 32), z3.BitVec("l", 32), z3.BitVec("c", 32)], (0, 0, 0)))
    out.append((10, "no_line", "no_line", [], (0, 0, 0)))
    for idx in [None] + list(range(nf + 2)):
        out.append((11, "select_function(%s)" % idx, "select_function", [none() if idx is None else some(u(idx))],
                    (0 if idx is None else 1, idx or 0, 0)))
    for idx in [None] + list(range(max(nb0, nb1) + 2)):
        out.append((12, "select_block(%s)" % idx, "select_block", [none() if idx is None else some(u(idx))],
                    (0 if idx is None else 1, idx or 0, 0)))
    out.append((13, "pop_instruction", "pop_instruction", [], (0, 0, 0)))
    cur_len = ni if sel_b is not None else 0
    for kind, nm in ((0, "Begin"), (1, "End")):
        out.append((14, "insert_nop(%s)" % nm, "insert_nop", [sym.Adt("build::InsertPoint", nm, [])], (0, 0, kind)))
        out.append((16, "insert_ret(%s)" % nm, "insert_ret", [sym.Adt("build::InsertPoint", nm, [])], (0, 0, kind)))
    for off in range(cur_len + 1):
        out.append((14, "insert_nop(FromBegin(%d))" % off, "insert_nop", [sym.Adt("build::InsertPoint", "FromBegin", [u(off)])], (0, off, 2)))
        out.append((14, "insert_nop(FromEnd(%d))" % off, "insert_nop", [sym.Adt("build::InsertPoint", "FromEnd", [u(off)])], (0, off, 3)))
    out.append((15, "id", "id", [], (0, 0, 0)))
    return out


def expect_ok(call, fn_open, blk_open, shape, sel_f, args_raw):
    nf, nb0, nb1, ni = shape
    nbsel = (nb0 if sel_f == 0 else nb1) if sel_f is not None else 0
    if call == 0:
        return not fn_open
    if call in (1, 5):
        return fn_open
    if call == 2:
        return fn_open and not blk_open
    if call in (3, 4, 14, 16):
        return blk_open
    if call == 13:
        return blk_open and ni > 0
    if call == 11:
        return args_raw[0] == 0 or args_raw[1] < nf
    if call == 12:
        return args_raw[0] == 0 or (fn_open and args_raw[1] < nbsel)
    return True


def run(ctx):
    q = Q(ctx, cross_every=500)
    registry = regmod.build_registry()
    mf = mir.MirFile(mir_path("rspirv"))
    ms = mir.MirFile(mir_path("spirv"))
    fields = {
        "Module": c05.struct_fields("rspirv/dr/constructs.rs", "Module"),
        "Function": c05.struct_fields("rspirv/dr/constructs.rs", "Function"),
        "Block": c05.struct_fields("rspirv/dr/constructs.rs", "Block"),
        "Builder": c05.struct_fields("rspirv/dr/build/mod.rs", "Builder"),
    }
    shapes = SHAPES_QUICK if ctx.tier == "quick" else SHAPES_THOROUGH
    ctx.bounds += ["module shapes (functions, blocks of function 0, blocks of the other functions, instructions per block): %s" % shapes,
                   "every selection satisfying the invariant; id counter any u32 in 1..=0xfffffff0; every call of the list with every Option/index/"
                   "insertion-point argument (indices up to len+1, offsets within the block); one call per state (inductive step)"]
    ctx.assumptions += ["precondition = the property's invariant: a selected block implies a selected function, both indices in range",
                        "CoreInstructionTable::get replaced by its contract get(op).opcode == op (discharged by C09)",
                        "outside: id counter exhaustion; insertion offsets beyond the block length; shapes beyond those listed"]
    ctx.trusted += ["rustc MIR", "mirsym and its std models (Vec::{push,insert,pop,len,index}, Option::*, the vec! literal lowering)", "z3"]
    nid = z3.BitVec("next_id", 32)
    pre = [z3.UGE(nid, 1), z3.ULE(nid, 0xfffffff0)]
    rp = Replay()
    npaths = 0
    nstates = 0
    bidx = {n: i for i, n in enumerate(fields["Builder"])}
    for shape in shapes:
        nf, nb0, nb1, ni = shape
        sels = [(None, None)]
        for f in range(nf):
            sels.append((f, None))
            for b in range(nb0 if f == 0 else nb1):
                sels.append((f, b))
        # every function still open, or every function finished (OpFunctionEnd present) and selected again for editing
        for sel_f, sel_b, ended in [(f_, b_, e_) for e_ in ((False, True) if nf else (False,)) for f_, b_ in sels]:
            nstates += 1
            for call, label, method, args, raw_args in calls_for(shape, sel_f, sel_b):
                eng = sym.Engine([mf, ms], registry, models=MODELS, eager=True, loop_bound=6)
                b0 = make_state(shape, sel_f, sel_b, nid, fields, ended)
                c = [x for x in mf.find(method) if "dr/build/" in x[0] and "closure" not in x[0]]
                if len(c) != 1:
                    raise Inconclusive("Builder::%s: %d MIR candidates" % (method, len(c)))
                fn = mf.parse_item(c[0][2])
                res = eng.run(fn, [sym.Ref(("h", "b"), (), True)] + args, mem={("h", "b"): b0}, pc=list(pre))
                ctx.functions.update(eng.stats.functions)
                name = "builder/%s%s/sel=%s,%s/%s" % ("_".join(map(str, shape)), "-ended" if ended else "", sel_f, sel_b, label)
                for r in res:
                    npaths += 1
                    bad = check_path(q, r, b0, bidx, fields, shape, sel_f, sel_b, call, raw_args, nid, args)
                    if bad is None:
                        ctx.ob(name, True)
                        continue
                    # native replay through the scenario crate
                    w = bad[2] if len(bad) > 2 else 5
                    grp = [g for g in range(4) if call in GROUPS[g]][0]
                    raw = bytes([(0 if sel_f is None else 1) | (2 if ended else 0), sel_f or 0, 0 if sel_b is None else 1, sel_b or 0]) + \
                        int(w).to_bytes(4, "little") + bytes([GROUPS[grp].index(call), raw_args[0], raw_args[1], raw_args[2]]) + (0x1234).to_bytes(4, "little")
                    scen = "builder_step_%d_%d_%d_%d_g%d" % (nf, nb0, nb1, ni, grp)
                    real = rp.ask("scenario %s %s" % (scen, raw.hex()))
                    code = real.get("code")
                    if not ("panic" in real or (code is not None and code >= 100)) and ni:
                        # the model's instructions are opaque; the native state had blocks of OpNop: try blocks ending in a terminator
                        raw = bytes([raw[0] | 4]) + raw[1:]
                        real = rp.ask("scenario %s %s" % (scen, raw.hex()))
                        code = real.get("code")
                    if "panic" in real or (code is not None and code >= 100):
                        import kani
                        what = "panic: %s (%s)" % (real.get("panic"), real.get("at")) if "panic" in real else kani.code_names().get(code, str(code))
                        ctx.ob(name, False, "%s; native: %s" % (bad[1], what))
                        ctx.violation("builder/%s/%s" % (method, bad[0]),
                                      "shape %s%s, selection (%s, %s), next_id=%d: %s -> %s; on the compiled crate: %s" % (shape, " (functions finished)" if ended else "", sel_f, sel_b, w, label, bad[1], what),
                                      {"cmd": "scenario %s %s" % (scen, raw.hex()), "real": real})
                    else:
                        ctx.ob(name, None, "model reports '%s' but the compiled crate does not (%s)" % (bad[1], real))
    every_terminator(ctx, q, mf, ms, registry, fields, nid, pre, rp)
    every_method_no_panic(ctx, q, mf, ms, registry, fields, nid, pre, rp)
    select_by_name(ctx, q, mf, ms, registry, fields, nid, pre, rp)
    rp.close()
    ctx.validated = rp.count
    ctx.extra["states"] = nstates
    ctx.extra["transitions"] = npaths
    ctx.extra["cvc5"] = q.summary()
    ctx.extra["explanation"] = ("Every (shape, valid selection, call) triple is executed symbolically from the Builder's MIR with the id counter symbolic; "
                                "post-conditions and invariant checked per path; counter arithmetic by z3.")


def select_by_name(ctx, q, mf, ms, registry, fields, nid, pre, rp):
    """`select_function_by_name` from EVERY valid selection of a module with two finished, named functions of different block
    counts (2 and 1): executed from MIR with the function ids symbolic (pairwise distinct) and the OpName instructions concrete
    (names "a", "b", a name "c" on a non-function id, a later duplicate "b" on function 0). No panic edge may be feasible, the
    selection afterwards must designate an existing function and block or nothing, an unknown name fails and changes nothing."""
    nb = (2, 1)
    shape = (2, nb[0], nb[1], 1)
    bidx = {n: i for i, n in enumerate(fields["Builder"])}
    midx = {n: i for i, n in enumerate(fields["Module"])}
    fidx = {n: i for i, n in enumerate(fields["Function"])}
    ids = [z3.BitVec("fid0", 32), z3.BitVec("fid1", 32), z3.BitVec("other", 32)]
    distinct = [z3.Distinct(*ids)]
    c = [x for x in mf.find("select_function_by_name") if "dr/build/" in x[0] and "closure" not in x[0]]
    if len(c) != 1:
        raise Inconclusive("Builder::select_function_by_name: %d MIR candidates" % len(c))
    fn = mf.parse_item(c[0][2])
    ctx.functions.add("dr::Builder::select_function_by_name")
    ctx.bounds.append("select_function_by_name: module of two finished functions (2 blocks, 1 block), four OpName instructions, every valid "
                      "selection, names a/b/c/zz; function ids symbolic and pairwise distinct")
    expect = {"a": 0, "b": 1, "c": None, "zz": None}
    sels = [(None, None), (0, None), (0, 0), (0, 1), (1, None), (1, 0)]
    for sel_f, sel_b in sels:
        for name in sorted(expect):
            mem = {}

            def cls(tag, op):
                mem[("h", tag)] = sym.Adt("grammar::Instruction", None, [sym.StrV("?"), z3.BitVecVal(op, 32), sym.Sym("caps" + tag, "&[Capability]"),
                                                                         sym.Sym("exts" + tag, "&[&str]"), sym.Sym("operands" + tag, "&[LogicalOperand]")])
                return sym.Ref(("h", tag), ())
            b0 = make_state(shape, sel_f, sel_b, nid, fields, True)
            module = b0.fields[bidx["module"]]
            nfs = []
            for k, f in enumerate(module.fields[midx["functions"]].items):
                fl = list(f.fields)
                fl[fidx["def"]] = some(sym.Adt("Instruction", None, [cls("cf%d" % k, 54), some(z3.BitVecVal(7, 32)), some(ids[k]), sym.Arr([], "vec")]))
                nfs.append(sym.Adt("Function", None, fl))
            names = []
            for k, (target, nm) in enumerate([(ids[0], "a"), (ids[1], "b"), (ids[2], "c"), (ids[0], "b")]):
                names.append(sym.Adt("Instruction", None, [cls("cn%d" % k, 5), none(), none(),
                                                           sym.Arr([sym.Adt("dr::constructs::Operand", "IdRef", [target]),
                                                                    sym.Adt("dr::constructs::Operand", "LiteralString", [sym.StrV(nm)])], "vec")]))
            ml = list(module.fields)
            ml[midx["functions"]] = sym.Arr(nfs, "vec")
            ml[midx["debug_names"]] = sym.Arr(names, "vec")
            bl = list(b0.fields)
            bl[bidx["module"]] = sym.Adt("Module", None, ml)
            b0 = sym.Adt("Builder", None, bl)
            mem[("h", "b")] = b0
            eng = sym.Engine([mf, ms], registry, models=MODELS, eager=True, loop_bound=8)
            tag = "builder/select_function_by_name/sel=%s,%s/%s" % (sel_f, sel_b, name)
            try:
                res = eng.run(fn, [sym.Ref(("h", "b"), (), True), sym.StrV(name)], mem=mem, pc=list(pre) + distinct)
            except mir.Unsupported as ex:
                ctx.ob(tag, None, "not encodable: %s" % str(ex)[:200])
                continue
            bad = None
            for r in res:
                st, m = q.check(r.pc, "by-name-path-feasible")
                if st == "unsat":
                    continue
                if r.status != "return":
                    bad = ("panics", "%s %s" % (r.status, r.info))
                    break
                b1 = r.mem[("h", "b")]
                ok = not (isinstance(r.value, sym.Adt) and r.value.variant == "Err")
                f1, bl1 = optval(b1.fields[bidx["selected_function"]]), optval(b1.fields[bidx["selected_block"]])
                if ok != (expect[name] is not None):
                    bad = ("accepts-unknown-name" if ok else "rejects-known-name", "returns %r for name %r" % (r.value, name))
                elif ok and f1 != expect[name]:
                    bad = ("selects-wrong-function", "selected_function=%s for name %r (function %s bears it first)" % (f1, name, expect[name]))
                elif ok and bl1 is not None and not (isinstance(bl1, int) and bl1 < nb[f1]):
                    bad = ("stale-block-selection", "selected_block=%s but function %s has %d block(s)" % (bl1, f1, nb[f1]))
                elif not ok and not same(b1, b0):
                    bad = ("failed-call-changed-builder", "returns Err but the builder differs")
                if bad:
                    break
            if bad is None:
                ctx.ob(tag, True)
                continue
            real = rp.ask("select_by_name %s %s %s" % ("-" if sel_f is None else sel_f, "-" if sel_b is None else sel_b, name))
            res_s = str(real.get("result", ""))
            rf, rb, rn = real.get("sel_f"), real.get("sel_b"), real.get("nblocks")
            confirmed = "panic" in real or \
                (bad[0] == "accepts-unknown-name" and res_s.startswith("Ok")) or (bad[0] == "rejects-known-name" and res_s.startswith("Err")) or \
                (bad[0] == "selects-wrong-function" and res_s.startswith("Ok") and rf != expect[name]) or \
                (bad[0] == "stale-block-selection" and rb is not None and (rn is None or rb >= rn or real.get("usable") is False)) or \
                (bad[0] == "failed-call-changed-builder" and res_s.startswith("Err") and (rf, rb) != (sel_f, sel_b))
            if confirmed:
                ctx.ob(tag, False, "%s; native: %s" % (bad[1], str(real)[:200]))
                ctx.violation("builder/select_function_by_name/%s" % bad[0],
                              "two functions (2 blocks, 1 block), selection (%s, %s), select_function_by_name(%r): %s; on the compiled crate: %s"
                              % (sel_f, sel_b, name, bad[1], str(real)[:300]),
                              {"cmd": "select_by_name %s %s %s" % ("-" if sel_f is None else sel_f, "-" if sel_b is None else sel_b, name), "real": real})
                return
            ctx.ob(tag, None, "model reports '%s' but the compiled crate does not show it: %s" % (bad[1], str(real)[:200]))


def every_method_no_panic(ctx, q, mf, ms, registry, fields, nid, pre, rp):
    """'Never panics' for EVERY Builder method (the step check above covers the listed structural calls in all states): each
    method is executed from MIR with the SECOND block of the only function selected — function index and block index differ, so
    an index confusion cannot hide — and no panic edge may be feasible."""
    import bsweep
    methods = bsweep.builder_methods(mf)
    skip = {"verif_from_parts", "verif_next_id", "module", "module_ref", "module_mut", "new_from_module", "new", "find_return_block_indices", "select_function_by_name"}
    n = 0
    for name, file, line in methods:
        if name in skip or name.startswith("verif_"):
            continue
        fn = mf.parse_item(line)
        eng = sym.Engine([mf, ms], registry, models=MODELS + bsweep.EXTRA_MODELS, eager=True, loop_bound=4)
        try:
            combos = bsweep.signature_args(eng, fn, max_combos=1)
        except mir.Unsupported:
            continue
        for args in combos[:1]:
            b0 = make_state((1, 2, 0, 1), 0, 1, nid, fields)
            try:
                res = eng.run(fn, [sym.Ref(("h", "b"), (), True)] + list(args), mem={("h", "b"): b0}, pc=list(pre))
            except mir.Unsupported:
                continue        # the per-method legs of C06 / C13 report methods that cannot be encoded
            n += 1
            for r in res:
                if r.status != "panic":
                    continue
                st, m = q.check(list(r.pc), "method-panic")
                if st != "sat":
                    continue
                real = rp.ask("builder_call %s 3" % name)
                if "panic" in real:
                    ctx.ob("builder/no-panic/%s" % name, False, str(r.info))
                    ctx.violation("builder/%s/panics" % name, "Builder::%s with the second block of the function selected panics: %s (%s)" % (name, real["panic"], real.get("at")),
                                  {"cmd": "builder_call %s 3" % name, "real": real})
                    return
                ctx.extra.setdefault("model_only_panic_edges", []).append("%s: %s" % (name, r.info))
    ctx.ob("builder/no-panic/every-method-with-the-second-block-selected", True, "%d methods" % n)


def every_terminator(ctx, q, mf, ms, registry, fields, nid, pre, rp):
    """'Appending a terminator fails iff no block is selected; a terminator closes the block' for EVERY generated terminator
    method (append and insert flavours), not only `ret` / `insert_ret`: each is executed from MIR with symbolic arguments from
    the three selection states."""
    import os
    import sys
    import bsweep
    import c06
    import gtables
    from common import VERIF
    sys.path.insert(0, os.path.join(VERIF, "reference"))
    import spec
    T = gtables.load_tables()
    by_snake = {c06.snake(e["opname"]): e["opname"] for e in T["core"]}
    by_flat = {e["opname"].lower(): e["opname"] for e in T["core"]}
    terminators = set(spec.BLOCK_TERMINATORS)
    bidx = {n: i for i, n in enumerate(fields["Builder"])}
    n = 0
    for name, file, line in bsweep.builder_methods(mf):
        opname = c06.opcode_of_method(name, file, by_snake, by_flat)
        if opname not in terminators or file not in ("autogen_terminator", "mod"):
            continue
        fn = mf.parse_item(line)
        for sel in ((None, None), (0, None), (0, 0)):
            eng = sym.Engine([mf, ms], registry, models=MODELS + bsweep.EXTRA_MODELS, eager=True, loop_bound=4)
            # every insertion point alternative (End / Begin / FromBegin(0) / FromEnd(0)) for the insert_ flavours
            has_ip = any(ty.strip().endswith("InsertPoint") for _, ty in fn.args[1:])
            for args in bsweep.signature_args(eng, fn, max_combos=4 if has_ip else (1 if ctx.tier == "quick" else 4), vary="InsertPoint" if has_ip else None):
                b0 = make_state((1, 1, 0, 1), sel[0], sel[1], nid, fields)
                tag = "terminator/%s/sel=%s,%s" % (name, sel[0], sel[1])
                try:
                    res = eng.run(fn, [sym.Ref(("h", "b"), (), True)] + list(args), mem={("h", "b"): b0}, pc=list(pre))
                except mir.Unsupported as ex:
                    ctx.ob(tag, None, "not encodable: %s" % str(ex)[:200])
                    break
                ctx.functions.add("dr::Builder::" + name)
                bad = None
                for r in res:
                    if r.status != "return":
                        st, m = q.check(r.pc, "terminator-panic")
                        if st != "unsat":
                            bad = ("panics", "%s %s" % (r.status, r.info))
                        continue
                    b1 = r.mem[("h", "b")]
                    ok = not (isinstance(r.value, sym.Adt) and r.value.variant == "Err")
                    blk_open = sel[1] is not None
                    bl1 = optval(b1.fields[bidx["selected_block"]])
                    if ok != blk_open:
                        bad = ("accepts-what-must-fail" if ok else "rejects-what-must-succeed", "returns %r with%s a selected block" % (r.value, "" if blk_open else "out"))
                    elif ok and bl1 is not None:
                        bad = ("terminator-left-block-open", "selected_block=%s after the terminator" % bl1)
                    elif not ok and not same(b1.fields[bidx["module"]], b0.fields[bidx["module"]]):
                        bad = ("failed-call-changed-module", "returns Err but the module differs")
                    if bad:
                        st, m = q.check(r.pc, "terminator-path-feasible")
                        if st == "unsat":
                            bad = None
                            continue
                        break
                n += 1
                if bad is None:
                    ctx.ob(tag, True)
                    continue
                state = 0 if sel == (None, None) else (1 if sel == (0, None) else 2)
                ipn = 0
                for a_ in args:
                    if isinstance(a_, sym.Adt) and a_.ty.endswith("InsertPoint"):
                        ipn = {"End": 0, "Begin": 1, "FromBegin": 2, "FromEnd": 3}[a_.variant]
                real = rp.ask("builder_call %s %d %d" % (name, state, ipn))
                res_s = str(real.get("result", ""))
                native_ok = res_s.startswith("Ok")
                confirmed = "panic" in real or (bad[0].startswith("accepts") and native_ok) or (bad[0].startswith("rejects") and not native_ok) or \
                    (bad[0] == "terminator-left-block-open" and native_ok and real.get("sel_b") is not None)
                if confirmed:
                    ctx.ob(tag, False, "%s; native: %s" % (bad[1], str(real)[:200]))
                    ctx.violation("builder/%s/%s" % (name, bad[0]), "Builder::%s from selection %s: %s; on the compiled crate: %s" % (name, sel, bad[1], str(real)[:300]),
                                  {"cmd": "builder_call %s %d %d" % (name, state, ipn), "real": real})
                    return
                ctx.ob(tag, None, "model reports '%s' but the compiled crate does not show it: %s" % (bad[1], str(real)[:200]))
    ctx.extra["terminator_methods_runs"] = n


def check_path(q, r, b0, bidx, fields, shape, sel_f, sel_b, call, raw_args, nid, args):
    """None if fine, else (role, description[, witness next_id])."""
    fn_open, blk_open = sel_f is not None, sel_b is not None
    if r.status != "return":
        st, m = q.check(r.pc, "panic-reachable")
        if st == "unsat":
            return None
        w = m.eval(nid, model_completion=True).as_long() if st == "sat" else 5
        return ("panics", "%s: %s" % (r.status, r.info), w)
    b1 = r.mem[("h", "b")]
    val = r.value
    ok = not (isinstance(val, sym.Adt) and val.variant == "Err")
    exp = expect_ok(call, fn_open, blk_open, shape, sel_f, raw_args)
    if ok and not exp:
        return ("accepts-what-must-fail", "returns %r" % (val,))
    if not ok and exp:
        return ("rejects-what-must-succeed", "returns %r" % (val,))
    # invariant
    mod1 = b1.fields[bidx["module"]]
    funcs = mod1.fields[fields["Module"].index("functions")]
    f1 = optval(b1.fields[bidx["selected_function"]])
    bl1 = optval(b1.fields[bidx["selected_block"]])
    if f1 is None and bl1 is not None:
        return ("invariant/block-without-function", "afterwards selected_block=%s but no function is selected" % bl1)
    if f1 is not None:
        if not isinstance(f1, int) or f1 >= len(funcs.items):
            return ("invariant/function-index", "afterwards selected_function=%s of %d" % (f1, len(funcs.items)))
        blocks = funcs.items[f1].fields[fields["Function"].index("blocks")]
        if bl1 is not None and (not isinstance(bl1, int) or bl1 >= len(blocks.items)):
            return ("invariant/block-index", "afterwards selected_block=%s of %d" % (bl1, len(blocks.items)))
    if not ok and not same(mod1, b0.fields[bidx["module"]]):
        return ("failed-call-changed-module", "returns Err but the module differs")
    if ok and call in (3, 16) and bl1 is not None:
        return ("terminator-left-block-open", "selected_block=%s after a terminator" % bl1)
    if ok and call == 1 and f1 is not None:
        return ("end_function-left-function-open", "selected_function=%s after end_function" % f1)
    if ok and call == 1 and sel_f is not None:
        # the OpFunctionEnd goes into the SELECTED function; every other function stays as it was
        ei = fields["Function"].index("end")
        f0s = b0.fields[bidx["module"]].fields[fields["Module"].index("functions")]
        for k_, (fa, fb) in enumerate(zip(f0s.items, funcs.items)):
            if k_ == sel_f:
                if not (isinstance(fb.fields[ei], sym.Adt) and fb.fields[ei].variant == "Some") or same(fb.fields[ei], fa.fields[ei]):
                    return ("end_function-wrong-function", "function %d was selected but did not receive the OpFunctionEnd" % sel_f)
            elif not same(fa, fb):
                return ("end_function-wrong-function", "end_function with function %d selected changed function %d" % (sel_f, k_))
    # id discipline: the counter never goes back; allocating calls return the old counter and advance it by one
    n1 = b1.fields[bidx["next_id"]]
    st, m = q.check(r.pc + [z3.ULT(n1, nid)], "counter-monotone")
    if st == "sat":
        return ("id-counter-went-back", "next_id decreases", m.eval(nid, model_completion=True).as_long())
    explicit = raw_args[0] == 1 and call in (0, 2, 7, 8)
    allocating = ok and ((call in (0, 2, 7, 8) and not explicit) or call in (5, 15))
    if ok:
        want_next = nid + 1 if allocating else nid
        st, m = q.check(r.pc + [n1 != want_next], "counter-step")
        if st == "sat":
            return ("id-counter-step", "next_id is not old%s" % ("+1" if allocating else ""), m.eval(nid, model_completion=True).as_long())
        rid = None
        if call in (0, 2, 5):
            rid = val.fields[0] if isinstance(val, sym.Adt) and val.variant == "Ok" else None
        elif call in (7, 8, 15):
            rid = val
        if rid is not None and z3.is_bv(rid):
            want = nid if allocating else (args[1].fields[0] if call in (0, 7, 8) else args[0].fields[0]) if explicit else nid
            st, m = q.check(r.pc + [rid != want], "returned-id")
            if st == "sat":
                return ("returned-id", "returned id is not %s" % ("the old counter" if allocating else "the explicit id"),
                        m.eval(nid, model_completion=True).as_long())
    return None
