"""C04 — parsing, loading, assembling and disassembling never panic on any input.

Composition of panic-freedom obligations, each decided on the real code:
  K   decoder: every request kind from an arbitrary reachable state on buffers <= 12 bytes, any limit (harnesses of C11),
      and the unsafe byte view of `parse_words` (k_words_view);
  M2  parser: every panic / unreachable edge of `parse_inst` + `parse_operands` + `parse_operand` + `parse_spec_constant_op` +
      `parse_literal` (MIR) for every grammar entry with a special operand kind, OpSpecConstantOp nesting every opcode that
      has a special kind plus one opcode per operand shape, and a rotating sample of the other entries; path condition
      conjoined with the table facts; feasible => witness binary => native replay;
  M2  `TypeTracker::track` on every instruction shape the parser can deliver for OpTypeInt / OpTypeFloat (operand indexing);
  M2  loader step from the three reachable states for all opcodes (the machinery of C05): no panic edge;
  M2  `Instruction::assemble_into`: the back-patch index `result[start]` is in range for any pre-existing length;
  M2  `disas_constant` (reached from `Module::disassemble` for every OpConstant in types_global_values): unwrap edges under
      "module produced by the loader" (result type present, one literal operand, type id possibly untracked).
Outside: allocation failure, stack depth, decoder buffers > 12 bytes (the M2 parts are size-independent)."""
import z3
import sym
import mir
import tables
import parsersym
import kani
import c03
import c05
import reg as regmod
from common import Inconclusive, Replay
from smt import Q

LEVEL = "model_checking"


def run(ctx, dis=True):
    q = Q(ctx, cross_every=500)
    S = parsersym.Setting()
    T = S.T
    kn, qn = T["kind_names"], T["quant_names"]
    ctx.trusted += ["Kani/CBMC (decoder, byte view)", "rustc MIR", "mirsym and its std models", "Decoder contract (C11)", "z3"]
    ctx.assumptions += ["a well-behaved consumer (does not panic itself)", "allocation failure and stack exhaustion are outside"]
    # dis/main.rs (an anchor of this property too): main's paths from MIR and the built binary on the corpus (C20's machinery)
    if dis:
        import c20
        c20.run(ctx, library=False)
    rp = Replay()
    special = {"LiteralContextDependentNumber", "PairLiteralIntegerIdRef", "LiteralSpecConstantOpInteger", "PairIdRefLiteralInteger", "PairIdRefIdRef"}
    entries = T["core"]
    shapes = {}
    for e in entries:
        shapes.setdefault(tuple(e["operands"]), e)
    nested = [e for e in entries if {kn[k] for k, _ in e["operands"]} & special]
    nested += [e for e in shapes.values() if e not in nested][:: (4 if ctx.tier == "quick" else 1)]
    chosen = [e for i, e in enumerate(entries) if ({kn[k] for k, _ in e["operands"]} & special) or
              (ctx.tier == "thorough") or i % 16 == ctx.seed % 16]
    ctx.bounds.append("parser: %d entries at top level, %d opcodes nested under OpSpecConstantOp; decoder: buffers <= 12 bytes (string requests: <= 6 quick / <= 8 thorough); loader: all opcodes x 3 states" % (
        len(chosen), len(nested)))
    npaths = 0
    for e in chosen:
        try:
            eng, res, off, idx = c03.run_entry(S, e, nested if e["opname"] == "SpecConstantOp" else [])
        except mir.Unsupported as ex:
            ctx.ob("parser/%s/encodable" % e["opname"], None, str(ex)[:300])
            continue
        ctx.functions.update(eng.stats.functions)
        okpaths = []
        for r in res:
            npaths += 1
            if r.status in ("return", "loop_bound"):
                if r.status == "return" and isinstance(r.value, sym.Adt) and r.value.variant == "Ok":
                    okpaths.append(r)
                continue
            st, m = q.check(r.pc, "panic-reachable")
            nm = "parser/%s/no-panic" % e["opname"]
            if st == "unsat":
                ctx.ob(nm, True, "dead edge: %s" % (r.info,))
                continue
            if st != "sat":
                ctx.ob(nm, None, m)
                continue
            nest = [ev[1] for ev in r.events if ev[0] == "nested" and ev[1]]
            real, why = c03.replay(S, rp, e, r, off, m, "panics")
            role = "parser/panic/%s%s" % (e["opname"], ("/nested-" + nest[-1]) if nest else "")
            if why:
                ctx.ob(nm, False, "%s: %s" % (r.info, why))
                ctx.violation(role, "parsing Op%s%s: %s" % (e["opname"], (" naming Op" + nest[-1]) if nest else "", why), {"cmd": real.get("cmd"), "real": real})
            else:
                ctx.ob(nm, None, "panic edge %s feasible in the model but the witness does not panic natively: %s" % (r.info, str(real)[:200]))
        if not [r for r in res if r.status not in ("return", "loop_bound")]:
            ctx.ob("parser/%s/no-panic" % e["opname"], True)
        # the type tracker is fed every delivered instruction
        if e["opname"] in ("TypeInt", "TypeFloat"):
            track_no_panic(ctx, q, S, e, okpaths)
    loader_no_panic(ctx, q)
    # every generated typed decoder request from MIR (arithmetic on the offset around a failing word request included)
    import c11
    import common as _common
    ctx.extra["typed_requests_decided_from_mir"] = _common.composed(ctx, "C11-typed-requests", lambda: c11.typed_requests_mir(ctx))
    assemble_index(ctx, q, S)
    disas_constant(ctx, q, S, rp)
    literal_rendering(ctx, q, S, rp)
    disas_ext_inst(ctx, q, S, rp)
    rp.close()
    ctx.validated = rp.count
    hs = ["k_dec_word", "k_dec_words", "k_dec_bit64", "k_dec_string_small", "k_words_view"]
    if ctx.tier == "thorough":
        hs += ["k_dec_string_mid", "k_dec_string", "k_dec_typed", "k_dec_limit"]
    res = kani.run_many(hs, cap_s=1500 if ctx.tier == "quick" else 3000)
    kani.settle(ctx, res, lambda h: h[2:], optional=("k_dec_string",))   # 12-byte strings: added depth only (CBMC memory), <= 8 bytes required
    ctx.extra["states"] = len(chosen)
    ctx.extra["transitions"] = npaths
    ctx.extra["harness_times_s"] = {h: round(r.time, 1) for h, r in res.items()}
    ctx.extra["cvc5"] = q.summary()
    ctx.extra["explanation"] = "Every panic edge of the parser/loader/assembler/disassembler kernels is asked for feasibility; the decoder by CBMC."


def track_no_panic(ctx, q, S, e, okpaths):
    fn = [S.mf.parse_item(x[2]) for x in S.mf.find("track") if "tracker.rs" in x[0] and "closure" not in x[0] and "87:" not in x[0]][0]
    for r in okpaths[:8]:
        inst = r.value.fields[0]
        eng = S.engine(loop_bound=4)
        mem = dict(r.mem)
        mem[("h", "tt2")] = S.tracker_value("tt2")
        mem[("h", "delivered")] = inst
        res = eng.run(fn, [sym.Ref(("h", "tt2"), (), True), sym.Ref(("h", "delivered"), ())], mem=mem, pc=list(r.pc))
        for r2 in res:
            if r2.status != "return":
                st, m = q.check(r2.pc, "track-panic")
                ctx.ob("tracker/track/%s/no-panic" % e["opname"], st == "unsat" or (False if st == "sat" else None), str(r2.info))
                if st == "sat":
                    # native confirmation: the declaration with the operand words of the witness, parsed (which tracks it)
                    le = c03.le
                    ws = [m.eval(z3.Select(S.MEM, z3.BitVecVal(20 + 4 * i, 64)), model_completion=True).as_long() for i in range(6)]
                    n_ = min(max(ws[0] >> 16, 1), 6)
                    hexb = c03.HEADER + "".join(le(x) for x in ws[:n_])
                    rp_ = Replay()
                    real = rp_.ask("parse_script %s C" % hexb)
                    rp_.close()
                    if "panic" in real:
                        ctx.violation("tracker/panic/%s" % e["opname"], "TypeTracker::track panics on a delivered Op%s: %s (%s)" % (e["opname"], real["panic"], real.get("at")),
                                      {"cmd": "parse_script %s C" % hexb, "real": real})
                    else:
                        ctx.inconclusive.append(("tracker/track/%s/no-panic" % e["opname"], "model-only panic edge (%s); the compiled crate: %s" % (r2.info, str(real)[:160])))
            else:
                ctx.ob("tracker/track/%s/no-panic" % e["opname"], True)


def loader_no_panic(ctx, q):
    registry = regmod.build_registry()
    mf = mir.MirFile(c03.parsersym.mir_path("rspirv"))
    names_of = c05.op_names()
    op = z3.BitVec("op", 32)
    valid = z3.Or(*[op == z3.BitVecVal(v, 32) for v in sorted(names_of)])
    fn = mf.get("consume_instruction", file_hint="loader.rs", kind="fn")
    for fopen, bopen in ((False, False), (True, False), (True, True)):
        eng = sym.Engine([mf], registry, models=c05.loader_models(), inline=[r"^is_\w+$"], eager=True)
        classv = sym.Adt("grammar::Instruction", None, [sym.StrV("?"), op, sym.Sym("caps", "&[Capability]"), sym.Sym("exts", "&[&str]"), sym.Sym("operands", "&[LogicalOperand]")])
        inst = sym.Adt("Instruction", None, [sym.Ref(("h", "class"), ()), sym.Sym("rtype", "Option<u32>"), sym.Sym("rid", "Option<u32>"), sym.Arr([sym.Sym("operand0", "dr::constructs::Operand"), sym.Sym("operand1", "dr::constructs::Operand")], "vec")])
        fval = sym.Adt("Option", "Some", [sym.Sym("curfn", "Function")]) if fopen else sym.Adt("Option", "None", [])
        bval = sym.Adt("Option", "Some", [sym.Sym("curblk", "Block")]) if bopen else sym.Adt("Option", "None", [])
        loader = sym.Adt("Loader", None, [sym.Sym("module", "Module"), fval, bval])
        res = eng.run(fn, [sym.Ref(("h", "loader"), (), True), inst], mem={("h", "loader"): loader, ("h", "class"): classv}, pc=[valid])
        bad = [r for r in res if r.status != "return"]
        for r in bad:
            st, m = q.check(r.pc, "loader-panic")
            if st == "sat":
                w = m.eval(op, model_completion=True).as_long()
                ctx.ob("loader/no-panic/f=%s,b=%s" % (fopen, bopen), False, "Op %s: %s" % (names_of[w][0], r.info))
                ctx.violation("loader/panic/%s" % names_of[w][0], "the loader panics on Op%s in state (function open=%s, block open=%s): %s" % (names_of[w][0], fopen, bopen, r.info),
                              {"cmd": "loader_step %d %d %d" % (fopen, bopen, w)})
        if not bad:
            ctx.ob("loader/no-panic/f=%s,b=%s" % (fopen, bopen), True, "%d paths" % len(res))
        # the induction is over the three states with 'a block is open only inside an open function': every step must stay
        # inside that set, otherwise the states explored above are not all the reachable ones
        broke = None
        for r in res:
            if r.status != "return" or not (isinstance(r.value, sym.Adt) and r.value.variant == "Continue"):
                continue      # after Stop / Error the parse ends and the loader is dropped
            l1 = r.mem[("h", "loader")]
            f1, b1 = l1.fields[1], l1.fields[2]
            if not (isinstance(f1, sym.Adt) and isinstance(b1, sym.Adt)):
                ctx.ob("loader/invariant/f=%s,b=%s" % (fopen, bopen), None, "post-state is not concrete: %r %r" % (f1, b1))
                broke = "?"
                continue
            if f1.variant == "None" and b1.variant == "Some":
                st, m = q.check(r.pc, "loader-invariant")
                if st == "sat":
                    w = m.eval(op, model_completion=True).as_long()
                    rp = Replay()
                    real = rp.ask("loader_step %d %d %d" % (fopen, bopen, w))
                    rp.close()
                    broke = names_of[w][0]
                    if real.get("f") is False and real.get("b") is True:
                        ctx.ob("loader/invariant/f=%s,b=%s" % (fopen, bopen), False, "Op%s leaves a block open without a function" % broke)
                        ctx.violation("loader/invariant/%s" % broke, "Op%s in state (function open=%s, block open=%s) leaves the loader with an open block but no open "
                                      "function (answer %s); the next block-level instruction then unwraps the missing function and panics" % (broke, fopen, bopen, real.get("answer")),
                                      {"cmd": "loader_step %d %d %d" % (fopen, bopen, w), "real": real})
                    else:
                        ctx.ob("loader/invariant/f=%s,b=%s" % (fopen, bopen), None, "model-only: %s" % real)
                    break
        if broke is None:
            ctx.ob("loader/invariant/f=%s,b=%s" % (fopen, bopen), True)


def assemble_index(ctx, q, S):
    """Instruction::assemble_into: `result[start]` with start = result.len() before the opcode word is pushed."""
    c = [x for x in S.mf.find("assemble_into") if __import__("re").search(r"\(_1: &(\w+::)*Instruction,", S.mf.lines[x[2]])]
    if len(c) != 1:
        ctx.ob("assemble/encodable", None, "%d candidates" % len(c))
        return
    fn = S.mf.parse_item(c[0][2])
    # operand lists: none; two opaque one-word operands; and a mix with a TWO-word literal and strings of 0, 3, 4 and 8 bytes
    # (1, 1, 2 and 3 words: `assemble_str` by its contract — packed bytes, NUL padded, len/4+1 words — decided by C02's harness)
    def mixed(sval):
        return [sym.Adt("dr::constructs::Operand", "IdRef", [z3.BitVec("x", 32)]), sym.Adt("dr::constructs::Operand", "LiteralBit64", [z3.BitVec("y", 64)]),
                sym.Adt("dr::constructs::Operand", "LiteralString", [sym.StrV(sval)])]
    shapes_ = [("0", [], 0), ("2", [sym.Sym("op0", "Operand"), sym.Sym("op1", "Operand")], 2)] + [
        ("mixed-%d-byte-string" % len(sv), mixed(sv), 1 + 2 + len(sv) // 4 + 1) for sv in ("", "abc", "abcd", "abcdefgh")]
    for prelen in (0, 1, 3):
        for nops, oplist, nwords in shapes_:
            if prelen == 1 and nops.startswith("mixed") and nops not in ("mixed-4-byte-string",):
                continue
            def m_operand_assemble(engine, st, fr, callee, args, ops):
                r = args[1]
                v = sym._deref_arg(engine, st, r)
                o_ = sym._deref_arg(engine, st, args[0])
                k_ = 1
                if isinstance(o_, sym.Adt) and o_.variant == "LiteralBit64":
                    k_ = 2
                elif isinstance(o_, sym.Adt) and o_.variant == "LiteralString":
                    k_ = len(o_.fields[0].s.encode()) // 4 + 1
                engine.write_at(st, r.root, list(r.path), sym.Arr(v.items + tuple(z3.BitVec(engine.fresh_name("w"), 32) for _ in range(k_)), v.kind))
                return sym.UNIT

            def m_str_len(engine, st, fr, callee, args, ops):
                v_ = args[0]
                while isinstance(v_, sym.Ref):
                    v_ = sym._deref_arg(engine, st, v_)
                if isinstance(v_, sym.StrV):
                    return z3.BitVecVal(len(v_.s.encode()), 64)
                if isinstance(v_, sym.Sym):
                    return z3.BitVec(v_.name + "#len", 64)
                raise mir.Unsupported("len of %r" % (v_,))
            eng = S.engine([(r"^<(dr::)?(constructs::)?Operand as Assemble>::assemble_into$", m_operand_assemble),
                            (r"^(std::string::)?String::len$|^core::str::<impl str>::len$", m_str_len),
                            (r"^<(std::string::)?String as Deref>::deref$|^(std::string::)?String::as_str$", lambda e_, s_, f_, c_, a_, o_: a_[0]),
                            (r"^<&Vec<.*> as IntoIterator>::into_iter$", sym.m_vec_into_iter)], loop_bound=8)
            classv = sym.Adt("grammar::Instruction", None, [sym.StrV("?"), z3.BitVec("opc", 32), sym.Sym("c", "&[Capability]"), sym.Sym("e", "&[&str]"), sym.Sym("o", "&[LogicalOperand]")])
            inst = sym.Adt("Instruction", None, [sym.Ref(("h", "class"), ()), sym.Adt("Option", "Some", [z3.BitVec("rt", 32)]), sym.Adt("Option", "None", []),
                                                 sym.Arr(oplist, "vec")])
            result = sym.Arr([z3.BitVec("pre%d" % i, 32) for i in range(prelen)], "vec")
            mem = {("h", "class"): classv, ("h", "inst"): inst, ("h", "result"): result}
            try:
                res = eng.run(fn, [sym.Ref(("h", "inst"), ()), sym.Ref(("h", "result"), (), True)], mem=mem)
            except mir.Unsupported as ex:
                if nops == "2":
                    # operands of unknown kind make per-kind code (e.g. a precomputed word count) fork inside an iterator
                    # adapter; the shapes with operands of KNOWN kinds below decide the obligation
                    note = "assemble_into with two operands of unknown kind is not encodable (%s); decided on operand lists of known kinds only" % str(ex)[:160]
                    if note not in ctx.bounds:
                        ctx.bounds.append(note)
                    continue
                ctx.ob("assemble/encodable", None, str(ex)[:300])
                continue
            ctx.functions.update(eng.stats.functions)
            for r in res:
                tag = "assemble/instruction/prelen=%d,operands=%s" % (prelen, nops)
                if r.status != "return":
                    st, m = q.check(r.pc, "assemble-panic")
                    ctx.ob(tag + "/no-panic", st == "unsat" or (False if st == "sat" else None), str(r.info))
                    if st == "sat":
                        rp_ = Replay()
                        real = rp_.ask("load_disassemble %s" % (c03.HEADER + c03.le(1 << 16) + c03.le(2 << 16 | 19) + c03.le(1)))
                        rp_.close()
                        if "panic" in real:
                            ctx.violation("assemble/panic", "Instruction::assemble_into panics: %s" % real["panic"], {"cmd": "load_disassemble", "real": real})
                        else:
                            ctx.inconclusive.append((tag + "/no-panic", "model-only panic edge: %s" % (r.info,)))
                    continue
                out = r.mem[("h", "result")]
                n = len(out.items) - prelen
                first = out.items[prelen]
                want = z3.BitVec("opc", 32) | z3.BitVecVal(n << 16, 32)
                st, m = q.check(r.pc + [first != want], "assemble-first-word")
                ok = st == "unsat" and n == 1 + 1 + nwords
                ctx.ob(tag + "/first-word=opcode|wc<<16", True if ok else (False if st == "sat" else None))
                if st == "sat":
                    # OpTypeVoid %1, OpTypeInt %2 32 0, OpTypeInt %3 64 0, %4 = OpConstant %3 <two words>, OpName %1 "abcd", %2 "abc", %3 "abcdefgh"
                    body_ = [2 << 16 | 19, 1, 4 << 16 | 21, 2, 32, 0, 4 << 16 | 21, 3, 64, 0, 5 << 16 | 43, 3, 4, 5, 6, 4 << 16 | 5, 1, 0x64636261, 0,
                             3 << 16 | 5, 2, 0x00636261, 5 << 16 | 5, 3, 0x64636261, 0x68676665, 0]
                    # (debug names come before types in the logical layout: the expected output is reordered accordingly)
                    want_ = [4 << 16 | 5, 1, 0x64636261, 0, 1 << 16] if False else None
                    hexb = c03.HEADER + "".join(c03.le(w_) for w_ in body_)
                    rp_ = Replay()
                    real = rp_.ask("load_disassemble %s" % hexb)
                    rp_.close()
                    ws_ = real.get("words", [])
                    if "panic" in real or (real.get("loaded") and sorted(ws_[5:]) != sorted(body_)):
                        ctx.violation("assemble/first-word", "the first word of an assembled instruction is not opcode | (word count << 16): a module with one-, "
                                      "two-word and string operands (%s) is assembled as %s" % (body_, ws_[5:]), {"cmd": "load_disassemble %s" % hexb, "real": real})
                    else:
                        ctx.inconclusive.append((tag + "/first-word", "model-only: the compiled crate assembles %s" % ws_[5:]))


def disas_constant(ctx, q, S, rp):
    fn = S.mf.get("disas_constant", kind="fn")

    def m_disas_instruction(engine, st, fr, callee, args, ops):
        # disas_instruction(inst, space, f) calls f(&inst.operands) exactly once inside format!; everything else is formatting
        clo = args[2]
        inst_ref = args[0]
        opsref = sym.Ref(inst_ref.root, inst_ref.path + (("field", 3, "Vec<Operand>"),))
        return sym.Inline(engine.resolve_fn(clo.name), [sym.Ref(("h", "clo"), ()), sym.Ref(("h", "opsref"), ())] if False else [_as_ref(engine, st, clo), _as_ref(engine, st, opsref)],
                          wrap=lambda rv: sym.Sym("text", "String"))

    def _as_ref(engine, st, v):
        cell = ("h", engine.fresh_name("tmp"))
        st.mem[cell] = v
        return sym.Ref(cell, ())

    def m_text(engine, st, fr, callee, args, ops):
        return sym.Sym(engine.fresh_name("text"), "String")
    for variant, val in (("LiteralBit32", z3.BitVec("v32", 32)), ("LiteralBit64", z3.BitVec("v64", 64)), ("IdRef", z3.BitVec("vid", 32))):
        eng = S.engine([(r"^disas_instruction::<", m_disas_instruction),
                        (r"^disas_literal_bit_operand::<", m_text),
                        (r"as Disassemble>::disassemble$", m_text)], loop_bound=4)
        classv = sym.Adt("grammar::Instruction", None, [sym.StrV("Constant"), z3.BitVecVal(43, 32), sym.Sym("c", "&[Capability]"), sym.Sym("e", "&[&str]"), sym.Sym("o", "&[LogicalOperand]")])
        rt = z3.BitVec("rt", 32)
        inst = sym.Adt("Instruction", None, [sym.Ref(("h", "class"), ()), sym.Adt("Option", "Some", [rt]), sym.Adt("Option", "Some", [z3.BitVec("rid", 32)]),
                                             sym.Arr([sym.Adt("dr::constructs::Operand", variant, [val])], "vec")])
        mem = {("h", "class"): classv, ("h", "inst"): inst, ("h", "tt"): S.tracker_value("tt")}
        try:
            res = eng.run(fn, [sym.Ref(("h", "inst"), ()), sym.Ref(("h", "tt"), ())], mem=mem)
        except mir.Unsupported as ex:
            ctx.ob("disassemble/disas_constant/encodable", None, str(ex)[:300])
            return
        ctx.functions.update(eng.stats.functions)
        for r in res:
            tag = "disassemble/OpConstant-%s/no-panic" % variant
            if r.status == "return":
                ctx.ob(tag, True)
                continue
            st, m = q.check(r.pc, "disas-panic")
            if st != "sat":
                ctx.ob(tag, st == "unsat" or None, str(r.info))
                continue
            # witness: OpConstant whose type id was never declared as int/float -> module the loader accepts
            le = c03.le
            words = c03.HEADER + le(2 << 16 | 19) + le(1) + le(4 << 16 | 43) + le(1) + le(2) + le(7)   # OpTypeVoid %1 ; OpConstant %1 %2 7
            real = rp.ask("load_disassemble %s" % words)
            if "panic" in real:
                ctx.ob(tag, False, "type id untracked: %s" % real["panic"])
                ctx.violation("disassemble/panic/OpConstant-of-untracked-type",
                              "Module::disassemble panics on a module the loader accepts: OpConstant whose result type is not a tracked int/float type (%s)" % real["panic"],
                              {"cmd": "load_disassemble %s" % words, "real": real})
            else:
                ctx.ob(tag, None, "panic edge feasible in the model but not natively: %s" % str(real)[:200])


def literal_rendering(ctx, q, S, rp):
    """`DisassembleLiteralBit::disas_literal_bit` for u32 and u64 (the typed rendering of OpConstant literals): any bit pattern
    under ANY tracked type — `Integer(width, signed)` / `Float(width)` with the width an arbitrary u32: the tracker records
    whatever OpTypeInt / OpTypeFloat declared, and the literal's word count was fixed by the parser's view, which may differ
    (constant before its type, type id redeclared). No arithmetic / shift / unwrap panic edge may be feasible."""
    def m_text(engine, st, fr, callee, args, ops):
        return sym.Sym(engine.fresh_name("text"), "String")

    def m_opaque_float(engine, st, fr, callee, args, ops):
        return sym.Sym(engine.fresh_name("float"), "f")
    cands = [x for x in S.mf.find("disas_literal_bit", kind="fn") if "closure" not in x[0]]
    if not cands:
        ctx.ob("disassemble/literal-rendering/encodable", None, "no disas_literal_bit in the MIR dump")
        return
    for name, k, ln in cands:
        fn = S.mf.parse_item(ln)
        vty = fn.args[0][1].strip()
        if vty not in sym.INT_TYPES:
            continue
        width, signed = z3.BitVec("type_width", 32), z3.Bool("type_signed")
        for tname, tval in (("Integer", sym.Adt("tracker::Type", "Integer", [width, signed])), ("Float", sym.Adt("tracker::Type", "Float", [width]))):
            eng = S.engine([(r"as (std::string::)?ToString>::to_string$", m_text), (r"^core::f(32|64)::<impl f(32|64)>::from_bits$", m_opaque_float),
                            (r"^(alloc::|std::)?fmt::format$|^format::", m_text)], loop_bound=4)
            val = z3.BitVec("literal", sym.INT_TYPES[vty][0])
            tag = "disassemble/literal-rendering/%s-as-%s" % (vty, tname)
            try:
                res = eng.run(fn, [val, sym.Ref(("h", "ty"), ())], mem={("h", "ty"): tval})
            except mir.Unsupported as ex:
                ctx.ob(tag, None, "not encodable: %s" % str(ex)[:300])
                continue
            ctx.functions.update(eng.stats.functions)
            bad = None
            for r in res:
                if r.status == "return":
                    continue
                st_, m = q.check(r.pc, "literal-rendering-panic")
                if st_ == "sat":
                    bad = (r, m)
                    break
                if st_ != "unsat":
                    ctx.ob(tag, None, "solver: %s" % m)
            if bad is None:
                ctx.ob(tag, True, "%d paths" % len(res))
                continue
            r, m = bad
            w = m.eval(width, model_completion=True).as_long()
            sg = 1 if z3.is_true(m.eval(signed, model_completion=True)) else 0
            v = m.eval(val, model_completion=True).as_long()
            # witness module: the constant precedes the declaration of its type, so the parser reads one word (or, for u64, the
            # type is redeclared after a 64-bit constant) while the disassembler sees the declared width
            le = c03.le
            decl = (le(4 << 16 | 21) + le(1) + le(w) + le(sg)) if tname == "Integer" else (le(3 << 16 | 22) + le(1) + le(w))
            if vty == "u32":
                words = c03.HEADER + le(4 << 16 | 43) + le(1) + le(2) + le(v) + decl
            else:
                first = (le(4 << 16 | 21) + le(1) + le(64) + le(sg)) if tname == "Integer" else (le(3 << 16 | 22) + le(1) + le(64))
                words = c03.HEADER + first + le(5 << 16 | 43) + le(1) + le(2) + le(v & 0xffffffff) + le(v >> 32) + decl
            real = rp.ask("load_disassemble %s" % words)
            if "panic" in real:
                ctx.ob(tag, False, "%s; native: %s" % (r.info, real["panic"]))
                ctx.violation("disassemble/panic/literal-rendering", "Module::disassemble panics on a module the loader accepts: OpConstant %#x whose result type is declared "
                              "as %s(width %d%s) after the constant: %s" % (v, tname, w, ", signed" if sg else "", real["panic"]), {"cmd": "load_disassemble %s" % words, "real": real})
            else:
                ctx.ob(tag, None, "panic edge (%s) feasible in the model for width=%d signed=%d value=%#x but the compiled crate renders the witness module: %s" % (r.info, w, sg, v, str(real)[:160]))


def disas_ext_inst(ctx, q, S, rp):
    """`disas_ext_inst` (reached from Module::disassemble for every OpExtInst in a block): the set may be tracked or not,
    the instruction number may or may not be in the set's table."""
    fn = S.mf.get("disas_ext_inst", kind="fn")

    def m_have(engine, st, fr, callee, args, ops):
        return sym.Fork([(True, z3.BoolVal(True), ("set", "tracked")), (True, z3.BoolVal(False), ("set", "untracked"))])

    def m_resolve(engine, st, fr, callee, args, ops):
        cell = ("h", "extentry")
        st.mem[cell] = sym.Adt("ExtendedInstruction", None, [sym.StrV("Name"), z3.BitVec("n", 32), sym.Sym("c", "&[Capability]"), sym.Sym("e", "&[&str]"), sym.Sym("o", "&[LogicalOperand]")])
        return sym.Fork([(True, sym.Adt("Option", "Some", [sym.Ref(cell, ())]), ("number", "known")), (True, sym.Adt("Option", "None", []), ("number", "unknown"))])

    def m_text(engine, st, fr, callee, args, ops):
        return sym.Sym(engine.fresh_name("text"), "String")
    for nops in (0, 1, 2, 3):
        import c07
        eng = S.engine([(r"ExtInstSetTracker::have$", m_have), (r"ExtInstSetTracker::resolve$", m_resolve),
                        (r"as Disassemble>::disassemble$", m_text), (r"^disas_instruction::<", m_text),
                        (r"^Vec::<(std::string::)?String>::push$", lambda e, s_, f, c, a, o: sym.UNIT),
                        (r"as ToString>::to_string$", m_text),
                        (r"Index<std::ops::RangeFrom<usize>>>::index$", lambda e, s_, f, c, a, o: sym.Adt("Slice", None, [a[0]])),
                        (r"^<&\[.*\] as IntoIterator>::into_iter$", lambda e, s_, f, c, a, o: sym.Adt("Exhausted", None, [])),
                        (r"^<std::slice::Iter<'_, Operand> as Iterator>::next$", lambda e, s_, f, c, a, o: sym.Adt("Option", "None", []))] + c07.fmt_models(), loop_bound=6)
        all_ops = [sym.Adt("dr::constructs::Operand", "IdRef", [z3.BitVec("set", 32)]), sym.Adt("dr::constructs::Operand", "LiteralExtInstInteger", [z3.BitVec("num", 32)]),
                   sym.Adt("dr::constructs::Operand", "IdRef", [z3.BitVec("x", 32)])]
        classv = sym.Adt("grammar::Instruction", None, [sym.StrV("ExtInst"), z3.BitVecVal(12, 32), sym.Sym("c", "&[Capability]"), sym.Sym("e", "&[&str]"), sym.Sym("o", "&[LogicalOperand]")])
        inst = sym.Adt("Instruction", None, [sym.Ref(("h", "class"), ()), sym.Adt("Option", "Some", [z3.BitVec("rt", 32)]), sym.Adt("Option", "Some", [z3.BitVec("rid", 32)]),
                                             sym.Arr(all_ops[:nops], "vec")])
        mem = {("h", "class"): classv, ("h", "inst"): inst, ("h", "tr"): sym.Sym("tracker", "ExtInstSetTracker")}
        try:
            res = eng.run(fn, [sym.Ref(("h", "inst"), ()), sym.Ref(("h", "tr"), ())], mem=mem)
        except mir.Unsupported as ex:
            ctx.ob("disassemble/disas_ext_inst/encodable", None, str(ex)[:300])
            return
        ctx.functions.update(eng.stats.functions)
        for r in res:
            tag = "disassemble/OpExtInst-%d-operands/no-panic" % nops
            if r.status == "return":
                ctx.ob(tag, True)
                continue
            st, m = q.check(r.pc, "disas-ext-panic")
            if st != "sat":
                ctx.ob(tag, st == "unsat" or None, str(r.info))
                continue
            le = c03.le
            glsl = "474c534c" "2e737464" "2e343530" "00000000"
            events = [e for e in r.events if e[0] in ("set", "number")]
            known = ("number", "known") in events
            tracked = ("set", "untracked") not in events
            real, words = {}, ""
            # witnesses following the path: set imported or not, instruction number in the set's table or not, and several operand counts
            for number in ((4, 1, 43, 81) if known else (9999,)):
                for nargs in sorted(set([max(nops - 2, 0), 1, 2, 3, 5])):
                    args_ = "".join(le(6) for _ in range(nargs))
                    words = c03.HEADER + (le(6 << 16 | 11) + le(1) + glsl if tracked else "") + le(2 << 16 | 19) + le(2) + le(3 << 16 | 33) + le(3) + le(2) + \
                        le(5 << 16 | 54) + le(2) + le(4) + le(0) + le(3) + le(2 << 16 | 248) + le(5) + le((5 + nargs) << 16 | 12) + le(2) + le(6) + le(1) + le(number) + args_ + \
                        le(1 << 16 | 253) + le(1 << 16 | 56)
                    real = rp.ask("load_disassemble %s" % words)
                    if "panic" in real:
                        break
                if "panic" in real:
                    break
            if "panic" in real:
                ctx.ob(tag, False, "%s: %s" % (events, real["panic"]))
                ctx.violation("disassemble/panic/OpExtInst-%s" % "-".join(e[1] for e in events),
                              "Module::disassemble panics on OpExtInst (%s): %s" % (events, real["panic"]), {"cmd": "load_disassemble %s" % words, "real": real})
            else:
                ctx.ob(tag, None, "panic edge %s feasible in the model (%s) but the witness does not panic natively: %s" % (r.info, events, str(real)[:160]))
