"""C01 — load-then-assemble reproduces every instruction of the input binary.

No engine carries `load_words ∘ assemble` end to end; the property is the composition of lemmas, each decided on the real
code (this check decides lemmas 1, 2 and 4 itself and re-uses the machinery of C02/C05/C15 for the rest):
  1. instruction level: per operand kind, decode then encode is the identity on every accepted word (C02's per-kind runs);
     the parser delivers operands in decode order; `Instruction::assemble_into` frames them as wc<<16|opcode, rtype, rid, operands.
  2. filing: ONE loader step (MIR, any opcode, any state) either rejects or stores the instruction in exactly one place —
     appended at the END of one container (or assigned to memory_model / def / end / label) — and touches nothing else;
     by induction over the stream no instruction is dropped, duplicated or invented and the relative order inside every
     container is the stream order. The two documented exceptions (OpLine/OpNoLine outside a block, repeated OpMemoryModel)
     are the only steps whose target is not 'the open block' / 'a section by opcode'.
  3. emission order = the traversal order of C15 (sections in layout order, then functions).
  4. header: `parse_header` (MIR) keeps word 3 as bound and (major, minor) of word 1; `ModuleHeader::assemble_into` emits
     magic, version, generator, bound, 0; version pack/unpack is exact (z3).
R  validation of the composition on the compiled crate: every Builder method's instruction (builder_call), placed in a module,
   assembled, loaded and assembled again, must give identical words; every enumerant of every value enum likewise."""
import re
import z3
import sym
import mir
import tables
import parsersym
import reg as regmod
import c02
import c03
import c05
import c06
from common import Inconclusive, Replay
from smt import Q

LEVEL = "model_checking"


def run(ctx):
    q = Q(ctx, cross_every=500)
    S = parsersym.Setting()
    registry, mf = S.registry, S.mf
    ctx.trusted += ["rustc MIR", "mirsym and its std models", "the composition argument of DESIGN §6 C01 (lemmas 1-4 => the statement)", "z3"]
    ctx.assumptions += ["outside, as the property states: OpLine/OpNoLine inside a function but outside a block; more than one OpMemoryModel",
                        "instructions of 65536 words or more"]
    ctx.bounds.append("lemma 2: one step, any opcode, 3 reachable states (inductive); lemma 4: all header words; native validation: one instruction per Builder method and per enumerant")
    rp = Replay()
    filing_lemma(ctx, q, registry, mf)
    header_lemma(ctx, q, S)
    emission_order_lemma(ctx, registry, mf)
    # lemma 1 for the context-dependent literals (OpConstant / OpSpecConstant / OpSwitch): the parser keeps every word it reads
    import c10
    c10.literal_lemmas(ctx, q, S, rp)
    # ... and for the enumerant / bit-mask operands: every typed decoder request returns exactly the word it read (all 2^32 words), so
    # an accepted word is never altered on the way into the module (C11's MIR leg)
    import c11
    import common as _common
    ctx.extra["typed_requests_decided_from_mir"] = _common.composed(ctx, "C11-typed-requests", lambda: c11.typed_requests_mir(ctx))
    # lemma 2 says WHERE-ever an instruction is filed it is filed once, unchanged; that an input already in layout order comes back
    # in the same order needs the container to be the one the layout assigns to the opcode: C05's reference automaton (all opcodes)
    _common.composed(ctx, "C05-loader-automaton", lambda: c05.run(ctx))
    P = tables.parse_operand_arms()
    c02.native_roundtrip(ctx, S, rp, P)
    c06.native_module_roundtrip(ctx, rp, loaded_only=True)
    c02.native_utf8_strings(ctx, rp)
    # strings: decoded bytes = the bytes in the stream (C11's harness) and packed words = the bytes (C02's harness); the quick tier
    # samples the two scenario functions natively, the thorough tier runs the CBMC harnesses
    import kani
    if ctx.tier == "thorough":
        res_ = kani.run_many(["k_dec_string_small", "k_string_pack_small"], cap_s=1800)
        kani.settle(ctx, res_, lambda h: h[2:].replace("_small", "") if "pack" in h else h[2:])
    else:
        for scen in ("dec_string_small", "string_pack"):
            found = kani.native_sample(rp, scen, ctx.seed, n=4000)
            if found:
                raw, real, role, what = found
                ctx.violation(role, what + " | native sampling of the scenario", {"cmd": "scenario %s %s" % (scen, raw.hex()), "real": real})
            else:
                ctx.ob("strings/native-sample/%s" % scen, True, "4000 structured pseudo-random inputs")
    rp.close()
    ctx.validated = rp.count
    ctx.extra["states"] = ctx.obligations
    ctx.extra["transitions"] = ctx.queries
    ctx.extra["cvc5"] = q.summary()
    ctx.extra["explanation"] = "Lemmas 2 and 4 by symbolic execution of the loader step and the header code; composition validated natively."


def emission_order_lemma(ctx, registry, mf):
    """Lemma 3 on this tree: `Module::assemble_into` emits the header, then the global sections in the logical-layout order of
    the specification, then the functions (C15's sequence encoding of the assembly walkers and traversals, z3 Seq theory),
    validated by the native traversal sweep."""
    import c15
    q15 = Q(ctx, cross_every=3)
    rp = Replay()
    real = rp.ask("traversal_sweep")
    rp.close()
    real_bad = real.get("mismatch")
    if real_bad:
        ctx.ob("emission-order/native-sweep", False, real_bad)
        ctx.violation("roundtrip/emission-order", "the assembled order is not the logical layout on the compiled crate: %s" % real_bad, {"cmd": "traversal_sweep", "real": real})
        return
    try:
        c15.symbolic_part(ctx, q15, registry, mf, 2, 2, lambda models: sym.Engine([mf], registry, models=models, eager=True, loop_bound=4), real, real_bad)
    except (mir.Unsupported, Inconclusive) as ex:
        ctx.ob("emission-order/encodable", None, "the traversal / assembly code cannot be encoded: %s" % str(ex)[:300])


def filing_lemma(ctx, q, registry, mf):
    names_of = c05.op_names()
    module_fields = c05.struct_fields("rspirv/dr/constructs.rs", "Module")
    function_fields = c05.struct_fields("rspirv/dr/constructs.rs", "Function")
    block_fields = c05.struct_fields("rspirv/dr/constructs.rs", "Block")
    op = z3.BitVec("op", 32)
    valid = z3.Or(*[op == z3.BitVecVal(v, 32) for v in sorted(names_of)])
    fn = mf.get("consume_instruction", file_hint="loader.rs", kind="fn")
    for fopen, bopen in ((False, False), (True, False), (True, True)):
        eng = sym.Engine([mf], registry, models=c05.loader_models(), inline=[r"^is_\w+$"], eager=True)
        classv = sym.Adt("grammar::Instruction", None, [sym.StrV("?"), op, sym.Sym("caps", "&[Capability]"), sym.Sym("exts", "&[&str]"), sym.Sym("operands", "&[LogicalOperand]")])
        inst = sym.Adt("Instruction", None, [sym.Ref(("h", "class"), ()), sym.Sym("rtype", "Option<u32>"), sym.Sym("rid", "Option<u32>"), sym.Arr([sym.Sym("operand0", "dr::constructs::Operand"), sym.Sym("operand1", "dr::constructs::Operand")], "vec")])
        fval = sym.Adt("Option", "Some", [sym.Sym("curfn", "Function")]) if fopen else sym.Adt("Option", "None", [])
        bval = sym.Adt("Option", "Some", [sym.Sym("curblk", "Block")]) if bopen else sym.Adt("Option", "None", [])
        loader = sym.Adt("Loader", None, [sym.Sym("module", "Module"), fval, bval])
        res = eng.run(fn, [sym.Ref(("h", "loader"), (), True), inst], mem={("h", "loader"): loader, ("h", "class"): classv}, pc=[valid])
        ctx.functions.update(eng.stats.functions)
        for r in res:
            tag = "filing/f=%s,b=%s" % (fopen, bopen)
            if r.status != "return":
                continue        # panics: C04
            ans = c05.answer_of(r)
            l1 = r.mem[("h", "loader")]
            stores = count_stores(r, inst, l1, loader, module_fields)
            if ans != "Continue":
                ok = stores == (0, 0) and same_loader(l1, loader)
                ctx.ob(tag + "/reject-leaves-state", True if ok else False, None if ok else "rejected (%s) but the loader state changed" % ans)
                if not ok:
                    # native confirmation: the same step on the compiled crate (empty containers): an Error answer must file nothing
                    st_, m_ = q.check(list(r.pc), "filing-witness")
                    w_ = m_.eval(op, model_completion=True).as_long() if st_ == "sat" else None
                    rp_ = Replay()
                    real = rp_.ask("loader_step %d %d %d" % (fopen, bopen, w_)) if w_ is not None else {}
                    rp_.close()
                    if real.get("answer", "Continue") != "Continue" and real.get("filed"):
                        ctx.violation("filing/reject-changes-state", "a rejected instruction (%s, opcode %s) changes the loader state: %s" % (ans, w_, real),
                                      {"cmd": "loader_step %d %d %s" % (fopen, bopen, w_), "real": real})
                    else:
                        ctx.inconclusive.append((tag + "/reject-leaves-state", "model-only: the compiled crate answers %s" % real))
                continue
            n_inst, n_other_muts = stores
            ok = n_inst == 1 and n_other_muts == 0
            ctx.ob(tag + "/exactly-one-append", True if ok else False, None if ok else "instruction stored %d times, %d other mutations" % (n_inst, n_other_muts))
            if not ok:
                st, m = q.check(r.pc, "filing-witness")
                w = m.eval(op, model_completion=True).as_long() if st == "sat" else 0
                ctx.violation("filing/not-exactly-once/%s" % names_of.get(w, ["?"])[0],
                              "Op%s in state (function open=%s, block open=%s): the instruction is stored %d time(s) with %d other change(s) to the module" % (
                                  names_of.get(w, ["?"])[0], fopen, bopen, n_inst, n_other_muts), {"cmd": "loader_step %d %d %d" % (fopen, bopen, w)})


def same_loader(a, b):
    import c12
    return c12.same(a, b)


def count_stores(r, inst, l1, l0, module_fields):
    """(number of places holding `inst` that were written by this step, number of other mutations of pre-existing contents)"""
    n = 0
    other = 0
    for e in r.events:
        if e[0] == "push":
            if e[2] is inst:
                n += 1
            elif isinstance(e[2], sym.Sym) and e[2].name in ("curfn", "curblk"):
                pass        # moving the finished block / function into its parent: contents unchanged
            elif isinstance(e[2], sym.Adt):
                pass
            else:
                other += 1
        elif e[0] in ("insert", "pop"):
            other += 1
    mod1 = l1.fields[0]
    if isinstance(mod1, sym.Sym):
        for key, v in mod1.over.items():
            if key[0] == "f" and isinstance(v, sym.Adt) and v.variant == "Some" and v.fields and v.fields[0] is inst:
                n += 1
            elif key[0] == "f" and isinstance(v, sym.Sym) and ("pushed",) in v.over:
                continue
            elif key[0] == "f" and isinstance(v, sym.Adt):
                other += 1
    for idx in (1, 2):
        v1 = l1.fields[idx]
        if isinstance(v1, sym.Adt) and v1.variant == "Some" and isinstance(v1.fields[0], sym.Adt):
            # a freshly created function / block: def / label is the instruction
            for f in v1.fields[0].fields:
                if isinstance(f, sym.Adt) and f.variant == "Some" and f.fields and f.fields[0] is inst:
                    n += 1
    # function end assignment
    for e in r.events:
        if e[0] == "push" and isinstance(e[2], sym.Sym) and e[2].name == "curfn":
            for key, ov in e[2].over.items():
                if key[0] == "f" and isinstance(ov, sym.Adt) and ov.variant == "Some" and ov.fields and ov.fields[0] is inst:
                    n += 1
    return n, other


def header_lemma(ctx, q, S):
    fn = S.mf.get("parse_header", file_hint="parser.rs", kind="fn")
    import c12

    def m_words(engine, st, fr, callee, args, ops):
        # Decoder::words(5): five successive word() results (C11) or an error
        r = args[0]
        d = sym._deref_arg(engine, st, r)
        off = d.fields[1]
        ws = sym.Arr([z3.Select(S.MEM, off + 4 * i) for i in range(5)], "vec")
        nd = sym.Adt("Decoder", None, [d.fields[0], z3.simplify(off + 20), d.fields[2]])
        return sym.Fork([(z3.ULE(off + 20, S.LEN), parsersym._Seq(parsersym._SetDecoder(r, nd), sym.Adt("Result", "Ok", [ws])), ("words", "ok")),
                         (z3.UGT(off + 20, S.LEN), sym.Adt("Result", "Err", [sym.Sym("herr", "binary::autogen_error::Error")]), ("words", "err"))])
    eng = S.engine([(r"^Decoder::<'_>::words$", m_words)], loop_bound=6)
    off = z3.BitVecVal(0, 64)
    mem = {("h", "p"): S.parser_value(off, None, z3.BitVecVal(0, 64))}
    res = eng.run(fn, [sym.Ref(("h", "p"), (), True)], mem=mem, pc=[z3.ULE(S.LEN, 1 << 24)])
    ctx.functions.update(eng.stats.functions)
    w = [z3.Select(S.MEM, z3.BitVecVal(4 * i, 64)) for i in range(5)]
    for r in res:
        if r.status != "return":
            st, m = q.check(r.pc, "header-panic")
            ctx.ob("header/no-panic", st == "unsat" or None, str(r.info))
            continue
        kind, payload = c03.describe_result(r.value)
        if kind == "Ok":
            h = payload
            names = c05.struct_fields("rspirv/dr/constructs.rs", "ModuleHeader")
            f = dict(zip(names, h.fields))
            cond = z3.Or(w[0] != 0x07230203, f["bound"] != w[3], f["magic_number"] != 0x07230203, f["reserved_word"] != 0,
                         z3.Extract(23, 8, f["version"]) != z3.Extract(23, 8, w[1]), z3.Extract(7, 0, f["version"]) != 0, z3.Extract(31, 24, f["version"]) != 0)
            st, m = q.check(r.pc + [cond], "header-ok")
            ctx.ob("header/ok-keeps-bound-and-version", st == "unsat" or (False if st == "sat" else None))
            if st == "sat":
                ws = [m.eval(x, model_completion=True).as_long() for x in w]
                hexb = "".join(c03.le(x) for x in ws)
                rp_ = Replay()
                real = rp_.ask("parse_script %s C" % hexb)
                rp_.close()
                hdr = [e for e in real.get("events", []) if e.startswith("header")]
                want = "header bound=%d version=%#x" % (ws[3], ws[1] & 0x00ffff00)
                if "panic" in real or (hdr and hdr[0] != want) or (ws[0] != 0x07230203 and hdr):
                    ctx.violation("header/fields", "an accepted header does not keep the bound (word 3) and major.minor (word 1), or the magic is wrong: "
                                  "header words %s are delivered as %r" % ([hex(x) for x in ws], hdr[:1]), {"cmd": "parse_script %s C" % hexb, "real": real})
                else:
                    ctx.inconclusive.append(("header/ok-keeps-bound-and-version", "model-only: the compiled crate delivers %r for %s" % (hdr[:1], [hex(x) for x in ws])))
        elif kind == "HeaderIncomplete":
            st, m = q.check(r.pc + [z3.ULE(20, S.LEN)], "header-incomplete")
            ctx.ob("header/incomplete-iff-short", st == "unsat" or (False if st == "sat" else None))
        elif kind in ("HeaderIncorrect", "EndiannessUnsupported"):
            st, m = q.check(r.pc + [w[0] == 0x07230203], "header-incorrect")
            ctx.ob("header/%s-only-on-wrong-magic" % kind, st == "unsat" or (False if st == "sat" else None))
        else:
            ctx.ob("header/result-kind", None, kind)
    # ModuleHeader::assemble_into emits the five fields in order
    c = [x for x in S.mf.find("assemble_into") if re.search(r"\(_1: &(\w+::)*ModuleHeader,", S.mf.lines[x[2]])]
    if len(c) == 1:
        hfn = S.mf.parse_item(c[0][2])
        names = c05.struct_fields("rspirv/dr/constructs.rs", "ModuleHeader")
        vals = [z3.BitVec("h_" + n, 32) for n in names]
        eng = S.engine([(r"^<Vec<u32> as Extend<u32>>::extend::<\[u32; 5\]>$", c02.m_extend_array)], loop_bound=4)
        mem = {("h", "hdr"): sym.Adt("ModuleHeader", None, vals), ("h", "result"): sym.Arr([], "vec")}
        try:
            res = eng.run(hfn, [sym.Ref(("h", "hdr"), ()), sym.Ref(("h", "result"), (), True)], mem=mem)
            out = res[0].mem[("h", "result")].items if len(res) == 1 and res[0].status == "return" else None
            want = [vals[names.index(n)] for n in ("magic_number", "version", "generator", "bound", "reserved_word")]
            ok = out is not None and len(out) == 5 and all(a.eq(b) for a, b in zip(out, want))
            ctx.ob("header/assemble-emits-magic-version-generator-bound-reserved", True if ok else False, None if ok else str(out))
            if not ok:
                hexb = c03.HEADER[:24] + c03.le(77) + c03.le(0)
                rp_ = Replay()
                real = rp_.ask("load_disassemble %s" % hexb)
                rp_.close()
                ws = real.get("words", [])
                if "panic" in real or (real.get("loaded") and not (len(ws) >= 5 and ws[0] == 0x07230203 and ws[1] == 0x00010000 and ws[3] == 77 and ws[4] == 0)):
                    ctx.violation("header/assemble-order", "ModuleHeader::assemble_into does not emit magic, version, generator, bound, reserved in order: "
                                  "a loaded header (version 1.0, bound 77) is assembled as %s" % ws[:5], {"cmd": "load_disassemble %s" % hexb, "real": real})
                else:
                    ctx.inconclusive.append(("header/assemble-order", "model-only: the compiled crate emits %s" % ws[:5]))
        except mir.Unsupported as ex:
            ctx.ob("header/assemble/encodable", None, str(ex)[:300])


