"""C05 — the loader accepts exactly well-bracketed function/block structure and files every instruction where the
logical layout puts it.

M2: `Loader::consume_instruction` and `Loader::finalize` are executed symbolically from MIR: the automaton state
(function open?, block open?) is enumerated (4 states), the opcode is one symbolic value ranging over ALL declared `Op`
discriminants (reflect predicates inlined from their own MIR), the instruction and the containers are opaque. Every path
yields (answer, pushes with their target containers, next state). The paths are compared, by z3 over the opcode, with the
reference automaton built from reference/spec.py. Same initial state (Loader::new), same step, same end condition
(finalize) => same verdict and same filing on instruction sequences of any length (no history bound)."""
import os
import re
import sys
import z3
import sym
import mir
import tables
import reg as regmod
from rtok import match_close
from common import mir_path, Inconclusive, Replay, VERIF
from smt import Q

sys.path.insert(0, os.path.join(VERIF, "reference"))
import spec  # noqa: E402

LEVEL = "model_checking"


def struct_fields(rel, name):
    s = tables.src(rel)
    t = s.toks
    for i in range(len(t) - 2):
        if t[i].v == "struct" and t[i + 1].v == name and t[i + 2].v == "{":
            k = match_close(t, i + 2)
            out = []
            j = i + 3
            depth = 0
            while j < k:
                if t[j].v in "([{<":
                    depth += 1
                elif t[j].v in ")]}>":
                    depth -= 1
                elif depth == 0 and t[j].k == "id" and t[j + 1].v == ":" and t[j - 1].v in ("pub", ",", "{", "]", ")"):
                    out.append(t[j].v)
                j += 1
            return out
    raise Inconclusive("struct %s not found in %s" % (name, rel))


def m_inline_new(engine, st, fr, callee, args, ops):
    ty = re.match(r"^(?:\w+::)*(\w+)::new$", callee).group(1)
    for mf in engine.mirs:
        c = [x for x in mf.find("new") if re.search(r"\) -> (\w+::)*%s \{$" % ty, mf.lines[x[2]]) and "constructs" in x[0]]
        if len(c) == 1:
            return sym.Inline(mf.parse_item(c[0][2]), args)
    raise mir.Unsupported("cannot resolve %s" % callee)


def loader_models():
    """Models for one loader step: the crate's constructors inlined; std slice / iterator idioms in case the step looks at
    the instruction's operands (the operand list is two opaque operands)."""
    import itermodels
    import liftsym
    return [(r"^(\w+::)*(Function|Block)::new$", m_inline_new),
            (r"^core::slice::<impl \[.*\]>::first$", liftsym.m_slice_first),
            (r"^core::slice::<impl \[.*\]>::last$", liftsym.m_slice_last)] + itermodels.MODELS


def op_names():
    enums, _ = tables.spirv_decls()
    d = enums["Op"]
    names_of = {}
    for n, v in d["variants"]:
        names_of.setdefault(v, []).append(n)
    valof = dict(d["variants"])
    for al, tgt in d["aliases"]:
        if tgt in valof:
            names_of[valof[tgt]].append(al)
    return names_of


def categories(names_of, btc):
    """opcode value -> category (reference). None = outside the claim."""
    cat = {}
    for v, names in names_of.items():
        def anyn(p):
            return any(p(n) for n in names)
        if anyn(lambda n: n == "Function"):
            c = "Function"
        elif anyn(lambda n: n == "FunctionEnd"):
            c = "FunctionEnd"
        elif anyn(lambda n: n == "FunctionParameter"):
            c = "FunctionParameter"
        elif anyn(lambda n: n == "Label"):
            c = "Label"
        elif anyn(lambda n: n in spec.BLOCK_TERMINATORS):
            c = "Terminator"
        elif anyn(lambda n: n in ("Variable", "Undef")):
            c = "VarUndef"
        elif anyn(lambda n: n in spec.LOCATION_DEBUG):
            c = "Line"
        else:
            secs = set(spec.layout_section(n) for n in names) - {None}
            if secs:
                sec = sorted(secs)[0]
                if sec == "types_global_values":
                    definite = anyn(lambda n: n in spec.CORE_TYPES or n in spec.CORE_CONSTANTS or n in btc)
                    c = "Section:" + sec if definite else None
                else:
                    c = "Section:" + sec
            else:
                c = "Other"
        cat[v] = c
    return cat


def expected(cat, fopen, bopen):
    """Reference automaton: -> (answer, filed_into, next_f, next_b)"""
    if cat.startswith("Section:"):
        return ("Continue", "module." + cat.split(":")[1], fopen, bopen)
    if cat == "Line":
        return ("Continue", "block.instructions" if bopen else "module.types_global_values", fopen, bopen)
    if cat == "VarUndef":
        if not fopen:
            return ("Continue", "module.types_global_values", fopen, bopen)
        cat = "Other"
    if cat == "Function":
        return ("NestedFunction", None, fopen, bopen) if fopen else ("Continue", "newfunction.def", True, bopen)
    if cat == "FunctionEnd":
        if not fopen:
            return ("MismatchedFunctionEnd", None, fopen, bopen)
        if bopen:
            return ("UnclosedBlock", None, fopen, bopen)
        return ("Continue", "function.end;module.functions", False, False)
    if cat == "FunctionParameter":
        return ("DetachedFunctionParameter", None, fopen, bopen) if not fopen else ("Continue", "function.parameters", fopen, bopen)
    if cat == "Label":
        if not fopen:
            return ("DetachedBlock", None, fopen, bopen)
        if bopen:
            return ("NestedBlock", None, fopen, bopen)
        return ("Continue", "newblock.label", fopen, True)
    if cat == "Terminator":
        if not bopen:
            return ("MismatchedTerminator", None, fopen, bopen)
        return ("Continue", "block.instructions;function.blocks", fopen, False)
    if cat == "Other":
        if not bopen:
            return ("DetachedInstruction", None, fopen, bopen)
        return ("Continue", "block.instructions", fopen, bopen)
    raise AssertionError(cat)


def run(ctx):
    q = Q(ctx, cross_every=200)
    registry = regmod.build_registry()
    mf = mir.MirFile(mir_path("rspirv"))
    names_of = op_names()
    import c16
    btc = c16.builder_type_constant_ops()
    cat = categories(names_of, btc)
    module_fields = struct_fields("rspirv/dr/constructs.rs", "Module")
    function_fields = struct_fields("rspirv/dr/constructs.rs", "Function")
    block_fields = struct_fields("rspirv/dr/constructs.rs", "Block")
    loader_fields = struct_fields("rspirv/dr/loader.rs", "Loader")
    if loader_fields != ["module", "function", "block"]:
        raise Inconclusive("Loader fields %s" % loader_fields)
    ctx.trusted += ["reference/spec.py (logical layout, termination instructions)", "rustc MIR", "mirsym",
                    "std contracts of Vec::push, Option::{is_some,is_none,as_mut,unwrap,take}, Box::new", "z3 (cvc5 sample)"]
    ctx.bounds.append("one loader step from each of the 4 (function open?, block open?) states, opcode = any of the %d declared Op values; "
                      "inductive: no bound on the length of the instruction sequence" % len(names_of))
    ctx.assumptions += ["outside the claim (per the property): vendor/context-dependent module-scope instructions; OpType*/Op*Constant* opcodes whose class "
                        "cannot be confirmed here (name-rule-only tier)"]
    op = z3.BitVec("op", 32)
    valid = z3.Or(*[op == z3.BitVecVal(v, 32) for v in sorted(names_of)])
    fn = mf.get("consume_instruction", file_hint="loader.rs", kind="fn")
    models = loader_models()
    rp = Replay()
    cats = sorted(set(c for c in cat.values() if c))
    members = {c: [v for v, cc in cat.items() if cc == c] for c in cats}
    total_paths = 0
    for fopen in (False, True):
        for bopen in (False, True):
            eng = sym.Engine([mf], registry, models=models, inline=[r"^is_\w+$"], eager=True)
            classv = sym.Adt("grammar::Instruction", None, [sym.StrV("?"), op, sym.Sym("caps", "&[Capability]"),
                                                           sym.Sym("exts", "&[&str]"), sym.Sym("operands", "&[LogicalOperand]")])
            inst = sym.Adt("Instruction", None, [sym.Ref(("h", "class"), ()), sym.Sym("rtype", "Option<u32>"), sym.Sym("rid", "Option<u32>"),
                                                 sym.Arr([sym.Sym("operand0", "dr::constructs::Operand"), sym.Sym("operand1", "dr::constructs::Operand")], "vec")])
            fval = sym.Adt("Option", "Some", [sym.Sym("curfn", "Function")]) if fopen else sym.Adt("Option", "None", [])
            bval = sym.Adt("Option", "Some", [sym.Sym("curblk", "Block")]) if bopen else sym.Adt("Option", "None", [])
            loader = sym.Adt("Loader", None, [sym.Sym("module", "Module"), fval, bval])
            mem = {("h", "loader"): loader, ("h", "class"): classv}
            res = eng.run(fn, [sym.Ref(("h", "loader"), (), True), inst], mem=mem, pc=[valid])
            ctx.functions.update(eng.stats.functions)
            total_paths += len(res)
            state = "f=%s,b=%s" % ("open" if fopen else "none", "open" if bopen else "none")
            reachable = not (bopen and not fopen)
            for r in res:
                beh = behaviour(eng, r, inst, module_fields, function_fields, block_fields)
                for c in cats:
                    inC = z3.Or(*[op == z3.BitVecVal(v, 32) for v in members[c]])
                    stt, m = q.check(r.pc + [inC], "path-meets-class")
                    if stt == "unsat":
                        continue
                    if stt != "sat":
                        ctx.ob("loader/%s/%s" % (state, c), None, m)
                        continue
                    if not reachable:
                        # (block open, no function) is not reachable; only panic-freedom matters there
                        if beh[0].startswith("panic"):
                            ctx.ob("loader/%s/%s/no-panic" % (state, c), True, "unreachable state; panics there are outside the claim")
                        continue
                    exp = expected(c, fopen, bopen)
                    if beh == exp:
                        ctx.ob("loader/%s/%s" % (state, c), True, "%s" % (beh,))
                        continue
                    # all members of the class on this path deviate; replay each witness
                    blocked = []
                    while True:
                        stt, m = q.check(r.pc + [inC] + [op != z3.BitVecVal(b, 32) for b in blocked], "deviation-witness")
                        if stt != "sat":
                            break
                        w = m.eval(op, model_completion=True).as_long()
                        blocked.append(w)
                        nm = names_of[w][0]
                        real = rp.ask("loader_step %d %d %d" % (int(fopen), int(bopen), w))
                        realb = real_behaviour(real)
                        if realb == exp:
                            # the deviation may need a function that already has a finished block (the empty one of the first probe hides it)
                            real2 = rp.ask("loader_step %d %d %d closed" % (int(fopen), int(bopen), w)) if fopen else {}
                            if real2.get("closed_block_grew"):
                                ctx.ob("loader/%s/%s/%s" % (state, c, nm), False, "a finished block received the instruction: %s" % real2)
                                ctx.violation("loader/%s/filed-into-a-finished-block" % nm, "in state (%s) with a finished block in the open function, Op%s is put into that finished "
                                              "block (%s); the layout/bracketing rules demand %s" % (state, nm, real2, exp), {"cmd": "loader_step %d %d %d closed" % (int(fopen), int(bopen), w), "real": real2})
                                continue
                            if real2 and "error" not in real2 and (real2.get("answer") != exp[0] or bool(real2.get("f")) != exp[2] or bool(real2.get("b")) != exp[3]):
                                ctx.ob("loader/%s/%s/%s" % (state, c, nm), False, "with a finished block in the open function: %s" % real2)
                                ctx.violation("loader/%s/%s-after-a-finished-block" % (nm, "answers-%s-instead-of-%s" % (str(real2.get("answer")).split(":")[0], exp[0])),
                                              "in state (%s) with a finished block in the open function, Op%s is answered %s (function open afterwards: %s, block open: %s); the "
                                              "layout/bracketing rules demand %s" % (state, nm, real2.get("answer"), real2.get("f"), real2.get("b"), exp),
                                              {"cmd": "loader_step %d %d %d closed" % (int(fopen), int(bopen), w), "real": real2})
                                continue
                            ctx.ob("loader/%s/%s/%s" % (state, c, nm), None, "model deviates (%s) but the compiled crate conforms (%s)" % (beh, real))
                            continue
                        ctx.ob("loader/%s/%s/%s" % (state, c, nm), False, "expected %s, got %s" % (exp, realb))
                        ctx.violation("loader/%s/%s" % (nm, describe_dev(exp, realb)),
                                      "in state (%s) Op%s: the layout/bracketing rules demand %s, the loader does %s" % (state, nm, exp, realb),
                                      {"cmd": "loader_step %d %d %d" % (int(fopen), int(bopen), w), "real": real})
                # invariant: block open => function open is preserved from reachable states
                if reachable and beh[3] and not beh[2] and not beh[0].startswith("panic"):
                    stt, m = q.check(r.pc + [inC], "invariant-witness")
                    w = m.eval(op, model_completion=True).as_long() if stt == "sat" else None
                    real = rp.ask("loader_step %d %d %d" % (int(fopen), int(bopen), w)) if w is not None else {}
                    if real.get("f") is False and real.get("b") is True:
                        ctx.ob("loader/%s/invariant" % state, False, str(beh))
                        ctx.violation("loader/invariant-broken", "from state (%s) Op%s takes the loader to (function none, block open): %s" % (state, names_of[w][0], real),
                                      {"cmd": "loader_step %d %d %d" % (int(fopen), int(bopen), w), "real": real})
                    else:
                        ctx.ob("loader/%s/invariant" % state, None, "model-only: %s; the compiled crate: %s" % (beh, real))
    # ---- finalize
    ffn = mf.get("finalize", file_hint="loader.rs", kind="fn")
    for fopen in (False, True):
        for bopen in (False, True):
            if bopen and not fopen:
                continue
            eng = sym.Engine([mf], registry, eager=True)
            fval = sym.Adt("Option", "Some", [sym.Sym("curfn", "Function")]) if fopen else sym.Adt("Option", "None", [])
            bval = sym.Adt("Option", "Some", [sym.Sym("curblk", "Block")]) if bopen else sym.Adt("Option", "None", [])
            loader = sym.Adt("Loader", None, [sym.Sym("module", "Module"), fval, bval])
            res = eng.run(ffn, [sym.Ref(("h", "loader"), (), True)], mem={("h", "loader"): loader})
            want = "UnclosedBlock" if bopen else ("UnclosedFunction" if fopen else "Continue")
            got = [answer_of(r) for r in res]
            ok = got == [want]
            real = rp.ask("loader_finalize %d %d" % (int(fopen), int(bopen)))
            ctx.ob("finalize/f=%d,b=%d" % (fopen, bopen), True if ok else (False if real.get("answer") != want else None), "want %s got %s real %s" % (want, got, real))
            if not ok and real.get("answer") != want:
                ctx.violation("loader/finalize/%s" % want, "finalize in state (f=%s,b=%s) answers %s, expected %s" % (fopen, bopen, real.get("answer"), want),
                              {"cmd": "loader_finalize %d %d" % (int(fopen), int(bopen)), "real": real})
    # translation validation: one opcode per (state, class) on the compiled crate
    for fopen in (False, True):
        for bopen in (False, True):
            if bopen and not fopen:
                continue
            for c in cats:
                w = members[c][ctx.seed % len(members[c])]
                real = rp.ask("loader_step %d %d %d" % (int(fopen), int(bopen), w))
                ctx.validated += 1
    rp.close()
    ctx.extra["states"] = 4
    ctx.extra["transitions"] = total_paths
    ctx.extra["opcode_classes"] = {c: len(members[c]) for c in cats}
    ctx.extra["outside_claim_opcodes"] = sorted(names_of[v][0] for v, c in cat.items() if c is None)
    ctx.extra["cvc5"] = q.summary()
    ctx.extra["explanation"] = ("consume_instruction (MIR) from 4 states x symbolic opcode; every path's answer, filing and next state compared with "
                                "the reference automaton per opcode class by z3; deviations replayed on the compiled crate.")


def answer_of(r):
    if r.status == "panic":
        return "panic:%s" % (r.info,)
    if r.status != "return":
        return "panic:%s" % r.status
    v = r.value
    if isinstance(v, sym.Adt) and v.variant == "Continue":
        return "Continue"
    if isinstance(v, sym.Adt) and v.variant == "Error":
        b = v.fields[0]
        inner = b.inner if isinstance(b, sym.BoxV) else b
        return inner.variant if isinstance(inner, sym.Adt) else repr(inner)
    return repr(v)


def behaviour(eng, r, inst, mfields, ffields, bfields):
    ans = answer_of(r)
    if r.status != "return":
        return (ans, None, None, None)
    loader = r.mem[("h", "loader")]
    fval, bval = loader.fields[1], loader.fields[2]
    fopen = fval.variant == "Some"
    bopen = bval.variant == "Some"
    filed = []
    for e in r.events:
        if e[0] != "push":
            continue
        root, path = e[1]
        val = e[2]
        names = []
        cur = "loader"
        for stp in path:
            if stp[0] != "field":
                continue
            if cur == "loader":
                nm = ["module", "function", "block"][stp[1]]
                cur = {"module": "module", "function": "optfunction", "block": "optblock"}[nm]
                names.append(nm)
            elif cur == "module":
                names.append(mfields[stp[1]])
                cur = "leaf"
            elif cur in ("optfunction", "optblock"):
                cur = cur[3:]
            elif cur == "function":
                names.append(ffields[stp[1]])
                cur = "leaf"
            elif cur == "block":
                names.append(bfields[stp[1]])
                cur = "leaf"
        target = ".".join(names)
        if val is inst:
            filed.append(target)
        else:
            filed.append(target)
    # assignments of the instruction into Option slots (memory_model, def, end, label)
    mod = loader.fields[0]
    if isinstance(mod, sym.Sym):
        for key, v in mod.over.items():
            if key[0] == "f" and isinstance(v, sym.Adt) and v.variant == "Some" and v.fields and v.fields[0] is inst:
                filed.append("module." + mfields[key[2]])
    # new function / new block / function end
    if fopen and isinstance(fval.fields[0], sym.Adt):
        f = fval.fields[0]
        d = f.fields[ffields.index("def")]
        if isinstance(d, sym.Adt) and d.variant == "Some" and d.fields[0] is inst:
            filed.append("newfunction.def")
    if bopen and isinstance(bval.fields[0], sym.Adt):
        b = bval.fields[0]
        l = b.fields[bfields.index("label")]
        if isinstance(l, sym.Adt) and l.variant == "Some" and l.fields[0] is inst:
            filed.append("newblock.label")
    # function end assignment happens on the function value that was then pushed into module.functions
    for e in r.events:
        if e[0] == "push" and isinstance(e[2], (sym.Sym, sym.Adt)) and e[2] is not inst:
            v = e[2]
            if isinstance(v, sym.Sym) and v.name == "curfn":
                endk = ("f", "Some", ffields.index("end"))
                for key, ov in v.over.items():
                    if key[0] == "f" and key[2] == ffields.index("end") and isinstance(ov, sym.Adt) and ov.variant == "Some" and ov.fields[0] is inst:
                        filed.insert(0, "function.end")
    norm = []
    for t in filed:
        t = t.replace("function.blocks", "function.blocks").replace("block.instructions", "block.instructions")
        norm.append(t)
    filed_s = ";".join(norm) if norm else None
    if ans != "Continue":
        filed_s = None if not norm else filed_s
    return (ans, filed_s, fopen, bopen)


def real_behaviour(real):
    if "panic" in real:
        return ("panic:%s" % real["panic"], None, None, None)
    return (real.get("answer"), real.get("filed"), bool(real.get("f")), bool(real.get("b")))


def describe_dev(exp, got):
    if got[0] != exp[0]:
        return "answers-%s-instead-of-%s" % (got[0].split(":")[0], exp[0])
    if got[1] != exp[1]:
        return "filed-into-%s-instead-of-%s" % (got[1], exp[1])
    return "next-state-%s%s-instead-of-%s%s" % (got[2], got[3], exp[2], exp[3])
