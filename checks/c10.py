"""C10 — context-dependent literal widths follow the types declared earlier.

M2  `Parser::parse_literal` from MIR with the tracker symbolic (z3 arrays id -> present / float? / width / signed), any id,
    any words: the number of words consumed and the operand produced are compared with the reference width table for ALL
    widths (u32) and both kinds; `TypeTracker::track` from MIR as ONE step over a symbolic tracker and a symbolic
    instruction of each relevant shape, compared with the reference tracker step — equal initial state (`TypeTracker::new`,
    empty), equal step => the tracker is the stated function of the whole history, any length; OpSwitch sizes its case
    literals by the tracked type of its selector (the first operand) and OpConstant/OpSpecConstant by their result type
    (from the parse_inst runs of C03's machinery); the Parser's MIR reads no static other than the grammar tables;
    the assembler emits one word for LiteralBit32 and two (low first) for LiteralBit64 (token level + z3).
K   `verif::parse_literal` on the compiled code over <= 8 bytes, any width (thorough tier)."""
import os
import re
import sys
import z3
import sym
import mir
import tables
import parsersym
import c03
import kani
from common import Inconclusive, Replay, VERIF
from smt import Q

sys.path.insert(0, os.path.join(VERIF, "reference"))
import spec  # noqa: E402

LEVEL = "model_checking"


def ref_words(isfloat, width):
    """reference: z3 term = number of words (0 = unsupported) for a tracked type"""
    intw = z3.If(z3.Or(width == 8, width == 16, width == 32), 1, z3.If(width == 64, 2, 0))
    fltw = z3.If(z3.Or(width == 16, width == 32), 1, z3.If(width == 64, 2, 0))
    return z3.If(isfloat, fltw, intw)


def run(ctx):
    q = Q(ctx, cross_every=200)
    S = parsersym.Setting()
    ctx.trusted += ["rustc MIR", "mirsym; HashMap<u32, Type> modelled as z3 arrays (get/insert by their std contract)", "Decoder raw requests by the contract of C11",
                    "reference/spec.py width table", "z3"]
    ctx.bounds.append("parse_literal: all ids, all widths (u32), int/float/unknown, all word values and stream lengths; tracker: one step from an arbitrary tracker (inductive)")
    ctx.assumptions += ["ids defined once (a re-definition shadows; outside the claim)"]
    rp = Replay()
    literal_lemmas(ctx, q, S, rp)
    rp.close()
    # the assembler side of the clause: the word count announced for an instruction counts both words of a 64-bit literal
    import c04
    import common as _common
    _common.composed(ctx, "C04-assembler-framing", lambda: c04.assemble_index(ctx, q, S))
    ctx.validated = rp.count
    if ctx.tier == "thorough":
        res = kani.run_many(["k_parse_literal"], cap_s=1500)
        kani.settle(ctx, res, lambda h: h[2:], optional=("k_parse_literal",))
    ctx.extra["states"] = ctx.obligations
    ctx.extra["transitions"] = ctx.queries
    ctx.extra["cvc5"] = q.summary()
    ctx.extra["explanation"] = "parse_literal and TypeTracker::track from MIR over a symbolic tracker; widths decided by z3 for all u32 widths."


def tracker_histories(ctx, q, S, rp):
    """Bounded histories from `TypeTracker::new()` — complements the one-step lemma, whose arbitrary pre-state is built from the
    fields the tracker has TODAY: here the state is whatever `new()` and the real `track` make of it, so a tracker that keeps more
    than the map (a cache, a counter) is covered too. Every sequence of <= N tracked instructions (OpTypeInt / OpTypeFloat /
    a value with a result type; all ids, widths and signedness words symbolic, possibly equal to each other), then
    `resolve(probe)` for an arbitrary id: the answer is the reference map's."""
    I = z3.BitVecSort(32)
    N = 4 if ctx.tier == "quick" else 5
    tfns = [x for x in S.mf.find("track") if "tracker.rs" in x[0] and "closure" not in x[0]]
    rfns = [x for x in S.mf.find("resolve") if "tracker.rs" in x[0] and "closure" not in x[0]]
    nfns = [x for x in S.mf.find("new") if "tracker.rs" in x[0] and "closure" not in x[0]]
    pick = lambda xs, pat: [S.mf.parse_item(x[2]) for x in xs if re.search(pat, S.mf.lines[x[2]])]
    f_track = pick(tfns, r"TypeTracker")
    f_resolve = pick(rfns, r"TypeTracker")
    f_new = pick(nfns, r"-> (\w+::)*TypeTracker")
    if not (len(f_track) == len(f_resolve) == len(f_new) == 1):
        ctx.ob("tracker-histories/encodable", None, "track/resolve/new of TypeTracker: %d/%d/%d candidates" % (len(f_track), len(f_resolve), len(f_new)))
        return
    f_track, f_resolve, f_new = f_track[0], f_resolve[0], f_new[0]

    def m_map_new(engine, st, fr, callee, args, ops):
        return sym.Adt("HashMapModel", None, [z3.K(I, z3.BoolVal(False)), z3.K(I, z3.BoolVal(False)), z3.K(I, z3.BitVecVal(0, 32)), z3.K(I, z3.BoolVal(False))])
    extra = [(r"^HashMap::<u32, .*>::new$|^<HashMap<u32, .*> as Default>::default$", m_map_new)]
    opval = {e["opname"]: e["opcode"] for e in S.T["core"]}
    probe = z3.BitVec("probe_id", 32)

    def cls(opname):
        return sym.Adt("grammar::Instruction", None, [sym.StrV(opname), z3.BitVecVal(opval[opname], 32), sym.Sym("c", "&[Capability]"), sym.Sym("e", "&[&str]"), sym.Sym("o", "&[LogicalOperand]")])

    def inst_of(kind, k):
        rid = z3.BitVec("h%d_rid" % k, 32)
        if kind == "I":
            w, s_ = z3.BitVec("h%d_w" % k, 32), z3.BitVec("h%d_s" % k, 32)
            return ("TypeInt", None, rid, [("LiteralBit32", w), ("LiteralBit32", s_)])
        if kind == "F":
            w = z3.BitVec("h%d_w" % k, 32)
            return ("TypeFloat", None, rid, [("LiteralBit32", w)])
        return ("Undef", z3.BitVec("h%d_rt" % k, 32), rid, [])

    def ref_step(ref, d):
        pres, flt, wid, sig = ref
        opname, rt, rid, ops_ = d
        if opname == "TypeInt":
            return (z3.Store(pres, rid, True), z3.Store(flt, rid, False), z3.Store(wid, rid, ops_[0][1]), z3.Store(sig, rid, ops_[1][1] == 1))
        if opname == "TypeFloat":
            return (z3.Store(pres, rid, True), z3.Store(flt, rid, True), z3.Store(wid, rid, ops_[0][1]), sig)
        known = z3.Select(pres, rt)
        return (z3.If(known, z3.Store(pres, rid, True), pres), z3.If(known, z3.Store(flt, rid, z3.Select(flt, rt)), flt),
                z3.If(known, z3.Store(wid, rid, z3.Select(wid, rt)), wid), z3.If(known, z3.Store(sig, rid, z3.Select(sig, rt)), sig))
    import itertools
    nseq = 0
    for n in range(1, N + 1):
        for seq in itertools.product("IFV", repeat=n):
            if seq[-1] == "V" and n > 1 and "I" not in seq and "F" not in seq:
                continue
            nseq += 1
            tag = "tracker-histories/%s" % "".join(seq)
            try:
                eng = S.engine(extra, loop_bound=4)
                r0 = [r for r in eng.run(f_new, [], mem={}) if r.status == "return"]
                if len(r0) != 1:
                    ctx.ob(tag, None, "TypeTracker::new: %d paths" % len(r0))
                    continue
                mem0 = dict(r0[0].mem)
                mem0[("h", "tt")] = r0[0].value
                states = [(mem0, list(r0[0].pc))]
                ref = (z3.K(I, z3.BoolVal(False)), z3.K(I, z3.BoolVal(False)), z3.K(I, z3.BitVecVal(0, 32)), z3.K(I, z3.BoolVal(False)))
                descr = []
                for k, kind in enumerate(seq):
                    d = inst_of(kind, k)
                    descr.append(d)
                    opname, rt, rid, ops_ = d
                    inst = sym.Adt("Instruction", None, [sym.Ref(("h", "class%d" % k), ()), sym.Adt("Option", "Some", [rt]) if rt is not None else sym.Adt("Option", "None", []),
                                                         sym.Adt("Option", "Some", [rid]), sym.Arr([sym.Adt("dr::constructs::Operand", v_, [x_]) for v_, x_ in ops_], "vec")])
                    nxt = []
                    for mem_, pc_ in states:
                        mem2 = dict(mem_)
                        mem2[("h", "class%d" % k)] = cls(opname)
                        mem2[("h", "inst%d" % k)] = inst
                        for r in eng.run(f_track, [sym.Ref(("h", "tt"), (), True), sym.Ref(("h", "inst%d" % k), ())], mem=mem2, pc=pc_):
                            if r.status == "return":
                                nxt.append((r.mem, list(r.pc)))
                            else:
                                st_, m_ = q.check(r.pc, "history-panic")
                                if st_ != "unsat":
                                    raise mir.Unsupported("track ends in %s %s on a feasible path" % (r.status, r.info))
                    states = nxt
                    ref = ref_step(ref, d)
                bad = None
                npaths = 0
                for mem_, pc_ in states:
                    for r in eng.run(f_resolve, [sym.Ref(("h", "tt"), ()), probe], mem=dict(mem_), pc=pc_):
                        npaths += 1
                        if r.status != "return":
                            raise mir.Unsupported("resolve ends in %s" % r.status)
                        v = r.value
                        if isinstance(v, sym.Adt) and v.variant == "Some":
                            t_ = v.fields[0]
                            while isinstance(t_, sym.Ref):
                                t_ = eng.read_at(_St(r.mem), t_.root, t_.path)
                            got = (z3.BoolVal(True), z3.BoolVal(t_.variant == "Float"), t_.fields[0], t_.fields[1] if t_.variant == "Integer" else z3.BoolVal(False))
                        elif isinstance(v, sym.Adt) and v.variant == "None":
                            got = (z3.BoolVal(False), z3.BoolVal(False), z3.BitVecVal(0, 32), z3.BoolVal(False))
                        else:
                            raise mir.Unsupported("resolve returns %r" % (v,))
                        pp = z3.Select(ref[0], probe)
                        ff = z3.Select(ref[1], probe)
                        want = (pp, z3.And(pp, ff), z3.If(pp, z3.Select(ref[2], probe), 0), z3.And(pp, z3.Not(ff), z3.Select(ref[3], probe)))
                        gotv = (got[0], z3.And(got[0], got[1]), z3.If(got[0], got[2], 0), z3.And(got[0], z3.Not(got[1]), got[3]))
                        cond = z3.Or(*[a != b for a, b in zip(gotv, want)])
                        # prefer a witness the parser can show: the literal that depends on the probed id gets a different word count
                        words = lambda vw: z3.If(vw[0], ref_words(vw[1], vw[2]), 1)
                        st_, m_ = q.check(list(r.pc) + [cond, words(gotv) != words(want)], "tracker-history")
                        if st_ == "unsat":
                            st_, m_ = q.check(list(r.pc) + [cond], "tracker-history")
                        if st_ == "sat":
                            bad = (m_, want)
                            break
                        if st_ != "unsat":
                            raise mir.Unsupported("solver: %s" % (m_,))
                    if bad:
                        break
            except (mir.Unsupported, IndexError, KeyError, AttributeError, TypeError) as ex:
                ctx.ob(tag, None, "not encodable: %s: %s" % (type(ex).__name__, str(ex)[:240]))
                return
            ctx.functions.update(eng.stats.functions)
            if bad is None:
                ctx.ob(tag, True, "%d paths" % npaths)
                continue
            m_, want = bad
            ev = lambda t: m_.eval(t, model_completion=True)
            le = c03.le
            body = ""
            hist = []
            for opname, rt, rid, ops_ in descr:
                if opname == "TypeInt":
                    body += le(4 << 16 | 21) + le(ev(rid).as_long()) + le(ev(ops_[0][1]).as_long()) + le(ev(ops_[1][1]).as_long())
                    hist.append("OpTypeInt %%%d %d %d" % (ev(rid).as_long(), ev(ops_[0][1]).as_long(), ev(ops_[1][1]).as_long()))
                elif opname == "TypeFloat":
                    body += le(3 << 16 | 22) + le(ev(rid).as_long()) + le(ev(ops_[0][1]).as_long())
                    hist.append("OpTypeFloat %%%d %d" % (ev(rid).as_long(), ev(ops_[0][1]).as_long()))
                else:
                    body += le(3 << 16 | 1) + le(ev(rt).as_long()) + le(ev(rid).as_long())
                    hist.append("OpUndef %%%d -> %%%d" % (ev(rt).as_long(), ev(rid).as_long()))
            pv = ev(probe).as_long()
            present, isf, wd = z3.is_true(ev(want[0])), z3.is_true(ev(want[1])), ev(want[2]).as_long()
            nw = 1 if not present else ((1 if wd in (16, 32) else 2 if wd == 64 else 0) if isf else (1 if wd in (8, 16, 32) else 2 if wd == 64 else 0))
            cmd = "parse_script %s C" % (c03.HEADER + body + le((3 + max(nw, 1)) << 16 | 43) + le(pv) + le(0x7ffffff0) + "".join(le(5 + j) for j in range(max(nw, 1))))
            real = rp.ask(cmd)
            real["cmd"] = cmd
            last = (real.get("events") or [""])[-2] if real.get("result") == "Ok" and len(real.get("events", [])) >= 2 else ""
            if nw == 0:
                conforms = "TypeUnsupported" in str(real.get("result"))
            else:
                conforms = real.get("result") == "Ok" and ("LiteralBit32" if nw == 1 else "LiteralBit64") in last
            if "panic" in real or not conforms:
                ctx.ob(tag, False, "; ".join(hist))
                ctx.violation("tracker/history/%s" % "".join(seq), "after the instructions [%s] a literal of type %%%d must be read as %s; the compiled parser: result %s, last instruction %r" % (
                    "; ".join(hist), pv, "unsupported" if nw == 0 else "%d word(s)" % nw, real.get("result"), last), {"cmd": cmd, "real": real})
                return
            ctx.ob(tag, None, "model-only deviation after [%s], probe %%%d; the compiled parser conforms" % ("; ".join(hist), pv))
            return
    ctx.bounds.append("tracker histories: all %d sequences of <= %d tracked instructions over {OpTypeInt, OpTypeFloat, value with a result type} from TypeTracker::new(), every id / width word symbolic" % (nseq, N))


class _St:
    def __init__(self, mem):
        self.mem = mem


def call_sites(ctx, q, S, rp):
    """The places that USE the width rule: `parse_inst` (from MIR) on OpConstant / OpSpecConstant with the tracker, the words and
    the word count symbolic. Whenever the instruction is accepted its literal operand is the one the width table demands for the
    tracked result type (one word -> LiteralBit32, two -> LiteralBit64) and the type is one the table supports; a tracked type of
    an unsupported width is never accepted (the rule is not bypassed at the call site)."""
    I = z3.BitVecSort(32)
    for opname in ("Constant", "SpecConstant"):
        e = [x for x in S.T["core"] if x["opname"] == opname]
        if not e:
            continue
        e = e[0]
        try:
            eng, res, off, idx = c03.run_entry(S, e, [])
        except mir.Unsupported as ex:
            ctx.ob("call-site/%s/encodable" % opname, None, str(ex)[:300])
            continue
        ctx.functions.update(eng.stats.functions)
        rt = z3.Select(S.MEM, off + 4)
        present = z3.Select(z3.Array("tt.present", I, z3.BoolSort()), rt)
        isfloat = z3.Select(z3.Array("tt.isfloat", I, z3.BoolSort()), rt)
        width = z3.Select(z3.Array("tt.width", I, I), rt)
        want = z3.If(present, ref_words(isfloat, width), 1)
        bad = None
        for r in res:
            if r.status != "return":
                continue
            kind, payload = c03.describe_result(r.value)
            if kind != "Ok":
                continue
            ops_ = [o for o in payload.fields[3].items if isinstance(o, sym.Adt)]
            if len(ops_) != 1 or ops_[0].variant not in ("LiteralBit32", "LiteralBit64"):
                cond, what = z3.BoolVal(True), "accepted with operands %s" % [o.variant for o in ops_]
            elif ops_[0].variant == "LiteralBit32":
                cond, what = want != 1, "accepted with a one-word literal"
            else:
                cond, what = want != 2, "accepted with a two-word literal"
            st, m = q.check(r.pc + [cond], "call-site-width")
            if st == "sat":
                bad = (what, m)
                break
            if st != "unsat":
                ctx.ob("call-site/%s/accepted-literal-is-the-table's" % opname, None, m)
        if bad is None:
            ctx.ob("call-site/%s/accepted-literal-is-the-table's" % opname, True, "%d paths" % len(res))
            continue
        what, m = bad
        pv, fv, wv = [m.eval(x, model_completion=True) for x in (present, isfloat, width)]
        wv = wv.as_long()
        le = c03.le
        if z3.is_true(pv):
            decl = (le(3 << 16 | 22) + le(1) + le(wv)) if z3.is_true(fv) else (le(4 << 16 | 21) + le(1) + le(wv) + le(0))
            tdesc = "%s of width %d" % ("float" if z3.is_true(fv) else "int", wv)
        else:
            decl, tdesc = le(2 << 16 | 19) + le(1), "an id that is not a tracked numeric type"
        refw = m.eval(want, model_completion=True).as_long()
        witness = None
        for nwords in (1, 2):
            cmd = "parse_script %s C" % (c03.HEADER + decl + le((3 + nwords) << 16 | e["opcode"]) + le(1) + le(2) + "".join(le(5 + k) for k in range(nwords)))
            real = rp.ask(cmd)
            real["cmd"] = cmd
            if real.get("result") == "Ok" and nwords != refw:
                witness = (nwords, real)
                break
        if witness:
            ctx.ob("call-site/%s/accepted-literal-is-the-table's" % opname, False, what)
            ctx.violation("literal-width/call-site/%s" % opname, "Op%s whose result type is %s is %s: the compiled parser accepts it with a %d-word literal, the width table demands %s" % (
                opname, tdesc, what, witness[0], "rejection (unsupported width)" if refw == 0 else "%d word(s)" % refw), {"cmd": witness[1]["cmd"], "real": witness[1]})
        else:
            ctx.ob("call-site/%s/accepted-literal-is-the-table's" % opname, None, "model-only deviation (%s, type %s); the compiled parser conforms" % (what, tdesc))


def literal_lemmas(ctx, q, S, rp):
    """The MIR / z3 part of C10 (also run by C02 and C03, whose statements include the context-dependent literals). A leg that
    cannot be encoded is recorded as inconclusive and the other legs still run."""
    legs = [("parse_literal", lambda: parse_literal_leg(ctx, q, S, rp)), ("tracker-step", lambda: tracker_step(ctx, q, S, rp)),
            ("selector-choice", lambda: selector_choice(ctx, S)), ("statics", lambda: statics(ctx, S)), ("assembler-widths", lambda: assembler_widths(ctx, q)),
            ("every-instruction-is-tracked", lambda: every_instruction_is_tracked(ctx, S, rp)), ("call-sites", lambda: call_sites(ctx, q, S, rp)),
            ("tracker-histories", lambda: tracker_histories(ctx, q, S, rp))]
    n_inc = len(ctx.inconclusive)
    for name, leg in legs:
        try:
            leg()
        except (mir.Unsupported, sym.Unsupported) as ex:
            ctx.ob("%s/encodable" % name, None, "not encodable: %s" % str(ex)[:300])
    if len(ctx.inconclusive) > n_inc:
        native_width_battery(ctx, rp)


def native_width_battery(ctx, rp):
    """Fallback when a leg could not be encoded (the tracker or parse_literal was rewritten beyond mirsym's models): the check
    stays inconclusive, but the width rule is probed on the compiled crate — type ids across the whole id range (small, around
    2^16, around the 0x3fffff id-bound limit, 2^31, 2^32-1) x int/float x every width class x the three literal consumers. A
    probe that deviates from the property's width rule is a concrete counterexample on the real code and is reported."""
    le = c03.le
    ids = [1, 2, 255, 256, 0xffff, 0x10000, 0x3ffffe, 0x3fffff, 0x400000, 0x400001, 0x7fffffff, 0x80000000, 0xfffffffe]
    n = 0
    for tid in ids:
        vid, lbl = (tid - 1) if tid > 1000 else (tid + 1), 7
        for isfloat in (False, True):
            for width in ((8, 16, 32, 64, 24, 128) if not isfloat else (16, 32, 64, 8, 128)):
                decl = (le(3 << 16 | 22) + le(tid) + le(width)) if isfloat else (le(4 << 16 | 21) + le(tid) + le(width) + le(0))
                words = (1 if width in ((16, 32) if isfloat else (8, 16, 32)) else 2 if width == 64 else None)
                lit = le(0x11111111) + (le(0x22222222) if words == 2 else "")
                nlit = words or 1
                if words is None:
                    lit = le(0x11111111)
                for consumer in ("Constant", "SpecConstant") + (() if isfloat else ("Switch",)):
                    if consumer == "Switch":
                        body = decl + le((3 + nlit) << 16 | 43) + le(tid) + le(vid) + lit + le((3 + nlit + 1) << 16 | 251) + le(vid) + le(lbl) + lit + le(lbl)
                    else:
                        body = decl + le((3 + nlit) << 16 | (43 if consumer == "Constant" else 50)) + le(tid) + le(vid) + lit
                    cmd = "parse_script %s C" % (c03.HEADER + body)
                    real = rp.ask(cmd)
                    n += 1
                    res = str(real.get("result"))
                    last = (real.get("events") or ["", ""])[-2] if len(real.get("events") or []) >= 2 else ""
                    if "panic" in real:
                        bad = "panics: %s" % real["panic"]
                    elif words is None:
                        bad = None if "TypeUnsupported" in res else "a literal of an unsupported %d-bit %s type is not refused: %s" % (width, "float" if isfloat else "int", res[:120])
                    else:
                        want = "LiteralBit64(2459565876208275729)" if words == 2 else "LiteralBit32(286331153)"
                        bad = None if (res == "Ok" and want in last) else "the %d-bit literal of Op%s is not read as %s: %s %r" % (width, consumer, want, res[:120], last[:160])
                    if bad:
                        ctx.ob("literal-width/native-battery", False, bad)
                        ctx.violation("literal-width/native/%s/%s-width-%d" % (consumer, "float" if isfloat else "int", width),
                                      "type id %#x: %s" % (tid, bad), {"cmd": cmd, "real": real})
                        return
    ctx.extra["native_width_battery_requests"] = n


def parse_literal_leg(ctx, q, S, rp):
    # ---------------- parse_literal
    fn = S.mf.get("parse_literal", file_hint="parser.rs", kind="fn")
    eng = S.engine(loop_bound=4)
    off = z3.BitVecVal(40, 64)
    tid = z3.BitVec("type_id", 32)
    idx = z3.BitVec("idx", 64)
    mem = {("h", "p"): S.parser_value(off, None, idx, S.tracker_value("tt"))}
    res = eng.run(fn, [sym.Ref(("h", "p"), (), True), tid], mem=mem, pc=[z3.ULE(S.LEN, 1 << 24)])
    ctx.functions.update(eng.stats.functions)
    tt = mem[("h", "p")].fields[2].fields[0]
    present, isfloat, width, signed = [z3.Select(a, tid) for a in tt.fields]
    want = z3.If(present, ref_words(isfloat, width), 1)
    w0 = z3.Select(S.MEM, off)
    w1 = z3.Select(S.MEM, off + 4)
    for r in res:
        if r.status != "return":
            st, m = q.check(r.pc, "literal-panic")
            ctx.ob("parse_literal/no-panic", st == "unsat" or None, str(r.info))
            continue
        kind, payload = c03.describe_result(r.value)
        d1 = r.mem[("h", "p")].fields[0]
        consumed = d1.fields[1] - off
        if kind == "Ok":
            v = payload
            if v.variant == "LiteralBit32":
                cond = z3.Or(want != 1, consumed != 4, v.fields[0] != w0)
            elif v.variant == "LiteralBit64":
                cond = z3.Or(want != 2, consumed != 8, v.fields[0] != z3.Concat(w1, w0))
            else:
                cond = z3.BoolVal(True)
            tag = "parse_literal/ok-%s" % v.variant
        elif kind == "TypeUnsupported":
            cond = z3.Or(want != 0, consumed != 0)
            tag = "parse_literal/unsupported"
        elif kind == "OperandError":
            # only when the stream cannot supply the words the type demands
            cond = z3.And(want != 0, z3.ULE(off + 4 * z3.ZeroExt(32, z3.Int2BV(want, 32)), S.LEN)) if False else z3.BoolVal(False)
            tag = "parse_literal/stream-error"
        else:
            cond = z3.BoolVal(True)
            tag = "parse_literal/" + kind
        st, m = q.check(r.pc + [cond], "literal-width")
        if st == "unsat":
            ctx.ob(tag, True)
            continue
        if st != "sat":
            ctx.ob(tag, None, m)
            continue
        pv, fv, wv, sv = [m.eval(x, model_completion=True) for x in (present, isfloat, width, signed)]
        wv = wv.as_long()
        k = 0 if not z3.is_true(pv) else (2 if z3.is_true(fv) else 1)
        raw = bytes([k, 1 if z3.is_true(sv) else 0]) + wv.to_bytes(4, "little") + bytes([8]) + bytes(range(1, 9)) + b"\0"
        real = rp.ask("scenario parse_literal %s" % raw.hex())
        code = real.get("code")
        if "panic" in real or (code is not None and code >= 100):
            ctx.ob(tag, False, "tracked=%s float=%s width=%d" % (pv, fv, wv))
            ctx.violation("literal-width/%s/%s-width-%d" % (kind, "unknown" if k == 0 else ("float" if k == 2 else "int"), wv),
                          "parse_literal with type %s: result %s, consumed %s bytes; the width table demands %s word(s); native scenario: %s" % (
                              "unknown" if k == 0 else ("float %d" % wv if k == 2 else "int %d" % wv), kind, m.eval(consumed, model_completion=True),
                              m.eval(want, model_completion=True), real), {"cmd": "scenario parse_literal %s" % raw.hex(), "real": real})
        else:
            ctx.ob(tag, None, "model deviates (type present=%s float=%s width=%d) but the compiled crate conforms: %s" % (pv, fv, wv, real))


def tracker_step(ctx, q, S, rp):
    fn = [S.mf.parse_item(x[2]) for x in S.mf.find("track") if "tracker.rs" in x[0] and "closure" not in x[0] and "87:" not in x[0]][0]
    I = z3.BitVecSort(32)
    shapes = {
        "TypeInt": ("type", [("LiteralBit32", z3.BitVec("bits", 32)), ("LiteralBit32", z3.BitVec("sign", 32))]),
        "TypeFloat": ("type", [("LiteralBit32", z3.BitVec("fbits", 32))]),
        "TypeFloat+encoding": ("type", [("LiteralBit32", z3.BitVec("fbits", 32)), ("FPEncoding", z3.BitVec("fenc", 32))]),
        "TypeVoid": ("type", []),
        "IAdd": ("value", [("IdRef", z3.BitVec("a", 32)), ("IdRef", z3.BitVec("b", 32))]),
        "Constant": ("value", [("LiteralBit32", z3.BitVec("c", 32))]),
        "Label": ("value", []),
        "Store": ("value", [("IdRef", z3.BitVec("a", 32)), ("IdRef", z3.BitVec("b", 32))]),
    }
    opval = {e["opname"]: e["opcode"] for e in S.T["core"]}
    rid = z3.BitVec("rid", 32)
    rty = z3.BitVec("rty", 32)
    probe = z3.BitVec("probe_id", 32)
    for shape_name, (cls, ops_) in shapes.items():
        opname = shape_name.split("+")[0]
        for has_rid in (True, False):
            for has_rt in ((True, False) if cls == "value" else (False,)):
                eng = S.engine(loop_bound=4)
                tr = S.tracker_value("tt")
                classv = sym.Adt("grammar::Instruction", None, [sym.StrV(opname), z3.BitVecVal(opval[opname], 32), sym.Sym("c", "&[Capability]"),
                                                               sym.Sym("e", "&[&str]"), sym.Sym("o", "&[LogicalOperand]")])
                operands = sym.Arr([sym.Adt("dr::constructs::Operand", v, [x]) for v, x in ops_], "vec")
                inst = sym.Adt("Instruction", None, [sym.Ref(("h", "class"), ()), sym.Adt("Option", "Some", [rty]) if has_rt else sym.Adt("Option", "None", []),
                                                     sym.Adt("Option", "Some", [rid]) if has_rid else sym.Adt("Option", "None", []), operands])
                mem = {("h", "tt"): tr, ("h", "class"): classv, ("h", "inst"): inst}
                res = eng.run(fn, [sym.Ref(("h", "tt"), (), True), sym.Ref(("h", "inst"), ())], mem=mem)
                ctx.functions.update(eng.stats.functions)
                pres0, flt0, wid0, sig0 = tr.fields[0].fields
                for r in res:
                    tag = "track/%s/rid=%s,rtype=%s" % (shape_name, has_rid, has_rt)
                    if r.status != "return":
                        st, m = q.check(r.pc, "track-panic")
                        ctx.ob(tag + "/no-panic", st == "unsat" or (False if st == "sat" else None), str(r.info))
                        if st == "sat":
                            why, real = native_tracker_probe(rp, opname, has_rid, has_rt)
                            if why and "panic" in why:
                                ctx.violation("tracker/track-panics/%s" % opname, "TypeTracker::track panics on Op%s: %s" % (opname, why), {"cmd": real.get("cmd"), "real": real})
                            else:
                                ctx.inconclusive.append((tag + "/no-panic", "model-only panic edge %s" % (r.info,)))
                        continue
                    t1 = r.mem[("h", "tt")].fields[0]
                    pres1, flt1, wid1, sig1 = t1.fields
                    # reference step
                    if not has_rid:
                        ref = (pres0, flt0, wid0, sig0)
                    elif opname == "TypeInt":
                        ref = (z3.Store(pres0, rid, True), z3.Store(flt0, rid, False), z3.Store(wid0, rid, ops_[0][1]), z3.Store(sig0, rid, ops_[1][1] == 1))
                    elif opname == "TypeFloat":
                        ref = (z3.Store(pres0, rid, True), z3.Store(flt0, rid, True), z3.Store(wid0, rid, ops_[0][1]), sig0)
                    elif cls == "type" or not has_rt:
                        ref = (pres0, flt0, wid0, sig0)
                    else:
                        known = z3.Select(pres0, rty)
                        ref = (z3.If(known, z3.Store(pres0, rid, True), pres0), z3.If(known, z3.Store(flt0, rid, z3.Select(flt0, rty)), flt0),
                               z3.If(known, z3.Store(wid0, rid, z3.Select(wid0, rty)), wid0), z3.If(known, z3.Store(sig0, rid, z3.Select(sig0, rty)), sig0))
                    # observable equality: for every id, resolve() gives the same answer
                    def view(p, f, w, s_):
                        pp = z3.Select(p, probe)
                        ff = z3.Select(f, probe)
                        return (pp, z3.And(pp, ff), z3.If(pp, z3.Select(w, probe), 0), z3.And(pp, z3.Not(ff), z3.Select(s_, probe)))
                    a, b = view(pres1, flt1, wid1, sig1), view(*ref)
                    st, m = q.check(r.pc + [z3.Or(*[x != y for x, y in zip(a, b)])], "track-step")
                    ctx.ob(tag, st == "unsat" or (False if st == "sat" else None))
                    if st == "sat":
                        why, real = native_tracker_probe(rp, shape_name, has_rid, has_rt)
                        if why:
                            ctx.violation("tracker/step/%s" % opname, "after tracking Op%s (result id %s, result type %s) the tracker answers differently from the reference for id %s; "
                                          "on the compiled crate: %s" % (opname, has_rid, has_rt, m.eval(probe, model_completion=True), why), {"cmd": real.get("cmd"), "real": real})
                        else:
                            ctx.inconclusive.append((tag, "model-only deviation of the tracker step; the compiled crate sizes the following literal as the reference says (%s)" % str(real)[:160]))


def every_instruction_is_tracked(ctx, S, rp):
    """'the types declared EARLIER' are all earlier instructions: `Parser::parse` (MIR, the consumer and parse_inst summarised as in
    C14) hands every parsed instruction to `TypeTracker::track` before delivering it — also inside function bodies. A path that
    delivers an untracked instruction is confirmed natively: an OpSwitch on a 64-bit value defined INSIDE a function."""
    import c14
    fn = S.mf.get("parse", file_hint="parser.rs", kind="fn")
    eng = sym.Engine([S.mf], S.registry, models=c14.mk_models(), inline=[r"^Action::consume$", r"^Decoder::<'_>::(offset|has_limit|limit_reached)$"],
                     eager=True, loop_bound=4, hints={"consume": "parser.rs"})
    try:
        res = eng.run(fn, [sym.Sym("parser", "Parser")])
    except mir.Unsupported as ex:
        ctx.ob("tracking/encodable", None, "Parser::parse cannot be encoded: %s" % str(ex)[:200])
        res = []
    untracked = None
    for r in res:
        if r.status != "return":
            continue
        ev = [e for e in r.events if e[0] in ("outcome", "track", "cb")]
        for k, e in enumerate(ev):
            if e[0] == "cb" and e[1] == "instruction":
                # the event before the delivery must be the tracking of the same instruction
                if not (k > 0 and ev[k - 1][0] == "track"):
                    untracked = [x[1] if len(x) > 1 else x[0] for x in ev][:12]
                    break
        if untracked:
            break
    le = c03.le
    body = le(4 << 16 | 21) + le(1) + le(64) + le(0) + le(2 << 16 | 19) + le(7) + le(3 << 16 | 33) + le(8) + le(7) + \
        le(5 << 16 | 54) + le(7) + le(10) + le(0) + le(8) + le(2 << 16 | 248) + le(11) + le(5 << 16 | 128) + le(1) + le(2) + le(3) + le(4) + \
        le(6 << 16 | 251) + le(2) + le(11) + le(5) + le(6) + le(11) + le(1 << 16 | 56)
    cmd = "parse_script %s C" % (c03.HEADER + body)
    real = rp.ask(cmd)
    sw = [e for e in real.get("events", []) if e.startswith("instruction Switch")]
    native_ok = real.get("result") == "Ok" and sw and "LiteralBit64" in sw[0]
    if native_ok and not untracked:
        ctx.ob("tracking/every-delivered-instruction-was-tracked", True if res else None)
    elif not native_ok:
        ctx.ob("tracking/every-delivered-instruction-was-tracked", False, "native: %s" % str(real)[:200])
        ctx.violation("tracker/not-fed-inside-functions", "an OpSwitch on a 64-bit value defined inside a function body does not read two-word case literals: result %s, %s%s" % (
            real.get("result"), sw[:1], ("; in the model of Parser::parse an instruction is delivered without having been tracked: %s" % untracked) if untracked else ""),
            {"cmd": cmd, "real": real})
    else:
        ctx.ob("tracking/every-delivered-instruction-was-tracked", None, "in the model an instruction is delivered untracked (%s) but the native probe is parsed correctly" % untracked)


def native_tracker_probe(rp, opname, has_rid, has_rt):
    """The observable effect of one tracker step on the compiled crate: the width the parser gives to a literal that depends on
    the tracked id afterwards. Only grammar-conforming shapes can be fed to the real parser. -> (deviation | None, answer)"""
    le = c03.le
    conforming = {"TypeInt": (True, False), "TypeFloat": (True, False), "TypeFloat+encoding": (True, False), "TypeVoid": (True, False), "IAdd": (True, True), "Constant": (True, True), "Label": (True, False)}
    if conforming.get(opname) != (has_rid, has_rt):
        return None, {"note": "the shape is not grammar-conforming: no native probe"}
    int64 = le(4 << 16 | 21) + le(1) + le(64) + le(0)
    sw64 = lambda sel: le(6 << 16 | 251) + le(sel) + le(9) + le(5) + le(6) + le(9)          # one case with a two-word literal
    sw32 = lambda sel: le(5 << 16 | 251) + le(sel) + le(9) + le(5) + le(9)
    if opname == "TypeInt":
        body, want = int64 + le(5 << 16 | 43) + le(1) + le(2) + le(5) + le(6), "LiteralBit64"
    elif opname == "TypeFloat":
        body, want = le(3 << 16 | 22) + le(1) + le(64) + le(5 << 16 | 43) + le(1) + le(2) + le(5) + le(6), "LiteralBit64"
    elif opname == "TypeFloat+encoding":
        body, want = le(4 << 16 | 22) + le(1) + le(64) + le(0) + le(5 << 16 | 43) + le(1) + le(2) + le(5) + le(6), "LiteralBit64"
    elif opname == "TypeVoid":
        body, want = le(2 << 16 | 19) + le(1) + le(4 << 16 | 43) + le(1) + le(2) + le(5), "LiteralBit32"
    elif opname == "IAdd":
        body, want = int64 + le(5 << 16 | 128) + le(1) + le(2) + le(3) + le(4) + sw64(2), "LiteralBit64"
    elif opname == "Constant":
        body, want = int64 + le(5 << 16 | 43) + le(1) + le(2) + le(5) + le(6) + sw64(2), "LiteralBit64"
    else:
        body, want = int64 + le(2 << 16 | 248) + le(2) + sw32(2), "LiteralBit32"
    cmd = "parse_script %s C" % (c03.HEADER + body)
    real = rp.ask(cmd)
    real["cmd"] = cmd
    if "panic" in real:
        return "panics: %s" % real["panic"], real
    if opname in ("IAdd", "Constant"):
        # a value of a type whose width has no literal encoding (12 bits): the literal that depends on it is unsupported, and
        # of a 16-bit type: one word
        for width, want2 in ((12, "TypeUnsupported"), (16, "LiteralBit32")):
            decl = le(4 << 16 | 21) + le(1) + le(width) + le(0)
            inst_ = (le(5 << 16 | 128) + le(1) + le(2) + le(3) + le(4)) if opname == "IAdd" else None
            if inst_ is None:
                continue
            cmd2 = "parse_script %s C" % (c03.HEADER + decl + inst_ + sw32(2))
            r2 = rp.ask(cmd2)
            r2["cmd"] = cmd2
            got = str(r2.get("result")) + " " + str((r2.get("events") or [""])[-2:])
            if "panic" in r2 or want2 not in got:
                return "OpSwitch on the result of an OpIAdd of a %d-bit integer type: %s (expected %s)" % (width, got[:200], want2), r2
    last = (real.get("events") or [""])[-2] if real.get("result") == "Ok" and len(real.get("events", [])) >= 2 else ""
    if real.get("result") != "Ok" or want not in last:
        return "the literal after Op%s is not read as %s: result %s, last instruction %r" % (opname, want, real.get("result"), last), real
    return None, real


def selector_choice(ctx, S):
    """OpSwitch: the id passed to parse_literal is the first operand (the selector); OpConstant/OpSpecConstant: the result type."""
    T = S.T
    for opname, want in (("Constant", "rtype"), ("SpecConstant", "rtype"), ("Switch", "operand0")):
        e = [x for x in T["core"] if x["opname"] == opname][0]
        seen = []

        def spy(engine, st, fr, callee, args, ops):
            seen.append(args[1])
            return sym.Fork([(True, sym.Adt("Result", "Err", [sym.Adt("binary::parser::State", "TypeUnsupported", [z3.BitVecVal(0, 64), z3.BitVecVal(0, 64)])]), ("lit", "stop"))])
        eng, res, off, idx = run_entry_with(S, e, [(r"^Parser::<'_, '_>::parse_literal$", spy)])
        ok = bool(seen)
        for s_ in seen:
            txt = str(z3.simplify(s_))
            # word 1 of the instruction is the result type (Constant) or the selector (Switch: no result type/id)
            ok = ok and ("MEM" in txt and ("4 + off" in txt or "off + 4" in txt))
        if ok:
            ctx.ob("literal-type-source/%s" % opname, True)
            continue
        # native confirmation: a 64-bit typed value through the instruction must come back as a 64-bit literal
        le = c03.le
        words = c03.HEADER + le(4 << 16 | 21) + le(1) + le(64) + le(0) + le(5 << 16 | 43) + le(1) + le(2) + le(7) + le(0)
        if opname == "Switch":
            words += le(6 << 16 | 251) + le(2) + le(9) + le(0x11111111) + le(0x22222222) + le(8)
            expect = "LiteralBit64(2459565876208275729)"
        elif opname == "Constant":
            words += le(5 << 16 | 43) + le(1) + le(3) + le(0x11111111) + le(0x22222222)
            expect = "LiteralBit64(2459565876208275729)"
        else:
            words += le(5 << 16 | 44) + le(1) + le(3) + le(0x11111111) + le(0x22222222)
            expect = "LiteralBit64(2459565876208275729)"
        rp = Replay()
        real = rp.ask("parse_script %s C" % words)
        rp.close()
        last = [x for x in real.get("events", []) if x.startswith("instruction " + opname)]
        good = real.get("result") == "Ok" and last and expect in last[-1]
        ctx.ob("literal-type-source/%s" % opname, None if good else False, "parse_literal is called with %s; native: %s %s" % (seen[:2], real.get("result"), last[-1:] ))
        if not good:
            ctx.violation("literal-width/%s/type-taken-from-wrong-operand" % opname,
                          "Op%s sizes its literal by %s instead of the %s; a 64-bit typed literal parses as %s / %s" % (
                              opname, seen[:1], "selector's type" if opname == "Switch" else "result type", real.get("result"), last[-1:]),
                          {"cmd": "parse_script %s C" % words, "real": real})


def run_entry_with(S, e, extra):
    eng = S.engine(extra + [(r"CoreInstructionTable::lookup_opcode$", c03.lookup_model(sym.Ref(("h", "entry"), ()), e["opcode"]))], loop_bound=len(e["operands"]) + 4)
    opsarr = sym.Arr([sym.Adt("LogicalOperand", None, [z3.BitVecVal(k, 64), z3.BitVecVal(q_, 64)]) for k, q_ in e["operands"]])
    mem = {("h", "ops"): opsarr}
    mem[("h", "entry")] = sym.Adt("grammar::Instruction", None, [sym.StrV(e["opname"]), z3.BitVecVal(e["opcode"], 32), sym.Sym("caps", "&[Capability]"),
                                                                sym.Sym("exts", "&[&str]"), sym.Ref(("h", "ops"), ())])
    off = z3.BitVec("off", 64)
    idx = z3.BitVec("idx", 64)
    mem[("h", "p")] = S.parser_value(off, None, idx)
    fn = S.mf.get("parse_inst", file_hint="parser.rs", kind="fn")
    res = eng.run(fn, [sym.Ref(("h", "p"), (), True)], mem=mem, pc=[off == 20, z3.ULE(S.LEN, 1 << 24), z3.ULE(idx, 1 << 20)])
    return eng, res, off, idx


def statics(ctx, S):
    """The parser's code mentions no static besides the grammar tables, and `Parser::new` starts from `TypeTracker::new()`."""
    mf = S.mf
    bad = []
    count = 0
    for name, lst in mf.items.items():
        if not any(x in name for x in ("binary/parser.rs", "binary/tracker.rs", "binary/decoder.rs", "autogen_parse_operand.rs", "autogen_decode_operand.rs")):
            continue
        if "verif" in name or "tests" in name:
            continue
        for k, ln in lst:
            if k != "fn":
                continue
            count += 1
            i = ln + 1
            while i < len(mf.lines) and not mf.lines[i].startswith("fn "):
                m = re.search(r"\(static: (\w+)", mf.lines[i])
                if m and m.group(1) not in ("INSTRUCTION_TABLE", "GLSL_STD_450_INSTRUCTION_TABLE", "OPENCL_STD_100_INSTRUCTION_TABLE"):
                    bad.append((name, m.group(1)))
                m = re.search(r"LocalKey::<|thread_local|static mut |AtomicU|OnceLock|OnceCell|Mutex::<|RwLock::<", mf.lines[i])
                if m:
                    bad.append((name, "thread-local / synchronised state (%s)" % m.group(0)))
                if mf.lines[i].startswith(("const ", "static ")):
                    break
                i += 1
    ctx.ob("parser-reads-no-global-state/%d-functions" % count, not bad, str(bad[:3]) if bad else None)
    if not bad:
        bad = [("(none found in the MIR)", "none")]       # the two-parse validation below is run in any case
        none_found = True
    else:
        none_found = False
    if bad:
        # a static other than the grammar tables: is it state that leaks from one parse into the next? Two parses in one process
        # (same thread): a binary that declares %1 = OpTypeInt 64 and then one that uses %1 as a constant's type WITHOUT declaring it
        le = c03.le
        first = c03.HEADER + le(4 << 16 | 21) + le(1) + le(64) + le(0) + le(5 << 16 | 43) + le(1) + le(2) + le(5) + le(6)
        second = c03.HEADER + le(4 << 16 | 43) + le(1) + le(2) + le(5)
        rp_a, rp_b = Replay(), Replay()
        rp_a.ask("parse_script %s C" % first)
        after = rp_a.ask("parse_script %s C" % second)
        alone = rp_b.ask("parse_script %s C" % second)
        rp_a.close()
        rp_b.close()
        if after.get("events") != alone.get("events") or after.get("result") != alone.get("result"):
            ctx.violation("parser/global-state", "parser code references static %s and a parse depends on the parse before it: after a binary declaring %%1 = OpTypeInt 64, "
                          "`%%2 = OpConstant %%1 5` of a binary that does not declare %%1 gives %s / %s; parsed alone it gives %s / %s" % (
                              bad[0][1], after.get("result"), (after.get("events") or [""])[-2:], alone.get("result"), (alone.get("events") or [""])[-2:]),
                          {"cmd": "parse_script %s C ; parse_script %s C" % (first, second), "real": after})
        elif not none_found:
            ctx.inconclusive.append(("parser-reads-no-global-state", "parser code references static %s (in %s); two consecutive parses did not influence each other" % (bad[0][1], bad[0][0])))
        else:
            ctx.ob("two-consecutive-parses-are-independent", True)
    newfn = [mf.parse_item(x[2]) for x in mf.find("new") if "binary/parser.rs" in x[0]]
    ok = False
    if len(newfn) == 1:
        calls = [mir.term_of(b.term) for b in newfn[0].blocks.values()]
        ok = any(t[0] == "call" and t[2] == "TypeTracker::new" for t in calls)
    ctx.ob("parser-starts-with-empty-tracker", True if ok else None)


def assembler_widths(ctx, q):
    s = tables.src("rspirv/binary/assemble.rs")
    txt = " ".join(t.v for t in s.toks)
    ok64 = "Self :: LiteralBit64 ( v ) => result . extend ( [ v as u32 , ( v >> 32 ) as u32 ] )" in txt
    ok32 = re.search(r"Self :: LiteralBit32 \( v \) (\| Self :: \w+ \( v \) )*=> result \. push \( v \)", txt) is not None
    ctx.ob("assemble/LiteralBit64-two-words-low-first", True if ok64 else None)
    ctx.ob("assemble/LiteralBit32-one-word", True if ok32 else None)
    v = z3.BitVec("v", 64)
    lo, hi = z3.Extract(31, 0, v), z3.Extract(31, 0, z3.LShR(v, 32))
    st, m = q.check([z3.Concat(hi, lo) != v], "split-join")
    ctx.ob("bit64/join(split(v))=v", st == "unsat" or None)
