"""C02 — assemble and parse are exact inverses on grammar-conforming instructions. Decided piecewise (DESIGN §6 C02):

M2  every arm of `<Operand as Assemble>::assemble_into` (all 64+ variants, MIR): the words emitted are exactly the payload
    word (enumerants: their numeric value; masks: their bits; ids/literals: the word), two words low-first for LiteralBit64;
M2  every arm of `Parser::parse_operand` (all kinds, MIR, typed decode methods inlined, from_u32/from_bits by the contract of C08):
    on a word w the delivered operand is the kind's variant carrying w  => parse(assemble(x)) = x and assemble(parse(w)) = w per kind;
M2  framing: `Instruction::assemble_into` emits opcode | (n << 16) with n = number of words emitted, then result type, result id,
    operands in order (operand emission summarised as 'appends its words');
T   each decode method converts with the from_u32/from_bits of its own kind and reports <Kind>Unknown (shape, C11);
    enumerant parameters: C17; quantifier loop: C03; literal widths: C10;
K   strings: `Operand::LiteralString(s).assemble()` = little-endian packing, zero padding to a word boundary with a NUL
    (k_string_pack, NUL-free ASCII s of <= 7 bytes; thorough tier) and `Decoder::string` (C11) consume the same words."""
import re
import z3
import sym
import mir
import tables
import parsersym
import kani
import c03
import c04
from common import Inconclusive, Replay
from smt import Q

LEVEL = "model_checking"


def run(ctx):
    q = Q(ctx, cross_every=300)
    S = parsersym.Setting()
    T = S.T
    P = tables.parse_operand_arms()
    registry = S.registry
    e = registry.lookup("constructs::Operand")
    ctx.trusted += ["rustc MIR", "mirsym", "from_u32 / from_bits contracts (C08)", "Decoder contract (C11)", "z3", "Kani/CBMC for string packing"]
    ctx.bounds.append("per operand kind / variant: all 2^32 payload words (2^64 for LiteralBit64); framing: 0..2 operands, 0/1/3 words already in the output")
    ctx.assumptions += ["strings beyond 7 bytes, and instructions of 65536 words or more (the word count wraps: the format cannot express them), are outside"]
    rp = Replay()
    # ---------------- assemble: one variant at a time
    c = [x for x in S.mf.find("assemble_into") if re.search(r"\(_1: &(\w+::)*Operand,", S.mf.lines[x[2]])]
    if len(c) != 1:
        raise Inconclusive("Operand::assemble_into: %d candidates" % len(c))
    fn = S.mf.parse_item(c[0][2])
    payload_ty = operand_payload_types()
    emitted = {}
    for variant, disc in e["variants"]:
        ty = payload_ty.get(variant)
        if ty is None:
            ctx.ob("assemble/%s" % variant, None, "payload type unknown")
            continue
        if ty == "String":
            continue
        w = z3.BitVec("payload", 64 if ty == "u64" else 32)
        eng = S.engine([(r"<impl (spirv::)?\w+>::bits$", lambda en, st, fr, cl, a, o: sym._deref_arg(en, st, a[0])),
                        (r"^<Vec<u32> as Extend<u32>>::extend::<\[u32; 2\]>$", m_extend_array)], loop_bound=4)
        opv = sym.Adt("dr::constructs::Operand", variant, [w])
        mem = {("h", "op"): opv, ("h", "result"): sym.Arr([], "vec")}
        try:
            res = eng.run(fn, [sym.Ref(("h", "op"), ()), sym.Ref(("h", "result"), (), True)], mem=mem)
        except mir.Unsupported as ex:
            ctx.ob("assemble/%s/encodable" % variant, None, str(ex)[:300])
            continue
        ctx.functions.update(eng.stats.functions)
        if len(res) != 1 or res[0].status != "return":
            ctx.ob("assemble/%s" % variant, None, "paths: %s" % res[:2])
            continue
        out = res[0].mem[("h", "result")].items
        if ty == "u64":
            want = [z3.Extract(31, 0, w), z3.Extract(63, 32, w)]
        else:
            want = [w]
        good = len(out) == len(want)
        if good:
            st, m = q.check([z3.Or(*[a != b for a, b in zip(out, want)])], "assemble-arm")
            good = st == "unsat"
        ctx.ob("assemble/%s/emits-its-payload" % variant, True if good else False, None if good else "emits %s" % (out,))
        emitted[variant] = good
        if not good:
            real = rp.ask("assemble_operand %s %d" % (variant, 0x01020304))
            ctx.violation("assemble/operand/%s" % variant, "Operand::%s(v) does not assemble to its value word(s): model %s, native %s" % (variant, out, real),
                          {"cmd": "assemble_operand %s %d" % (variant, 0x01020304), "real": real})
    # ---------------- parse_operand: one kind at a time
    pfn = [S.mf.parse_item(x[2]) for x in S.mf.find("parse_operand") if "autogen_parse_operand" in x[0] and "closure" not in x[0]][0]
    kinds = registry.lookup("syntax::OperandKind")
    for kind, disc in kinds["variants"]:
        arm = P.get(kind)
        if arm is None:
            ctx.ob("parse_operand/%s" % kind, None, "no arm")
            continue
        if arm["panic"] or not arm["operands"]:
            continue
        variant = arm["operands"][0][0]
        if payload_ty.get(variant) in ("String",):
            continue
        eng = S.engine([(r"^Parser::<'_, '_>::(%s)$" % "|".join(c03.MASK_ARG_FNS), c03.mask_args_summary(S))], loop_bound=4)
        off = z3.BitVecVal(40, 64)
        mem = {("h", "p"): S.parser_value(off, None, z3.BitVecVal(1, 64))}
        try:
            res = eng.run(pfn, [sym.Ref(("h", "p"), (), True), z3.BitVecVal(disc, 64)], mem=mem, pc=[z3.ULE(S.LEN, 1 << 24)])
        except mir.Unsupported as ex:
            ctx.ob("parse_operand/%s/encodable" % kind, None, str(ex)[:300])
            continue
        ctx.functions.update(eng.stats.functions)
        w0 = z3.Select(S.MEM, off)
        w1 = z3.Select(S.MEM, off + 4)
        oks = 0
        for r in res:
            if r.status != "return":
                st, m = q.check(r.pc, "parse-operand-panic")
                ctx.ob("parse_operand/%s/no-panic" % kind, st == "unsat" or None, str(r.info))
                continue
            k2, payload = c03.describe_result(r.value)
            if k2 != "Ok":
                continue
            oks += 1
            first = payload.items[0] if payload.items else None
            if first is None or first.variant != variant:
                # the expectation comes from the token reader of the SAME function: a disagreement is an inconsistency of my two
                # readers, not a fact about the code
                ctx.ob("parse_operand/%s" % kind, None, "MIR delivers %r, the token reader expects %s" % (first, variant))
                continue
            val = first.fields[0]
            want = z3.Concat(w1, w0) if payload_ty.get(variant) == "u64" else w0
            if z3.is_bv(val) and val.size() == want.size():
                st, m = q.check(r.pc + [val != want], "parse-operand-value")
                good = st == "unsat"
            else:
                good = False
            ctx.ob("parse_operand/%s/delivers-%s(word)" % (kind, variant), True if good else False)
            if not good:
                w0v = m.eval(w0, model_completion=True).as_long() if (st == "sat" and m is not None) else 1
                w1v = m.eval(w1, model_completion=True).as_long() if (st == "sat" and m is not None) else 2
                real = rp.ask("parse_assemble_kind %s %d %d" % (kind, w0v, w1v))
                if "panic" in real or (real.get("ok") and real.get("words", [])[:1] != [w0v]):
                    ctx.violation("parse/operand-value/%s" % kind, "parse_operand(%s) does not deliver the word it read: the word %#x is delivered as %s and assembles to %s" % (
                        kind, w0v, real.get("operands"), real.get("words")), {"cmd": "parse_assemble_kind %s %d %d" % (kind, w0v, w1v), "real": real})
                else:
                    ctx.inconclusive.append(("parse_operand/%s/value" % kind, "model-only: the compiled crate answers %s" % real))
        if not oks:
            ctx.ob("parse_operand/%s/has-ok-path" % kind, None, "no accepting path")
    # ---------------- parameters of enumerants / mask bits, context-dependent literal widths
    c03.mask_parameter_bits(ctx, S, q, rp)
    c03.enum_parameter_values(ctx, S, q, rp)
    import c10
    c10.literal_lemmas(ctx, q, S, rp)
    # ---------------- framing
    c04.assemble_index(ctx, q, S)
    # ---------------- decode method pairing (token level)
    import c11
    ctx.extra["typed_requests_decided_from_mir"] = c11.typed_requests_mir(ctx)
    # ---------------- native inverse on one instruction per kind (validation of the pairing)
    native_roundtrip(ctx, S, rp, P)
    native_utf8_strings(ctx, rp)
    # the entries whose operands are context-dependent, paired or nested (OpConstant, OpSpecConstant, OpSwitch, OpSpecConstantOp,
    # OpGroupMemberDecorate, OpPhi): parse_inst from MIR against the grammar entry (C03's machinery)
    c03.entry_runs(ctx, q, S, rp, only_special=True)
    # 'grammar-conforming' means conforming to the Khronos grammar: the table the parser reads must be that grammar (pinned snapshot)
    import c09
    c09.snapshot_diff(ctx, "core", S.T["core"], S.T)
    # the number <-> enumerant conversions the typed requests rest on (`from_u32` returns the enumerant OF that number): C08's legs
    import c08
    import common as _common
    _common.composed(ctx, "C08-conversions", lambda: c08.run(ctx))
    rp.close()
    ctx.validated = rp.count
    hs = ["k_string_pack"] if ctx.tier == "thorough" else ["k_string_pack_small"]
    res = kani.run_many(hs, cap_s=1500 if ctx.tier == "quick" else 3000)
    kani.settle(ctx, res, lambda h: "string_pack")
    ctx.extra["states"] = ctx.obligations
    ctx.extra["transitions"] = ctx.queries
    ctx.extra["cvc5"] = q.summary()
    ctx.extra["explanation"] = "Per-variant assemble arms and per-kind parse arms from MIR with a symbolic payload word; equality of emitted / delivered words by z3."


def native_utf8_strings(ctx, rp, maxc=4):
    """Strings with multi-byte characters: the Kani harness is restricted to ASCII (CBMC runs out of memory on `String::push` of
    multi-byte characters), so the same scenario function is run natively on EVERY string of <= maxc characters over the alphabet
    {a, e-acute (2 bytes), euro (3 bytes), an emoji (4 bytes)}: packed words = the UTF-8 bytes, NUL padded, byte length / 4 + 1
    words. Enumeration, not a solver result: it validates that the ASCII-only harness does not hide a chars-vs-bytes confusion."""
    import itertools
    import kani
    names = kani.code_names()
    n = 0
    for k in range(0, maxc + 1):
        for combo in itertools.product((0x61, 0x81, 0x82, 0x83), repeat=k):
            raw = bytes([k] + list(combo) + [0] * (7 - k))
            real = rp.ask("scenario string_pack_utf8 %s" % raw.hex())
            n += 1
            code = real.get("code")
            if "panic" in real or (code is not None and code >= 100):
                what = ("panics: %s" % real["panic"]) if "panic" in real else names.get(code, str(code))
                ctx.ob("strings/utf8/%s" % raw.hex(), False, what)
                ctx.violation("assemble/string/multi-byte/%s" % (what.split(":")[0] if "panic" in real else what),
                              "assembling a string of %d characters with multi-byte UTF-8 encodings (selectors %s): %s" % (k, [hex(c) for c in combo], what),
                              {"cmd": "scenario string_pack_utf8 %s" % raw.hex(), "real": real})
                return
    ctx.ob("strings/utf8/%d-strings-of-up-to-%d-characters" % (n, maxc), True)


def m_extend_array(engine, st, fr, callee, args, ops):
    r = args[0]
    v = sym._deref_arg(engine, st, r)
    arr = args[1]
    engine.write_at(st, r.root, list(r.path), sym.Arr(v.items + tuple(arr.items), v.kind))
    return sym.UNIT


def operand_payload_types():
    """Operand variant -> payload type text, from `pub enum Operand { V(T), ... }`"""
    s = tables.src("rspirv/dr/autogen_operand.rs")
    t = s.toks
    out = {}
    for i in range(len(t) - 2):
        if t[i].v == "enum" and t[i + 1].v == "Operand" and t[i + 2].v == "{":
            from rtok import match_close, split_commas
            k = match_close(t, i + 2)
            for item in split_commas(t[i + 3:k]):
                iv = [x.v for x in item if x.v != "#"]
                # skip attributes
                j = 0
                while j < len(item) and item[j].v == "#":
                    j = match_close(item, j + 1) + 1
                iv = [x.v for x in item[j:]]
                if len(iv) >= 4 and iv[1] == "(":
                    ty = "".join(iv[2:-1])
                    out[iv[0]] = {"spirv::Word": "u32", "u32": "u32", "u64": "u64", "String": "String"}.get(ty, ty)
    return out


def native_roundtrip(ctx, S, rp, P):
    """For every value-enum kind: one instruction that carries the kind, every declared enumerant without parameters, assembled
    words -> load -> assemble gives the same words (native validation of the per-kind inverse)."""
    T = S.T
    kn, qn = T["kind_names"], T["quant_names"]
    le = c03.le
    done = 0
    for kind, d in sorted(S.enums.items()):
        if kind in ("Op", "GLOp", "CLOp", "DebugPrintFOp") or kind not in P or P[kind]["args_fn"]:
            continue
        # an opcode whose operands are ids / literals plus this kind exactly once, all required
        cand = None
        for e in T["core"]:
            ks = [(kn[k], qn[q_]) for k, q_ in e["operands"]]
            if sum(1 for k, _ in ks if k == kind) == 1 and all(q_ == "One" for _, q_ in ks) and \
                    all(k in (kind, "IdRef", "IdResult", "IdResultType", "IdScope", "IdMemorySemantics", "LiteralInteger") for k, _ in ks):
                cand = (e, ks)
                break
        if cand is None:
            continue
        e, ks = cand
        for vname, val in d["variants"]:
            words = [0]
            nid = 1
            for k, _ in ks:
                if k == kind:
                    words.append(val)
                else:
                    words.append(nid)
                    nid += 1
            words[0] = (len(words) << 16) | e["opcode"]
            sec_ok = True
            hexb = c03.HEADER + "".join(le(w) for w in words)
            real = rp.ask("parse_script %s C" % hexb)
            done += 1
            ev = [x for x in real.get("events", []) if x.startswith("instruction")]
            if real.get("result") != "Ok" or not ev or ("%s(%s)" % (P[kind]["operands"][0][0], vname)) not in ev[-1].replace(" ", "") and (vname not in ev[-1]):
                ctx.ob("native/%s::%s" % (kind, vname), False, str(real)[:200])
                ctx.violation("roundtrip/%s/%s" % (kind, vname), "Op%s carrying %s::%s (= %d) does not parse back to that enumerant: %s" % (e["opname"], kind, vname, val, str(real)[:300]),
                              {"cmd": "parse_script %s C" % hexb, "real": real})
    ctx.extra["native_enumerant_roundtrips"] = done
