"""C15 — module traversals visit exactly the assembled instruction sequence.

M2: the six traversal functions are executed symbolically from MIR with std iterator adaptors given their meaning as
*sequence terms* (slice::iter / Option::iter = the container's elements in order, chain = concatenation, flat_map =
concatenation of the closure's image, the closure being executed from its own MIR on a generic element). The four
`assemble_into` walkers are executed from MIR with `for` loops run on a generic element (IntoIterator/next by their std
contract) and `Instruction::assemble_into` logged. Both sides are then denoted as z3 sequences over free Seq variables,
one per container (Options as sequences of length <= 1), for a module with F functions of B blocks, and z3 decides equality.
R: exhaustive native comparison over present/absent optional parts and section sizes 0/1 validates the model."""
import re
import z3
import sym
import mir
import reg as regmod
from common import mir_path, Inconclusive, Replay
from smt import Q

LEVEL = "model_checking"


# ------------------------------------------------------------------ iterator terms
class T:
    def __init__(self, kind, *a):
        self.kind, self.a = kind, a

    def __repr__(self):
        return "%s(%s)" % (self.kind, ", ".join(map(str, self.a)))


def place_name(ref):
    out = [str(ref.root[1]) if isinstance(ref.root, tuple) else str(ref.root)]
    for st in ref.path:
        if st[0] == "field":
            out.append(("%s." % st[3] if len(st) > 3 and st[3] else "") + str(st[1]))
        elif st[0] == "box":
            pass
        else:
            out.append(str(st))
    return ".".join(out)


def into_term(engine, st, v, callee=""):
    if isinstance(v, T):
        return v
    if isinstance(v, sym.Ref):
        inner = sym._deref_arg(engine, st, v)
        if isinstance(inner, T):
            return inner
        ty = inner.ty if isinstance(inner, sym.Sym) else ""
        if "Option<" in ty:
            return T("opt", v)
        if "Vec<" in ty or ty.startswith("["):
            return T("vec", v)
        if isinstance(inner, sym.Adt) and inner.ty == "Slice":
            return T("vec", inner.fields[0])
        raise mir.Unsupported("into_iter of %r (%s)" % (inner, callee))
    if isinstance(v, sym.Adt) and v.ty == "Slice":
        return T("vec", v.fields[0])
    raise mir.Unsupported("into_iter of %r" % (v,))


def m_deref_vec(engine, st, fr, callee, args, ops):
    return sym.Adt("Slice", None, [args[0]])


def m_iter(engine, st, fr, callee, args, ops):
    return into_term(engine, st, args[0], callee)


def m_chain(engine, st, fr, callee, args, ops):
    return T("chain", into_term(engine, st, args[0]), into_term(engine, st, args[1], callee))


def m_flat_map(engine, st, fr, callee, args, ops):
    return T("flatmap", into_term(engine, st, args[0]), args[1])


def m_opt_iter(engine, st, fr, callee, args, ops):
    return T("opt", args[0])


def m_once(engine, st, fr, callee, args, ops):
    return T("one", args[0])


def m_inline_method(engine, st, fr, callee, args, ops):
    """`constructs::Type::method(..)` -> the MIR item named `method` whose self argument has type `Type`."""
    m = re.match(r"^(?:\w+::)*(\w+)::(\w+)$", callee)
    ty, meth = m.group(1), m.group(2)
    for mf in engine.mirs:
        c = [x for x in mf.find(meth) if "closure" not in x[0] and re.search(r"\(_1: &(mut )?(\w+::)*%s[,)]" % ty, mf.lines[x[2]])]
        if len(c) == 1:
            return sym.Inline(mf.parse_item(c[0][2]), args)
    raise mir.Unsupported("cannot resolve %s" % callee)


ITER_MODELS = [
    (r"^(\w+::)*(Module|Function)::(all_inst_iter|global_inst_iter)(_mut)?$", m_inline_method),
    (r"^<Vec<.*> as Deref(Mut)?>::deref(_mut)?$", m_deref_vec),
    (r"^core::slice::<impl \[.*\]>::iter(_mut)?$", m_iter),
    (r"as Iterator>::chain::<", m_chain),
    (r"as Iterator>::flat_map::<", m_flat_map),
    (r"^Option::<.*>::iter(_mut)?$", m_opt_iter),
    (r"^(std|core)::iter::once::<", m_once),
    (r"as IntoIterator>::into_iter$", m_iter),
]


# ------------------------------------------------------------------ denotation
def _call_mapper(engine, st, clo, fn, ccell, elem_ref):
    """the flat_map argument: a closure (its environment is the first argument) or a named method (`Function::all_inst_iter`)"""
    if isinstance(clo, sym.FnV) and "{closure" in clo.name:
        return engine.call_pure(st, fn, [sym.Ref(ccell, (), True), elem_ref])
    return engine.call_pure(st, fn, [elem_ref])


class Den:
    """Denotes terms as z3 sequences for a module with F functions x B blocks."""

    def __init__(self, engine, mf, F, B):
        self.engine, self.mf, self.F, self.B = engine, mf, F, B
        self.vars = {}
        self.elem_of = {}
        self.constraints = []
        self.S = z3.SeqSort(z3.IntSort())

    def seqvar(self, name, optional):
        if name not in self.vars:
            v = z3.Const("s:" + name, self.S)
            self.vars[name] = v
            if optional:
                self.constraints.append(z3.Length(v) <= 1)
        return self.vars[name]

    def elements_of(self, ref, ty):
        """Refs of the elements of a Vec place (generic: F functions / B blocks)."""
        n = self.F if "Function" in ty else self.B
        name = place_name(ref)
        return [("%s[%d]" % (name, i)) for i in range(n)]

    def term(self, t, st):
        k = t.kind
        if k == "chain":
            return z3.Concat(self.term(t.a[0], st), self.term(t.a[1], st))
        if k == "opt":
            return self.seqvar(place_name(t.a[0]), True)
        if k == "vec":
            ref = t.a[0]
            inner = sym._deref_arg(self.engine, st, ref)
            ty = inner.ty if isinstance(inner, sym.Sym) else "Vec<Instruction>"
            if "Instruction" in ty:
                return self.seqvar(place_name(ref), False)
            raise mir.Unsupported("sequence of %s outside flat_map" % ty)
        if k == "one":
            ref = t.a[0]
            nm = str(ref.root[1]) if isinstance(ref.root, tuple) else str(ref.root)
            if nm in self.elem_of and not ref.path:
                return self.elem_of[nm]
            raise mir.Unsupported("once(%r)" % (ref,))
        if k == "flatmap" and t.a[0].kind == "opt":
            base, clo = t.a
            ref = base.a[0]
            pv = self.seqvar(place_name(ref), True)
            en = place_name(ref) + "!elem"
            inner = sym._deref_arg(self.engine, st, ref)
            ety = sym.generic_args(inner.ty)[0] if isinstance(inner, sym.Sym) else "Instruction"
            cell = ("h", en)
            st.mem[cell] = sym.Sym(en, ety)
            self.elem_of[en] = pv
            ccell = ("h", "clo:" + en)
            st.mem[ccell] = clo
            fn = self.engine.resolve_fn(clo.name)
            res = _call_mapper(self.engine, st, clo, fn, ccell, sym.Ref(cell, ()))
            ok = [r for r in res if r.status == "return"]
            if len(res) != 1 or not ok:
                raise mir.Unsupported("flat_map closure has %d paths" % len(res))
            st2 = sym.State()
            st2.mem = ok[0].mem
            img = self.term(into_term(self.engine, st2, ok[0].value), st2)
            return z3.If(z3.Length(pv) == 0, z3.Empty(self.S), img)
        if k == "flatmap":
            base, clo = t.a
            if base.kind != "vec":
                raise mir.Unsupported("flat_map over %r" % (base,))
            ref = base.a[0]
            inner = sym._deref_arg(self.engine, st, ref)
            ety = sym.elem_type(inner.ty)
            parts = []
            fn = self.engine.resolve_fn(clo.name)
            for en in self.elements_of(ref, inner.ty):
                cell = ("h", en)
                st.mem[cell] = sym.Sym(en, ety)
                ccell = ("h", "clo:" + en)
                st.mem[ccell] = clo
                res = _call_mapper(self.engine, st, clo, fn, ccell, sym.Ref(cell, ()))
                ok = [r for r in res if r.status == "return"]
                if len(res) != 1 or not ok:
                    raise mir.Unsupported("flat_map closure has %d paths" % len(res))
                st2 = sym.State()
                st2.mem = ok[0].mem
                parts.append(self.term(into_term(self.engine, st2, ok[0].value), st2))
            return z3.Concat(*parts) if len(parts) > 1 else (parts[0] if parts else z3.Empty(self.S))
        raise mir.Unsupported("term %r" % (t,))


# ------------------------------------------------------------------ assembly side
def assemble_models(den):
    """Models for the walkers: `for` loops run once on each generic element; leaf emissions are logged."""
    eng = den.engine

    def m_into_iter(engine, st, fr, callee, args, ops):
        return sym.Adt("ForIter", None, [into_term(engine, st, args[0], callee), z3.IntVal(0)])

    def m_next(engine, st, fr, callee, args, ops):
        r = args[0]
        it = sym._deref_arg(engine, st, r)
        term, pos = it.fields
        pos = pos.as_long()
        if term.kind == "vec":
            inner = sym._deref_arg(engine, st, term.a[0])
            ty = inner.ty if isinstance(inner, sym.Sym) else ""
            if "Instruction" in ty:
                # a whole sequence of instructions: one generic element stands for all of them (the body must be uniform)
                if pos == 0:
                    engine.write_at(st, r.root, list(r.path), sym.Adt("ForIter", None, [term, z3.IntVal(1)]))
                    cell = ("h", "each:" + place_name(term.a[0]))
                    st.mem[cell] = sym.Sym("each:" + place_name(term.a[0]), "Instruction")
                    st.events.append(("each_begin", term))
                    return sym.Adt("Option", "Some", [sym.Ref(cell, ())])
                st.events.append(("each_end", term))
                return sym.Adt("Option", "None", [])
            names = den.elements_of(term.a[0], ty)
            if pos < len(names):
                engine.write_at(st, r.root, list(r.path), sym.Adt("ForIter", None, [term, z3.IntVal(pos + 1)]))
                cell = ("h", names[pos])
                st.mem[cell] = sym.Sym(names[pos], sym.elem_type(ty))
                return sym.Adt("Option", "Some", [sym.Ref(cell, ())])
            return sym.Adt("Option", "None", [])
        # a composite iterator of instructions (e.g. global_inst_iter()): uniform body on a generic element
        if pos == 0:
            engine.write_at(st, r.root, list(r.path), sym.Adt("ForIter", None, [term, z3.IntVal(1)]))
            cell = ("h", "each:%d" % len(st.events))
            st.mem[cell] = sym.Sym("each", "Instruction")
            st.events.append(("each_begin", term))
            return sym.Adt("Option", "Some", [sym.Ref(cell, ())])
        st.events.append(("each_end", term))
        return sym.Adt("Option", "None", [])

    def m_emit(engine, st, fr, callee, args, ops):
        st.events.append(("emit", args[0]))
        return sym.UNIT

    def m_emit_header(engine, st, fr, callee, args, ops):
        st.events.append(("emit_header", args[0]))
        return sym.UNIT

    def m_sub(engine, st, fr, callee, args, ops):
        m = re.match(r"^<(?:dr::)?(?:constructs::)?(\w+) as Assemble>::assemble_into$", callee)
        ty = m.group(1)
        c = [x for x in den.mf.find("assemble_into") if re.search(r"\(_1: &(\w+::)*%s," % ty, den.mf.lines[x[2]])]
        if len(c) != 1:
            raise mir.Unsupported("assemble_into for %s: %d candidates" % (ty, len(c)))
        return sym.Inline(den.mf.parse_item(c[0][2]), args)

    return [
        (r"^<(dr::)?(constructs::)?Instruction as Assemble>::assemble_into$", m_emit),
        (r"^<(dr::)?(constructs::)?ModuleHeader as Assemble>::assemble_into$", m_emit_header),
        (r"^<(dr::)?(constructs::)?(Function|Block|Module) as Assemble>::assemble_into$", m_sub),
        (r"as IntoIterator>::into_iter$", m_into_iter),
        (r"as Iterator>::next$", m_next),
    ]


def emitted_sequence(den, r, st_mem):
    """Sequence of instructions emitted on path r (all Options present, every loop run on its generic element)."""
    parts = []
    st = sym.State()
    st.mem = st_mem
    depth_each = None
    for e in r.events:
        if e[0] == "each_begin":
            depth_each = e[1]
            seen_emit = 0
        elif e[0] == "each_end":
            depth_each = None
        elif e[0] == "emit":
            ref = e[1]
            if depth_each is not None:
                # the loop body emitted its generic element once: the whole sequence is emitted in order
                parts.append(den.term(depth_each, st))
            else:
                # an `if let Some(ref x)` emission: the Option place as a sequence of length <= 1
                path = ref.path
                if not (path and path[-1][0] == "field" and len(path[-1]) > 3 and path[-1][3] == "Some"):
                    raise mir.Unsupported("emission of %r outside a loop is not an Option payload" % (ref,))
                parts.append(den.seqvar(place_name(sym.Ref(ref.root, path[:-1])), True))
    return z3.Concat(*parts) if len(parts) > 1 else (parts[0] if parts else z3.Empty(den.S))


def maximal_path(res):
    oks = [r for r in res if r.status == "return"]
    if not oks:
        raise Inconclusive("no returning path: %s" % res[:3])
    return max(oks, key=lambda r: len(r.events))


def run(ctx):
    q = Q(ctx, cross_every=3)
    registry = regmod.build_registry()
    mf = mir.MirFile(mir_path("rspirv"))
    F, B = (2, 2)
    ctx.bounds.append("modules with %d functions of %d blocks; section / parameter / block contents are free sequences of any length; optional parts free" % (F, B))
    ctx.trusted += ["std contracts: slice::iter / Option::iter enumerate in order, chain = concatenation, flat_map = concatenation of images, "
                    "`for` = IntoIterator::into_iter + next until None (loop bodies are checked on one generic element and are index-independent)",
                    "rustc MIR", "mirsym", "z3 sequence theory (cvc5 sample)"]

    def fresh_engine(models):
        return sym.Engine([mf], registry, models=models, eager=True, loop_bound=4)

    rp = Replay()
    real = rp.ask("traversal_sweep")
    rp.close()
    ctx.validated += real.get("modules", 0)
    real_bad = real.get("mismatch")
    if real_bad:
        ctx.ob("native-sweep", False, real_bad)
        ctx.violation("traversal/native-sweep", "on the compiled crate: %s" % real_bad, {"cmd": "traversal_sweep", "real": real})
    else:
        ctx.ob("native-sweep/%d-modules" % real.get("modules", 0), True if real.get("modules") else None, str(real))
    try:
        symbolic_part(ctx, q, registry, mf, F, B, fresh_engine, real, real_bad)
    except mir.Unsupported as ex:
        ctx.ob("traversals-encodable", None, "the traversal / assembly code cannot be encoded: %s" % ex)
    ctx.extra["cvc5"] = q.summary()
    ctx.extra["explanation"] = "Traversals and assembly walkers become z3 sequence expressions over one free Seq variable per container; equalities decided by z3."


def symbolic_part(ctx, q, registry, mf, F, B, fresh_engine, real, real_bad):
    module = sym.Sym("module", "Module")
    mem = {("h", "module"): module}
    mref = sym.Ref(("h", "module"), ())
    eng = fresh_engine(ITER_MODELS)
    den = Den(eng, mf, F, B)
    seqs = {}
    # ---- the six traversal functions
    impl_mod = "constructs.rs:106"
    for name in ("global_inst_iter", "global_inst_iter_mut", "all_inst_iter", "all_inst_iter_mut"):
        c = [x for x in mf.find(name) if "closure" not in x[0] and re.search(r"\(_1: &(mut )?(\w+::)*Module\)", mf.lines[x[2]])]
        if len(c) != 1:
            raise Inconclusive("%s: %d MIR candidates" % (name, len(c)))
        fn = mf.parse_item(c[0][2])
        res = eng.run(fn, [mref], mem=dict(mem))
        if len(res) != 1 or res[0].status != "return":
            raise Inconclusive("%s: %s" % (name, res[:2]))
        st = sym.State()
        st.mem = res[0].mem
        seqs["Module::" + name] = den.term(into_term(eng, st, res[0].value), st)
        ctx.functions.add("dr::Module::" + name)
    fseqs = {}
    for name in ("all_inst_iter", "all_inst_iter_mut"):
        c = [x for x in mf.find(name) if "closure" not in x[0] and re.search(r"\(_1: &(mut )?(\w+::)*Function\)", mf.lines[x[2]])]
        if len(c) != 1:
            raise Inconclusive("Function::%s: %d MIR candidates" % (name, len(c)))
        fn = mf.parse_item(c[0][2])
        for i in range(F):
            en = "module.12[%d]" % i
            m2 = dict(mem)
            m2[("h", en)] = sym.Sym(en, "Function")
            res = eng.run(fn, [sym.Ref(("h", en), ())], mem=m2)
            if len(res) != 1 or res[0].status != "return":
                raise Inconclusive("Function::%s: %s" % (name, res[:2]))
            st = sym.State()
            st.mem = res[0].mem
            fseqs[(name, i)] = den.term(into_term(eng, st, res[0].value), st)
        ctx.functions.add("dr::Function::" + name)
    # ---- the assembler
    eng2 = fresh_engine(assemble_models(den) + ITER_MODELS)
    den2 = den
    den2.engine = eng2
    c = [x for x in mf.find("assemble_into") if re.search(r"\(_1: &(\w+::)*Module,", mf.lines[x[2]])]
    if len(c) != 1:
        raise Inconclusive("Module::assemble_into: %d candidates" % len(c))
    fn = mf.parse_item(c[0][2])
    mem_r = dict(mem)
    mem_r[("h", "result")] = sym.Sym("result", "Vec<u32>")
    res = eng2.run(fn, [mref, sym.Ref(("h", "result"), (), True)], mem=mem_r)
    ctx.functions.update(eng2.stats.functions)
    r = maximal_path(res)
    hdr = [e for e in r.events if e[0] == "emit_header"]
    first = r.events[0] if r.events else None
    ctx.ob("assemble/header-first", True if (len(hdr) == 1 and first and first[0] == "emit_header") else False,
           "header emissions: %d, first event %s" % (len(hdr), first and first[0]))
    if not (len(hdr) == 1 and first and first[0] == "emit_header"):
        rp_ = Replay()
        real_ = rp_.ask("load_disassemble %s" % ("03022307" "00000100" "00000000" "4d000000" "00000000" "00000100"))
        rp_.close()
        ws_ = real_.get("words", [])
        if "panic" in real_ or (real_.get("loaded") and not (len(ws_) == 6 and ws_[0] == 0x07230203 and ws_[3] == 77 and ws_[5] == 1 << 16)):
            ctx.violation("assemble/header-not-first", "Module::assemble_into does not emit the header words first: header (bound 77) + OpNop assembles to %s" % ws_,
                          {"cmd": "load_disassemble", "real": real_})
        else:
            ctx.inconclusive.append(("assemble/header-first", "model-only: the compiled crate assembles %s" % ws_))
    asm = emitted_sequence(den2, r, r.mem)
    # per-function assembly
    fc = [x for x in mf.find("assemble_into") if re.search(r"\(_1: &(\w+::)*Function,", mf.lines[x[2]])]
    ffn = mf.parse_item(fc[0][2])
    fasm = {}
    for i in range(F):
        en = "module.12[%d]" % i
        m2 = dict(mem)
        m2[("h", en)] = sym.Sym(en, "Function")
        m2[("h", "result")] = sym.Sym("result", "Vec<u32>")
        rr = maximal_path(eng2.run(ffn, [sym.Ref(("h", en), ()), sym.Ref(("h", "result"), (), True)], mem=m2))
        fasm[i] = emitted_sequence(den2, rr, rr.mem)
    # ---- queries
    allf = z3.Concat(*[fseqs[("all_inst_iter", i)] for i in range(F)]) if F > 1 else fseqs[("all_inst_iter", 0)]
    obligations = [
        ("all = assembled sequence", seqs["Module::all_inst_iter"], asm),
        ("all_mut = all", seqs["Module::all_inst_iter_mut"], seqs["Module::all_inst_iter"]),
        ("global_mut = global", seqs["Module::global_inst_iter_mut"], seqs["Module::global_inst_iter"]),
        ("all = global ++ per-function slices", seqs["Module::all_inst_iter"], z3.Concat(seqs["Module::global_inst_iter"], allf)),
    ]
    # the assembled sequence is the logical layout (spec 2.4): the global sections in the specification's order, then the functions
    import c05
    import os as _os
    import sys as _sys
    _sys.path.insert(0, _os.path.join(_os.path.dirname(_os.path.dirname(_os.path.abspath(__file__))), "reference"))
    import spec
    mfields = c05.struct_fields("rspirv/dr/constructs.rs", "Module")
    lay = []
    for sec in spec.MODULE_SECTIONS:
        if sec not in mfields:
            raise Inconclusive("dr::Module has no field %s" % sec)
        nm = "module.%d" % mfields.index(sec)
        if nm not in den.vars:
            raise Inconclusive("section %s (%s) is not visited by any traversal" % (sec, nm))
        lay.append(den.vars[nm])
    obligations.append(("assembled sequence = sections in logical layout order ++ functions", asm, z3.Concat(*(lay + [fasm[i] for i in range(F)]))))
    for i in range(F):
        obligations.append(("function[%d] traversal = its assembly" % i, fseqs[("all_inst_iter", i)], fasm[i]))
        obligations.append(("function[%d] mut = read-only" % i, fseqs[("all_inst_iter_mut", i)], fseqs[("all_inst_iter", i)]))
    for name, a, b in obligations:
        stt, m = q.check(den.constraints + [a != b], "seq-eq")
        if stt == "unsat":
            ctx.ob(name, True)
        elif stt == "sat":
            nonempty = sorted(str(d)[2:] for d in m.decls() if str(d).startswith("s:") and m[d] is not None and len(str(m[d])) and "Empty" not in str(m[d]) and str(m[d]) != '""' and m.eval(z3.Length(d()), model_completion=True).as_long() > 0)
            if real_bad:
                ctx.ob(name, False, "differs when these parts are non-empty: %s" % nonempty)
                ctx.violation("traversal/%s" % re.sub(r"[^a-z_\[\]0-9]+", "-", name.lower()),
                              "%s fails: the two sequences differ for a module whose non-empty parts are %s; native sweep: %s" % (name, nonempty, real_bad),
                              {"cmd": "traversal_sweep", "real": real})
            else:
                ctx.ob(name, None, "solver model (non-empty parts %s) not confirmed by the native sweep" % nonempty)
        else:
            ctx.ob(name, None, m)
    ctx.extra["states"] = len(den.vars)
    ctx.extra["transitions"] = len(obligations)
