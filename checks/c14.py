"""C14 — the parser drives the consumer in protocol order and obeys its actions.

M2: `Parser::parse` is executed symbolically from its MIR. The four consumer callbacks are replaced by models that log
the call and fork over the three possible answers (Continue, Stop, Error(e) with e an opaque box); `parse_header` and
`parse_inst` are replaced by models that log the call and fork over Ok(opaque) / Err(Complete) / Err(other state);
`Action::consume` is inlined from its own MIR; `TypeTracker::track` is logged. The loop is unrolled to K instructions.
Every resulting path (all answer combinations, all callee outcomes) is checked against the protocol automaton."""
import re
import z3
import sym
import mir
import reg as regmod
from common import mir_path, Inconclusive, Replay

LEVEL = "model_checking"


def mk_models(log_prefix=""):
    def consumer_cb(kind):
        def h(engine, st, fr, callee, args, ops):
            n = sum(1 for e in st.events if e[0] == "cb")
            payload = args[1] if len(args) > 1 else None
            st.events.append(("cb", kind, payload))
            box = sym.Sym("consumer_err%d" % n, "Box<dyn Error>")
            st.events.append(("answer_box", n, box))
            alts = [(True, sym.Adt("parser::Action", "Continue", []), ("answer", "C")),
                    (True, sym.Adt("parser::Action", "Stop", []), ("answer", "S")),
                    (True, sym.Adt("parser::Action", "Error", [box]), ("answer", "E"))]
            return sym.Fork(alts)
        return h

    def parse_header(engine, st, fr, callee, args, ops):
        st.events.append(("parse_header",))
        return sym.Fork([(True, sym.Adt("Result", "Ok", [sym.Sym("header", "ModuleHeader")]), ("outcome", "header-ok")),
                         (True, sym.Adt("Result", "Err", [sym.Sym("header_err", "binary::parser::State")]), ("outcome", "header-err"))])

    def parse_inst(engine, st, fr, callee, args, ops):
        n = sum(1 for e in st.events if e[0] == "parse_inst")
        st.events.append(("parse_inst", n))
        err = sym.Sym("inst_err%d" % n, "binary::parser::State")
        d = engine.discriminant(err, err.ty, "isize")
        e = engine.reg.lookup("parser::State")
        complete = e["by_name"]["Complete"]
        nvar = len(e["variants"])
        return sym.Fork([
            (True, sym.Adt("Result", "Ok", [sym.Sym("inst%d" % n, "dr::constructs::Instruction")]), ("outcome", "inst-ok")),
            (True, sym.Adt("Result", "Err", [sym.Adt("binary::parser::State", "Complete", [])]), ("outcome", "inst-complete")),
            (z3.And(d != complete, d >= 0, d < nvar), sym.Adt("Result", "Err", [err]), ("outcome", "inst-err")),
        ])

    def track(engine, st, fr, callee, args, ops):
        v = sym._deref_arg(engine, st, args[1])
        st.events.append(("track", v))
        return sym.UNIT

    def downcast(engine, st, fr, callee, args, ops):
        """`Box<dyn Error>::downcast::<T>()`: the consumer's error value is opaque, so it may or may not be a T"""
        ty = re.search(r"downcast::<(.*)>$", callee).group(1)
        st.events.append(("downcast", ty))
        inner = sym.Sym(engine.fresh_name("downcast_value"), "binary::parser::State" if ty.split("::")[-1] == "State" else ty)
        return sym.Fork([(True, sym.Adt("Result", "Ok", [sym.BoxV(inner)]), ("downcast-ok", ty)), (True, sym.Adt("Result", "Err", [args[0]]), ("downcast-err", ty))])

    return [
        (r"::downcast::<.*>$", downcast),
        (r"^<dyn Consumer as Consumer>::initialize$", consumer_cb("initialize")),
        (r"^<dyn Consumer as Consumer>::consume_header$", consumer_cb("header")),
        (r"^<dyn Consumer as Consumer>::consume_instruction$", consumer_cb("instruction")),
        (r"^<dyn Consumer as Consumer>::finalize$", consumer_cb("finalize")),
        (r"^Parser::<'_, '_>::parse_header$", parse_header),
        (r"^Parser::<'_, '_>::parse_inst$", parse_inst),
        (r"^TypeTracker::track$", track),
    ]


def describe(events):
    out = []
    for e in events:
        if e[0] == "cb":
            out.append(e[1])
        elif e[0] in ("parse_header", "parse_inst", "track"):
            out.append(e[0])
    return out


def check_path(r, K):
    """Return None if the path obeys the protocol, else a description. The event log holds, in order, every callback with the
    answer the consumer gave, every parse_header / parse_inst call with its outcome, and every track call."""
    if r.status == "loop_bound":
        return None
    if r.status != "return":
        return "path ends in %s: %s" % (r.status, r.info)
    res = r.value
    boxes = {e[1]: e[2] for e in r.events if e[0] == "answer_box"}
    ev = [e for e in r.events if e[0] in ("cb", "answer", "parse_header", "parse_inst", "outcome", "track")]
    pos = 0
    ncb = 0

    def take(kind, sub=None):
        nonlocal pos
        if pos < len(ev) and ev[pos][0] == kind and (sub is None or ev[pos][1] == sub):
            pos += 1
            return ev[pos - 1]
        return None

    def nxt():
        return ("%s %s" % (ev[pos][0], ev[pos][1] if len(ev[pos]) > 1 else "")) if pos < len(ev) else "end"

    def callback(kind):
        """-> (error text | None, answer)"""
        nonlocal ncb
        if not take("cb", kind):
            return "expected the %s callback, got %s" % (kind, nxt()), None
        a = take("answer")
        if a is None:
            return "callback %s without an answer in the log" % kind, None
        ncb += 1
        return None, a[1]

    def ended_by_consumer(a):
        if pos != len(ev):
            return "the consumer answered %s to callback #%d but the parse went on with %s" % ({"S": "stop", "E": "error"}[a], ncb - 1, nxt())
        if not (isinstance(res, sym.Adt) and res.variant == "Err"):
            return "the consumer answered %s but the result is %r" % ({"S": "stop", "E": "error"}[a], res)
        s_ = res.fields[0]
        if a == "S":
            return None if isinstance(s_, sym.Adt) and s_.variant == "ConsumerStopRequested" else "stop answered but the result is Err(%r)" % (s_,)
        if isinstance(s_, sym.Adt) and s_.variant == "ConsumerError":
            b = s_.fields[0]
            return None if isinstance(b, sym.Sym) and b.name == "consumer_err%d" % (ncb - 1) else "ConsumerError carries %r, not the error answered by callback #%d" % (b, ncb - 1)
        return "error answered but the result is Err(%r)" % (s_,)
    err, a = callback("initialize")
    if err:
        return err
    if a != "C":
        return ended_by_consumer(a)
    if not take("parse_header"):
        return "after initialize comes %s" % nxt()
    o = take("outcome")
    if o is None:
        return "parse_header without an outcome"
    if o[1] == "header-err":
        if pos != len(ev):
            return "parse_header failed but the parse went on with %s" % nxt()
        return None if is_err_of(res, "header_err") else "parse_header failed but result is %r" % (res,)
    err, a = callback("header")
    if err:
        return err
    if a != "C":
        return ended_by_consumer(a)
    ninst = 0
    while True:
        if not take("parse_inst"):
            return "expected parse_inst, got %s" % nxt()
        o = take("outcome")
        if o is None:
            return "parse_inst without an outcome"
        if o[1] == "inst-err":
            if pos != len(ev):
                return "parse error #%d but the parse went on with %s" % (ninst, nxt())
            return None if is_err_of(res, "inst_err%d" % ninst) else "parse error #%d but result is %r" % (ninst, res)
        if o[1] == "inst-complete":
            err, a = callback("finalize")
            if err:
                return err
            if pos != len(ev):
                return "events after finalize: %s" % nxt()
            if a != "C":
                return ended_by_consumer(a)
            return None if isinstance(res, sym.Adt) and res.variant == "Ok" else "the whole binary was parsed and finalize answered continue, but the result is %r" % (res,)
        tr = take("track")
        if tr is None:
            return "after a parsed instruction comes %s (expected track)" % nxt()
        if not (isinstance(tr[1], sym.Sym) and tr[1].name == "inst%d" % ninst):
            return "tracked instruction #%d is %r" % (ninst, tr[1])
        if pos < len(ev) and ev[pos][0] == "cb" and ev[pos][1] == "instruction":
            cbv = ev[pos][2]
            if not (isinstance(cbv, sym.Sym) and cbv.name == "inst%d" % ninst):
                return "delivered instruction #%d is %r" % (ninst, cbv)
        err, a = callback("instruction")
        if err:
            return err
        if a != "C":
            return ended_by_consumer(a)
        ninst += 1


def is_err_of(res, name):
    return isinstance(res, sym.Adt) and res.variant == "Err" and isinstance(res.fields[0], sym.Sym) and res.fields[0].name == name


def result_is_consumer_stop_or_error(res, boxes, ncb_index):
    """The run ended right after consumer callback number ncb_index (0-based): result must be stop-requested or the
    consumer's own error."""
    if not (isinstance(res, sym.Adt) and res.variant == "Err"):
        return "consumer ended the parse but the result is %r" % (res,)
    s = res.fields[0]
    if isinstance(s, sym.Adt) and s.variant == "ConsumerStopRequested":
        return None
    if isinstance(s, sym.Adt) and s.variant == "ConsumerError":
        b = s.fields[0]
        if isinstance(b, sym.Sym) and b.name == "consumer_err%d" % ncb_index:
            return None
        return "ConsumerError carries %r, not the error answered by callback #%d" % (b, ncb_index)
    return "consumer ended the parse but the result is Err(%r)" % (s,)


def run(ctx):
    K = 3 if ctx.tier == "quick" else 5
    registry = regmod.build_registry()
    mf = mir.MirFile(mir_path("rspirv"))
    fn = mf.get("parse", file_hint="parser.rs", kind="fn")
    eng = sym.Engine([mf], registry, models=mk_models(), inline=[r"^Action::consume$", r"^Decoder::<'_>::(offset|has_limit|limit_reached)$"], eager=True, loop_bound=K + 1,
                     hints={"consume": "parser.rs"})
    parser = sym.Sym("parser", "Parser")
    res = eng.run(fn, [parser])
    ctx.functions.update(eng.stats.functions)
    ctx.bounds.append("parse loop unrolled to %d instructions; all 3^(callbacks) consumer answers and all parse_header / parse_inst outcomes" % K)
    ctx.assumptions += ["callee summaries: consumer callbacks = arbitrary answer; parse_header / parse_inst = arbitrary Ok / Err(Complete) / Err(other); "
                        "TypeTracker::track = no control effect (all three are decided by other checks); Try::branch / from_residual by their std definition",
                        "the loop body does not depend on the iteration index, so %d unrollings exhibit every transition of the loop's control automaton (stated, not proved)" % K]
    ctx.trusted += ["rustc MIR", "mirsym", "z3 (path feasibility)"]
    rp = Replay()
    complete = 0
    truncated = 0
    answers_seen = set()
    for r in res:
        ctx.queries += 1
        if r.status == "loop_bound":
            truncated += 1
            continue
        complete += 1
        bad = check_path(r, K)
        name = "protocol/" + ">".join(describe(r.events))[:150]
        if bad:
            real, why = replay_path(rp, r)
            if why is None:
                ctx.ob(name, None, "does not reproduce on the compiled crate: %s / %s" % (bad, real))
            else:
                ctx.ob(name, False, bad)
                ctx.violation("parse/protocol/%s" % classify(why), "callback sequence %s -> result %r: %s; on the compiled crate: %s (%s)" % (
                    describe(r.events), r.value, bad, why, real), {"cmd": real.get("cmd"), "real": real})
        else:
            ctx.ob(name, True, "result %r" % (r.value,))
    # vacuity: the complete paths must include a full run with finalize and K-1 instructions
    full = [r for r in res if r.status == "return" and describe(r.events).count("instruction") >= K - 1 and "finalize" in describe(r.events)]
    ctx.ob("reach/full-run-with-%d-instructions" % (K - 1), True if full else None, "no path reaches finalize" if not full else None)
    # translation validation: every explored path is also replayed on the compiled crate against the reference protocol
    for r in res:
        if r.status == "return":
            real, why = replay_path(rp, r)
            ctx.validated += 1
            if why is not None and check_path(r, K) is None:
                # the path is conforming in the model only because parse_header / parse_inst are summarised; the binary built for
                # it makes the real parser break the protocol: a concrete input against the real code
                ctx.ob("replay/" + ">".join(describe(r.events))[:120], False, "compiled crate deviates from the protocol: %s" % why)
                ctx.violation("parse/protocol/native/%s" % classify(why), "binary + consumer script built for the path %s: the real parser deviates from the protocol: %s (%s)" % (
                    describe(r.events), why, str(real)[:300]), {"cmd": real.get("cmd"), "real": real})
                break
    wrappers(ctx, mf, registry, rp)
    rp.close()
    ctx.extra["states"] = complete
    ctx.extra["transitions"] = eng.stats.paths
    ctx.extra["paths_truncated_by_loop_bound"] = truncated
    ctx.solver_time += eng.stats.solver_time
    ctx.queries += eng.stats.solver_calls
    ctx.extra["explanation"] = ("All paths of Parser::parse (MIR) under arbitrary consumer answers and callee outcomes, loop unrolled to %d: "
                                "each path's event log and result are checked against the protocol." % K)


def wrappers(ctx, mf, registry, rp):
    """`parse_bytes` / `parse_words` (what `load_bytes` / `load_words` and every user call): executed from their generic MIR with
    `Parser::new` and `Parser::parse` as logged events. On every path there is exactly one parser, built over the caller's bytes
    and consumer, exactly one `parse`, and its result is what the wrapper returns — so the protocol decided above for
    `Parser::parse` is the protocol of the public entry points. A deviation is confirmed differentially on the compiled crate
    (wrapper vs `Parser::new(..).parse()` with the same scripted consumer) over C20's corpus."""
    for wname in ("parse_bytes", "parse_words"):
        c = [x for x in mf.find(wname) if "closure" not in x[0] and x[1] == "fn"]
        if len(c) != 1:
            ctx.ob("wrapper/%s/encodable" % wname, None, "%d candidates" % len(c))
            continue
        fn = mf.parse_item(c[0][2])

        def m_new(engine, st, fr, callee, args, ops):
            st.events.append(("new", args[0], args[1]))
            return sym.Sym(engine.fresh_name("parser"), "Parser")

        def m_parse(engine, st, fr, callee, args, ops):
            k = sum(1 for e in st.events if e[0] == "parse")
            st.events.append(("parse", k))
            err = sym.Sym("parse_err%d" % k, "binary::parser::State")
            return sym.Fork([(True, sym.Adt("Result", "Ok", [sym.UNIT]), ("parse-outcome", "ok")), (True, sym.Adt("Result", "Err", [err]), ("parse-outcome", "err"))])
        opaque = lambda nm: (lambda engine, st, fr, callee, args, ops: sym.Sym(engine.fresh_name(nm), nm))
        models = [(r"^Parser::<'_, '_>::new$", m_new), (r"^Parser::<'_, '_>::parse$", m_parse),
                  (r" as AsRef<\[u(8|32)\]>>::as_ref$", lambda e, s_, f, c_, a, o: sym.Sym(
                      "input_slice_of_the_first_argument" if (isinstance(a[0], sym.Ref) and a[0].root[1] == "_1" and not a[0].path) else e.fresh_name("slice_of_something_else"), "&[u8]")),
                  (r"^core::slice::<impl \[u32\]>::as_ptr$", lambda e, s_, f, c_, a, o: sym.Adt("PtrOf", None, [a[0]])),
                  (r"^core::slice::<impl \[u(8|32)\]>::len$", lambda e, s_, f, c_, a, o: z3.BitVec("input_len", 64)),
                  (r"^(std|core)::slice::from_raw_parts::<", lambda e, s_, f, c_, a, o: sym.Adt("RawParts", None, [a[0], a[1]])),
                  (r"^(std|core)::ptr::drop_in_place::<|^drop::<", lambda e, s_, f, c_, a, o: sym.UNIT)]
        eng = sym.Engine([mf], registry, models=models + mk_models(), eager=True, loop_bound=4)
        try:
            res = eng.run(fn, [sym.Sym("binary", "T"), sym.Sym("consumer", "&mut dyn Consumer")], pc=[z3.ULE(z3.BitVec("input_len", 64), 1 << 40)])
        except mir.Unsupported as ex:
            # no verdict from the solver; the differential run below can still exhibit a concrete input against the real code
            # (finding none proves nothing: the leg stays inconclusive)
            res = None
            bad = "the wrapper cannot be encoded (%s)" % str(ex)[:200]
        bad = None if res is not None else bad
        for r in (res or []):
            if r.status != "return":
                if r.status == "panic" and "overflow" in str(r.info) and wname == "parse_words":
                    continue        # len * 4 of a slice that exists cannot overflow (a [u32] of that many elements does not fit the address space)
                bad = "a path ends in %s %s" % (r.status, r.info)
                break
            news = [e for e in r.events if e[0] == "new"]
            parses = [e for e in r.events if e[0] == "parse"]
            if len(news) != 1 or len(parses) != 1:
                bad = "%d parsers are built and %d parses run on one path" % (len(news), len(parses))
                break
            src = repr(news[0][1])
            over_input = "input_slice_of_the_first_argument" in src and "slice_of_something_else" not in src
            if over_input and isinstance(news[0][1], sym.Adt) and news[0][1].ty == "RawParts":
                ln = news[0][1].fields[1]
                over_input = z3.is_expr(ln) and any(z3.is_true(z3.simplify(ln == 4 * z3.BitVec(nm_, 64))) for nm_ in ("input_len", "input_slice_of_the_first_argument#len"))
            if not over_input:
                bad = "the parser is built over %s, not over the caller's input" % src[:120]
                break
            v = r.value
            out = [e for e in r.events if e[0] == "parse-outcome"][-1][1]
            okv = isinstance(v, sym.Adt) and ((out == "ok" and v.variant == "Ok") or (out == "err" and v.variant == "Err" and isinstance(v.fields[0], sym.Sym) and v.fields[0].name == "parse_err0"))
            if not okv:
                bad = "the wrapper returns %r after a parse that ended %s" % (v, out)
                break
        tag = "wrapper/%s/one-parser-one-parse-same-result" % wname
        if bad is None:
            ctx.ob(tag, True, "%d paths" % len(res))
            continue
        # differential confirmation over the corpus
        import c20
        import c03
        le = c03.le
        mod = bytes.fromhex(HEADER + NOP + NOP)
        extra = [mod + b"\0\0\0\0", mod + b"\0" * 8, b"".join(mod[i:i + 4][::-1] for i in range(0, len(mod), 4)), mod]
        found = None
        for data in extra + list(c20.corpus("quick")):
            real = rp.ask("wrappers_vs_parser %s" % data.hex())
            if "panic" in real or real.get("direct") != real.get("parse_bytes") or (real.get("parse_words") is not None and real.get("parse_words") != real.get("direct")):
                found = (data, real)
                break
        if found:
            ctx.ob(tag, False, bad)
            ctx.violation("parse/wrapper/%s" % wname, "%s: %s; on the compiled crate, for the %d-byte input %s... the wrapper and Parser::new(..).parse() differ: %s" % (
                wname, bad, len(found[0]), found[0][:24].hex(), str(found[1])[:400]), {"cmd": "wrappers_vs_parser %s" % found[0].hex(), "real": found[1]})
        else:
            ctx.ob(tag, None, "model-only deviation (%s); wrapper and parser agree on the whole corpus" % bad)


HEADER = "03022307" + "00000100" + "00000000" + "07000000" + "00000000"
NOP = "00000100"
BAD = "ffff0100"


def replay_path(rp, r):
    """Build a binary and an answer script realising the path's outcomes, run the real parser with a scripted consumer,
    and compare the real callback trace with the reference protocol. Returns (real answer, deviation or None)."""
    answers = "".join(e[1] for e in r.events if e[0] == "answer")
    outcomes = [e[1] for e in r.events if e[0] == "outcome"]
    hexb = ""
    if "header-err" in outcomes:
        hexb = HEADER[:24]
    else:
        hexb = HEADER
        for o in outcomes:
            if o == "inst-ok":
                hexb += NOP
            elif o == "inst-err":
                hexb += BAD
    if any(e[0] == "downcast-ok" for e in r.events):
        # the path depends on WHAT the consumer's error value is (a downcast of it succeeded): the scripted consumer answers the
        # error with a boxed parser state ('P') instead of its own error type
        answers = answers.replace("E", "P")
    cmd = "parse_script %s %s" % (hexb, answers or "C")
    real = rp.ask(cmd)
    real["cmd"] = cmd
    # reference protocol
    exp = []
    result = None
    ai = 0

    def ans():
        nonlocal ai
        a = answers[ai] if ai < len(answers) else "C"
        ai += 1
        return a
    exp.append("initialize")
    a = ans()
    if a != "C":
        result = a
    else:
        if "header-err" in outcomes:
            result = "HeaderIncomplete"
        else:
            exp.append("header")
            a = ans()
            if a != "C":
                result = a
            else:
                insts = [o for o in outcomes if o.startswith("inst-")]
                done = False
                for o in insts:
                    if o == "inst-ok":
                        exp.append("instruction")
                        a = ans()
                        if a != "C":
                            result = a
                            done = True
                            break
                    elif o == "inst-err":
                        result = "OpcodeUnknown"
                        done = True
                        break
                    else:
                        break
                if not done:
                    exp.append("finalize")
                    a = ans()
                    result = "Ok" if a == "C" else a
    got = [e.split(" ")[0] for e in real.get("events", [])]
    res = real.get("result", "")
    if result == "P":
        # whatever the consumer boxes comes back inside ConsumerError — also when it is itself a parser state
        if got != exp:
            return real, "callbacks %s, protocol demands %s" % (got, exp)
        if not str(res).startswith("ConsumerError(ConsumerStopRequested"):
            return real, "the consumer answered Error(Box<ParseState::ConsumerStopRequested>) to callback #%d; result %s, protocol demands ConsumerError carrying that value" % (ai - 1, res)
        return real, None
    want = {"S": "ConsumerStopRequested", "E": "ConsumerError", "Ok": "Ok"}.get(result, result)
    if got != exp:
        return real, "callbacks %s, protocol demands %s" % (got, exp)
    if not str(res).startswith(want):
        return real, "result %s, protocol demands %s" % (res, want)
    if want == "ConsumerError" and ("ScriptError(%d)" % (ai - 1)) not in str(res):
        return real, "result %s does not carry the error answered by callback #%d" % (res, ai - 1)
    if want == "ConsumerError" and real.get("own_error") != ai - 1:
        return real, "ConsumerError does not carry the consumer's own error value (downcast to the consumer's error type gives %r, callback #%d answered it)" % (real.get("own_error"), ai - 1)
    return real, None


def classify(bad):
    import re
    return re.sub(r"[^a-z]+", "-", bad.lower())[:60]
