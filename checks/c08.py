"""C08 — spirv enums and bit-masks map numbers and names exactly as declared.

Decided by:
  M1  MIR of every `from_u32` executed symbolically over n:BV32 (all 2^32 inputs, no bound);
      MIR of every `FromStr::from_str` over a symbolic string; MIR of every derived `Debug::fmt`
      over a symbolic discriminant.
  T   declared discriminants / aliases / mask constants read from the source tokens.
  K   (masks) `from_bits` over n:u32 via Kani — see kani harness `c08_masks` (run by check C08 when present).
  R   translation validation: boundary values of every range pushed through the real functions.
"""
import z3
import re
import json
import os
import sym
import mir
import tables
import reg as regmod
from common import mir_path, Inconclusive, Replay, VERIF
from smt import Q


def model_str_eq(engine, st, fr, callee, args, ops):
    a, b = args
    av = a.s if isinstance(a, sym.StrV) else a
    bv = b.s if isinstance(b, sym.StrV) else b
    if isinstance(av, str) and isinstance(bv, str):
        return z3.BoolVal(av == bv)
    av = z3.StringVal(av) if isinstance(av, str) else av
    bv = z3.StringVal(bv) if isinstance(bv, str) else bv
    return av == bv


def model_write_str(engine, st, fr, callee, args, ops):
    st.events.append(("write_str", args[1]))
    return sym.Adt("Result", "Ok", [sym.UNIT])


def impl_fn(mf, line_lo, line_hi, fname):
    """MIR item `<impl at spirv/autogen_spirv.rs:L:...>::fname` whose impl starts in [lo, hi)."""
    out = []
    for name, lst in mf.items.items():
        m = re.match(r"^<impl at spirv/autogen_spirv\.rs:(\d+):\d+: \d+:\d+>::(\w+)$", name)
        if m and m.group(2) == fname and line_lo <= int(m.group(1)) < line_hi:
            out.append((int(m.group(1)), lst[0][1]))
    return sorted(out)


def snapshot_agreement(ctx, rp, enums, masks, only=None):
    """numbers, names, aliases and mask constants of the spirv crate against the pinned grammar (also run by C09 for `Op`, whose alias
    constants are what `CoreInstructionTable::get` is called with)"""
    # ---------------- agreement with the pinned grammar (stand-in for the Khronos JSON): numbers, names, aliases, mask constants
    snap = json.load(open(os.path.join(VERIF, "reference", "snapshot.json")))["spirv"]
    for name in sorted(set(enums) | set(snap["enums"])):
        if only and name not in only:
            continue
        cur, old = enums.get(name), snap["enums"].get(name)
        if cur is None or old is None:
            if cur is None:
                real = rp.ask("from_u32 %s 0" % name)
                if "error" in real:
                    ctx.ob("snapshot/enum/%s" % name, False, "enum missing")
                    ctx.violation("snapshot/enum-presence/%s" % name, "enumeration %s of the pinned grammar is missing from the spirv crate" % name, {"cmd": "from_u32 %s 0" % name, "real": real})
                else:
                    ctx.ob("snapshot/enum/%s" % name, None, "the token reader does not find enum %s but the compiled crate has it" % name)
            else:
                ctx.ob("snapshot/enum/%s" % name, None, "enum %s is not in the pinned grammar snapshot (a new declaration: outside what the snapshot can judge)" % name)
            continue
        a = {n: v for n, v in cur["variants"]}
        b = {n: v for n, v in old["variants"]}
        al_a = {x: a.get(y) for x, y in cur["aliases"]}
        al_b = {x: b.get(y) for x, y in old["aliases"]}
        diffs = [(n, a.get(n), b.get(n)) for n in sorted(set(a) | set(b)) if a.get(n) != b.get(n)]
        diffs += [("alias " + n, al_a.get(n), al_b.get(n)) for n in sorted(set(al_a) | set(al_b)) if al_a.get(n) != al_b.get(n)]
        ctx.ob("snapshot/enum/%s" % name, not diffs, str(diffs[:4]) if diffs else None)
        for n, x, y in diffs[:6]:
            probe = x if isinstance(x, int) else (y if isinstance(y, int) else 0)
            real = rp.ask("from_u32 %s %d" % (name, probe))
            ctx.violation("snapshot/enum/%s/%s" % (name, n.replace(" ", "-")), "%s::%s = %s here, %s in the pinned grammar" % (name, n, x, y),
                          {"cmd": "from_u32 %s %d" % (name, probe), "real": real})
    for name in sorted(set(masks) | set(snap["masks"])):
        if only:
            continue
        a = dict(masks[name]["consts"]) if name in masks else {}
        b = dict(snap["masks"].get(name, []))
        diffs = [(n, a.get(n), b.get(n)) for n in sorted(set(a) | set(b)) if a.get(n) != b.get(n)]
        ctx.ob("snapshot/mask/%s" % name, not diffs, str(diffs[:4]) if diffs else None)
        for n, x, y in diffs[:6]:
            real = rp.ask("from_bits %s %d" % (name, x if isinstance(x, int) else (y or 0)))
            ctx.violation("snapshot/mask/%s/%s" % (name, n), "%s::%s = %s here, %s in the pinned grammar" % (name, n, x, y),
                          {"cmd": "from_bits %s %d" % (name, x if isinstance(x, int) else (y or 0)), "real": real})


def run(ctx):
    q = Q(ctx)
    enums, masks = tables.spirv_decls()
    registry = regmod.build_registry()
    mf = mir.MirFile(mir_path("spirv"))
    ctx.trusted += ["rustc nightly MIR dump (-Zunpretty=mir) as the semantics of the compiled functions",
                    "z3 (every 25th query of each template re-decided by cvc5)",
                    "mirsym interpreter (lib/sym.py); validated against the real functions on boundary values (R)"]
    ctx.assumptions += ["bit-masks: acceptance (bitflags' from_bits) is decided on the compiled code by one Kani harness per mask type against the union of the "
                        "declared constants read from the bitflags! source tokens"]
    ctx.bounds.append("from_u32 / from_str / Debug: none (all 2^32 numbers, all strings, all declared discriminants)")
    order = sorted(enums.items(), key=lambda kv: kv[1]["line"])
    lines = [d["line"] for _, d in order] + [10 ** 9]
    rp = Replay()
    val_samples = 0
    for idx, (name, d) in enumerate(order):
        lo, hi = d["line"], lines[idx + 1]
        D = sorted(set(v for _, v in d["variants"]))
        byval = {}
        for vn, vv in d["variants"]:
            byval.setdefault(vv, []).append(vn)
        dup = [v for v, ns in byval.items() if len(ns) > 1]
        if dup:
            ctx.ob("%s/decl/unique-discriminants" % name, None, "duplicate discriminants %s" % dup)
        n = z3.BitVec("n", 32)
        inD = z3.Or(*[n == z3.BitVecVal(v, 32) for v in D]) if D else z3.BoolVal(False)
        # ---------------- from_u32
        cands = impl_fn(mf, lo, hi, "from_u32")
        if len(cands) != 1:
            raise Inconclusive("from_u32 of %s: %d MIR candidates" % (name, len(cands)))
        fn = mf.parse_item(cands[0][1])
        eng = sym.Engine([mf], registry, eager=True, max_paths=20000)
        res = eng.run(fn, [n])
        ctx.functions.add("spirv::%s::from_u32" % name)
        bad = None
        for r in res:
            if r.status != "return":
                st, m = q.check(r.pc, "from_u32/reach")
                if st == "sat":
                    bad = ("panic-or-unreachable", m[n].as_long() if m[n] is not None else 0, r.info)
                    ctx.ob("%s/from_u32/no-panic" % name, False, str(bad))
                    ctx.violation("%s::from_u32/panics" % name, "from_u32(%d) reaches %s" % (bad[1], r.info),
                                  {"fn": "from_u32", "enum": name, "n": bad[1]})
                elif st != "unsat":
                    ctx.ob("%s/from_u32/no-panic" % name, None, m)
                continue
            v = r.value
            if v.variant == "Some":
                out = v.fields[0]
                # (a) only declared discriminants are ever transmuted
                st, m = q.check(r.pc + [z3.Not(inD)], "from_u32/some-implies-declared")
                if st == "sat":
                    w = m.eval(n, model_completion=True).as_long()
                    real = rp.ask("from_u32 %s %d" % (name, w))
                    if real.get("some"):
                        ctx.ob("%s/from_u32/some=>declared" % name, False, "n=%d" % w)
                        ctx.violation("%s::from_u32/accepts-undeclared" % name,
                                      "%s::from_u32(%d) returns Some although %d is not a declared discriminant (undefined behaviour)" % (name, w, w),
                                      {"cmd": "from_u32 %s %d" % (name, w), "real": real})
                    else:
                        ctx.ob("%s/from_u32/some=>declared" % name, None, "model n=%d does not reproduce: %s" % (w, real))
                elif st == "unsat":
                    ctx.ob("%s/from_u32/some=>declared" % name, True, "path %d" % res.index(r))
                else:
                    ctx.ob("%s/from_u32/some=>declared" % name, None, m)
                # (b) value converts back to the same number
                st, m = q.check(r.pc + [out != n], "from_u32/value-is-n")
                if st == "sat":
                    w = m.eval(n, model_completion=True).as_long()
                    real = rp.ask("from_u32 %s %d" % (name, w))
                    if real.get("some") and real.get("val") != w:
                        ctx.ob("%s/from_u32/value=n" % name, False, "n=%d" % w)
                        ctx.violation("%s::from_u32/wrong-value" % name, "from_u32(%d) as u32 = %s" % (w, real.get("val")),
                                      {"cmd": "from_u32 %s %d" % (name, w), "real": real})
                    else:
                        ctx.ob("%s/from_u32/value=n" % name, None, "model n=%d does not reproduce" % w)
                else:
                    ctx.ob("%s/from_u32/value=n" % name, st == "unsat" or None, "path %d" % res.index(r))
            else:
                # (c) every declared discriminant is accepted
                st, m = q.check(r.pc + [inD], "from_u32/declared-implies-some")
                if st == "sat":
                    w = m.eval(n, model_completion=True).as_long()
                    real = rp.ask("from_u32 %s %d" % (name, w))
                    if not real.get("some"):
                        ctx.ob("%s/from_u32/declared=>some" % name, False, "n=%d" % w)
                        ctx.violation("%s::from_u32/rejects-declared" % name,
                                      "%s::from_u32(%d) returns None although %s = %d is declared" % (name, w, byval[w][0], w),
                                      {"cmd": "from_u32 %s %d" % (name, w), "real": real})
                    else:
                        ctx.ob("%s/from_u32/declared=>some" % name, None, "model n=%d does not reproduce" % w)
                else:
                    ctx.ob("%s/from_u32/declared=>some" % name, st == "unsat" or None, "path %d" % res.index(r))
        # translation validation of the encoding on boundary values: real function vs encoded paths
        probes = set()
        for a, b in (d["ranges"] or []):
            probes.update([a, b, (a - 1) & 0xffffffff, (b + 1) & 0xffffffff])
        probes.update([0, 0xffffffff, 0x7fffffff, 0x80000000])
        for w in sorted(probes):
            real = rp.ask("from_u32 %s %d" % (name, w))
            enc = None
            for r in res:
                if r.status == "return" and z3.is_true(z3.simplify(z3.substitute(z3.And(*r.pc) if r.pc else z3.BoolVal(True), (n, z3.BitVecVal(w, 32))))):
                    enc = r.value.variant == "Some"
                    break
            ctx.validated += 1
            if enc is None or enc != bool(real.get("some")):
                ctx.ob("%s/from_u32/encoding-matches-real" % name, None, "n=%d real=%s encoded=%s" % (w, real, enc))
        val_samples += len(probes)

        # ---------------- Debug::fmt : discriminant -> name, and rustc's own discriminant list
        dbg = impl_fn(mf, max(0, lo - 12), lo + 1, "fmt")
        if dbg:
            fn = mf.parse_item(dbg[-1][1])
            eng = sym.Engine([mf], registry, models=[(r"Formatter::<'_>::write_str$", model_write_str)], eager=False)
            selfv = z3.BitVec("self", 32)
            # a `&Enum` always holds a declared discriminant (Rust validity invariant): precondition
            validself = z3.Or(*[selfv == z3.BitVecVal(v, 32) for v in D])
            res = eng.run(fn, [sym.Ref(("h", 0)), sym.Sym("f", "Formatter")], mem={("h", 0): selfv}, pc=[validself])
            ctx.functions.add("<spirv::%s as Debug>::fmt" % name)
            names_ok = True
            seen_vals = set()
            for r in res:
                if r.status == "unreachable":
                    st, m = q.check(r.pc + [z3.Or(*[selfv == z3.BitVecVal(v, 32) for v in D])], "debug/unreachable")
                    ctx.ob("%s/Debug/total-on-declared" % name, st == "unsat" or None, "unreachable arm of the derived Debug is live")

                    continue
                if r.status != "return" or not r.events:
                    ctx.ob("%s/Debug/shape" % name, None, str(r))
                    continue
                s = r.events[-1][1]
                sname = s.s if isinstance(s, sym.StrV) else None
                # all discriminants on this path must carry that variant name
                want = [v for vn, v in d["variants"] if vn == sname]
                cond = z3.Not(selfv == z3.BitVecVal(want[0], 32)) if want else z3.BoolVal(True)
                st, m = q.check(r.pc + [cond], "debug/name")
                if st == "sat":
                    names_ok = False
                    w = m.eval(selfv, model_completion=True).as_long()
                    real = rp.ask("from_u32 %s %d" % (name, w))
                    if real.get("some") and real.get("debug") == sname and sname not in byval.get(w, []):
                        ctx.ob("%s/Debug/name-of-%s" % (name, sname), False)
                        ctx.violation("%s::Debug/wrong-name" % name, "discriminant %d prints as %r, declared %s" % (w, sname, byval.get(w)),
                                      {"cmd": "from_u32 %s %d" % (name, w), "real": real})
                    else:
                        ctx.ob("%s/Debug/name-of-%s" % (name, sname), None, "model %d does not reproduce: %s" % (w, real))
                elif st == "unsat":
                    ctx.ob("%s/Debug/name-of-%s" % (name, sname), True)
                    seen_vals.update(want)
                else:
                    ctx.ob("%s/Debug/name-of-%s" % (name, sname), None, m)
            # rustc's discriminant list (from the derive) equals the token-level declaration
            if names_ok and seen_vals != set(D):
                ctx.ob("%s/decl/tokens-vs-rustc" % name, None, "token reader and MIR disagree on the discriminant set: %s" %
                       sorted(set(D) ^ seen_vals)[:5])
            else:
                ctx.ob("%s/decl/tokens-vs-rustc" % name, True, "%d discriminants" % len(D))

        # ---------------- FromStr
        if d["from_str"] is not None:
            fs = impl_fn(mf, lo, hi, "from_str")
            if len(fs) != 1:
                raise Inconclusive("from_str of %s: %d MIR candidates" % (name, len(fs)))
            fn = mf.parse_item(fs[0][1])
            sv = z3.String("s")
            eng = sym.Engine([mf], registry, models=[(r"^<str as PartialEq>::eq$", model_str_eq)], eager=False)
            res = eng.run(fn, [sv])
            ctx.functions.add("<spirv::%s as FromStr>::from_str" % name)
            valof = dict(d["variants"])
            expect = {vn: vv for vn, vv in d["variants"]}
            for al, tgt in d["aliases"]:
                if tgt not in valof:
                    # cannot compile if true: the token reader missed the variant
                    ctx.ob("%s/alias/%s" % (name, al), None, "alias of a variant the token reader did not find: %s" % tgt)
                    continue
                expect[al] = valof[tgt]
            names = sorted(expect)
            okpaths = 0
            for r in res:
                if r.status != "return":
                    st, m = q.check(r.pc, "from_str/reach")
                    ctx.ob("%s/from_str/no-panic" % name, st == "unsat" or None, str(r.info))
                    continue
                v = r.value
                if v.variant == "Ok":
                    out = v.fields[0]
                    # accepted strings are declared names / aliases and map to the right value
                    good = z3.Or(*[z3.And(sv == z3.StringVal(nm), out == z3.BitVecVal(expect[nm], 32)) for nm in names])
                    st, m = q.check(r.pc + [z3.Not(good)], "from_str/accepted-is-declared")
                    if st == "sat":
                        w = m.eval(sv, model_completion=True).as_string()
                        real = rp.ask("from_str %s %s" % (name, w.encode().hex()))
                        exp = expect.get(w)
                        if real.get("ok") and real.get("val") != exp:
                            ctx.ob("%s/from_str/accepted" % name, False, w)
                            ctx.violation("%s::from_str/wrong-mapping" % name,
                                          "%s::from_str(%r) = %s, declared value %s" % (name, w, real.get("val"), exp),
                                          {"cmd": "from_str %s %s" % (name, w.encode().hex()), "real": real})
                        else:
                            ctx.ob("%s/from_str/accepted" % name, None, "model %r does not reproduce: %s" % (w, real))
                    else:
                        ctx.ob("%s/from_str/accepted" % name, st == "unsat" or None, "path %d" % okpaths)
                    okpaths += 1
                else:
                    # every declared name and alias is accepted
                    st, m = q.check(r.pc + [z3.Or(*[sv == z3.StringVal(nm) for nm in names])], "from_str/declared-is-accepted")
                    if st == "sat":
                        w = m.eval(sv, model_completion=True).as_string()
                        real = rp.ask("from_str %s %s" % (name, w.encode().hex()))
                        if not real.get("ok"):
                            ctx.ob("%s/from_str/declared-accepted" % name, False, w)
                            ctx.violation("%s::from_str/rejects-declared" % name,
                                          "%s::from_str(%r) fails although %r is a declared %s" % (
                                              name, w, w, "alias" if w in dict(d["aliases"]) else "variant"),
                                          {"cmd": "from_str %s %s" % (name, w.encode().hex()), "real": real})
                        else:
                            ctx.ob("%s/from_str/declared-accepted" % name, None, "model %r does not reproduce" % w)
                    else:
                        ctx.ob("%s/from_str/declared-accepted" % name, st == "unsat" or None)
    snapshot_agreement(ctx, rp, enums, masks)
    rp.close()
    # ---------------- masks: from_bits accepts n iff all set bits are declared (compiled code, CBMC over all 2^32 numbers)
    import kani
    hs = ["gen::proofs::k_mask_%s" % m for m in sorted(masks)]
    res = kani.run_many(hs, cap_s=1200, workers=6)
    kani.settle(ctx, res, lambda h: "mask_" + h.split("k_mask_")[1])
    ctx.functions.update("spirv::%s::from_bits" % m for m in masks)
    ctx.bounds.append("masks: all 2^32 numbers for each of the %d bitflags types (Kani/CBMC)" % len(masks))
    # ---------------- the decoder's typed requests accept exactly the declared values of their kind (MIR over the word() contract)
    import c11
    ctx.extra["typed_requests_decided_from_mir"] = c11.typed_requests_mir(ctx)
    ctx.extra["enums"] = len(enums)
    ctx.extra["range_arms"] = sum(len(d["ranges"] or []) for d in enums.values())
    ctx.extra["masks"] = len(masks)
    ctx.extra["cvc5"] = q.summary()
    ctx.extra["explanation"] = (
        "Every from_u32 / from_str / Debug::fmt of the spirv crate is executed symbolically from rustc's MIR "
        "(input n:BV32, s:String, discriminant:BV32); each path's condition is conjoined with the negated property "
        "and decided by z3: unsat = holds for all inputs (no bound), sat = concrete input, replayed on the compiled crate. "
        "Declared sets come from the #[repr(u32)] declarations (token reader), cross-checked against rustc's own "
        "discriminant list in the derived Debug impl.")
