"""C03 — the parser accepts exactly the grammar and reports the first malformed instruction.
(C04's parser part and C10's literal widths are decided by the same runs; see c04.py / c10.py.)

K    header: `verif::parse_header` on every buffer of <= 24 bytes (Kani harness k_parse_header).
M2   `Parser::parse_inst` is executed symbolically from MIR once per grammar entry (all 787; the entry is the value rustc
     computed for the table), with the instruction's words, the stream length, the word count and the type tracker symbolic;
     `parse_operands`, the 60 generated `parse_operand` arms, the enumerant parameter parsers, the typed decode methods,
     `parse_literal`, `parse_spec_constant_op` and `TypeTracker::resolve` all run from their own MIR; the Decoder's raw requests
     are replaced by the contract Kani establishes in C11; mask parameter parsers are summarised here and checked bit by bit.
     Every path is classified and compared with the reference: framing (word count, extent, instruction number, offsets),
     grammar acceptance (delivered operand variants must match One / ZeroOrOne / ZeroOrMore of the entry, in order, optional
     ones only as a trailing run, all words consumed), unknown enumerants / mask bits rejected with the offset of their word.
     Witnesses are turned into binaries and replayed through `parse_bytes` with a recording consumer.
The delivery of the prefix in stream order is C14."""
import json
import os
import re
import z3
import sym
import mir
import tables
import parsersym
import kani
from common import Inconclusive, Replay, VERIF
from smt import Q

LEVEL = "model_checking"
_FAST = z3.Solver()
MASK_ARG_FNS = ("parse_image_operands_arguments", "parse_loop_control_arguments", "parse_memory_access_arguments",
                "parse_tensor_addressing_operands_arguments")
HEADER = "03022307" "00000100" "00000000" "ff000000" "00000000"


def lookup_model(entry_ref, opcode):
    def h(engine, st, fr, callee, args, ops):
        n = args[0]
        return sym.Fork([(n == z3.BitVecVal(opcode & 0xffff, 16), sym.Adt("Option", "Some", [entry_ref]), ("lookup", "found")),
                         (n != z3.BitVecVal(opcode & 0xffff, 16), sym.Adt("Option", "None", []), ("lookup", "none"))])
    return h


def nested_lookup_model(S, nested):
    """lookup inside parse_spec_constant_op: the nested opcode is one of `nested` (entries), chosen by the number word."""
    def h(engine, st, fr, callee, args, ops):
        n = args[0]
        alts = []
        conds = []
        for e in nested:
            c = n == z3.BitVecVal(e["opcode"] & 0xffff, 16)
            conds.append(c)
            cell = ("h", "nested:" + e["opname"])
            if cell not in st.mem:
                opsarr = sym.Arr([sym.Adt("LogicalOperand", None, [z3.BitVecVal(k, 64), z3.BitVecVal(q_, 64)]) for k, q_ in e["operands"]])
                st.mem[("h", "nestedops:" + e["opname"])] = opsarr
                st.mem[cell] = sym.Adt("grammar::Instruction", None, [sym.StrV(e["opname"]), z3.BitVecVal(e["opcode"], 32), sym.Sym("caps", "&[Capability]"),
                                                                    sym.Sym("exts", "&[&str]"), sym.Ref(("h", "nestedops:" + e["opname"]), ())])
            alts.append((c, sym.Adt("Option", "Some", [sym.Ref(cell, ())]), ("nested", e["opname"])))
        alts.append((z3.Not(z3.Or(*conds)), sym.Adt("Option", "None", []), ("nested", None)))
        return sym.Fork(alts)
    return h


def mask_args_summary(S):
    """Summary of the mask parameter parsers inside instruction-level runs: consume k words (k <= limit, within the stream)
    and deliver one opaque parameter block, or fail with a decode error. Their per-bit behaviour is checked separately."""
    def h(engine, st, fr, callee, args, ops):
        r = args[0]
        p = sym._deref_arg(engine, st, r)
        d = p.fields[0]
        _bytes, off, lim = d.fields
        k = z3.BitVec(engine.fresh_name("paramwords"), 64)
        fits = z3.And(z3.ULE(k, 64), z3.ULE(off + 4 * k, S.LEN))
        nl = lim
        if lim.variant == "Some":
            fits = z3.And(fits, z3.ULE(k, lim.fields[0]))
            nl = sym.Adt("Option", "Some", [z3.simplify(lim.fields[0] - k)])
        newp = sym.Adt("Parser", None, [sym.Adt("Decoder", None, [_bytes, z3.simplify(off + 4 * k), nl])] + list(p.fields[1:]))
        params = sym.Arr([sym.Adt("dr::constructs::Operand", "MaskParams", [args[1]])], "vec")
        err = sym.Adt("binary::parser::State", "OperandError", [sym.Sym(engine.fresh_name("paramerr"), "binary::autogen_error::Error")])
        return sym.Fork([(fits, parsersym._Seq(parsersym._SetDecoder(r, newp), sym.Adt("Result", "Ok", [params])), ("maskargs", k)),
                         (True, sym.Adt("Result", "Err", [err]), ("maskargs", "err"))])
    return h


def operand_pattern(entry, kn, qn, variant_of_kind, enum_params):
    """Regular expression over space-terminated operand variant names that a conforming instruction's operands must match."""
    parts = []
    for k, qq in entry["operands"]:
        kind, quant = kn[k], qn[qq]
        if kind in ("IdResultType", "IdResult"):
            continue
        if kind == "LiteralContextDependentNumber":
            one = r"(?:LiteralBit32 |LiteralBit64 )"
        elif kind == "PairLiteralIntegerIdRef":
            one = r"(?:LiteralBit32 |LiteralBit64 )IdRef "
        elif kind == "PairIdRefLiteralInteger":
            one = r"IdRef LiteralBit32 "
        elif kind == "PairIdRefIdRef":
            one = r"IdRef IdRef "
        elif kind == "LiteralSpecConstantOpInteger":
            one = r"LiteralSpecConstantOpInteger (?:\w+ )*"
        else:
            v = variant_of_kind.get(kind)
            if v is None:
                raise Inconclusive("no operand variant for kind %s" % kind)
            one = v + " "
            if kind in ("ImageOperands", "LoopControl", "MemoryAccess", "TensorAddressingOperands"):
                one += r"MaskParams "
            elif kind in enum_params:
                one += r"(?:\w+ )*?"          # enumerant parameters: checked against the table on the path's enumerant
        parts.append("(?:%s)%s" % (one, {"One": "", "ZeroOrOne": "?", "ZeroOrMore": "*"}[quant]))
    return re.compile("^" + "".join(parts) + "$")


def describe_result(v):
    if not isinstance(v, sym.Adt):
        return ("?", None)
    if v.variant == "Ok":
        return ("Ok", v.fields[0])
    e = v.fields[0]
    if isinstance(e, sym.Adt):
        return (e.variant, e)
    return ("Err?", e)


def run_entry(S, entry, nested_entries, want_paths=False):
    eng = S.engine([
        (r"CoreInstructionTable::lookup_opcode$", None),   # placeholder, replaced below
    ], loop_bound=len(entry["operands"]) + 5)
    opsarr = sym.Arr([sym.Adt("LogicalOperand", None, [z3.BitVecVal(k, 64), z3.BitVecVal(q_, 64)]) for k, q_ in entry["operands"]])
    mem = {("h", "ops"): opsarr}
    mem[("h", "entry")] = sym.Adt("grammar::Instruction", None, [sym.StrV(entry["opname"]), z3.BitVecVal(entry["opcode"], 32), sym.Sym("caps", "&[Capability]"),
                                                                sym.Sym("exts", "&[&str]"), sym.Ref(("h", "ops"), ())])
    top = lookup_model(sym.Ref(("h", "entry"), ()), entry["opcode"])
    nested = nested_lookup_model(S, nested_entries)

    def lookup(engine, st, fr, callee, args, ops):
        if "parse_spec_constant_op" in fr.fn.name:
            return nested(engine, st, fr, callee, args, ops)
        return top(engine, st, fr, callee, args, ops)
    eng.models[0] = (r"CoreInstructionTable::lookup_opcode$", lookup)
    eng.models.insert(0, (r"^Parser::<'_, '_>::(%s)$" % "|".join(MASK_ARG_FNS), mask_args_summary(S)))
    eng.models.insert(0, (r"^<&\[.*\] as IntoIterator>::into_iter$", sym.m_vec_into_iter))
    off = z3.BitVec("off", 64)
    idx = z3.BitVec("idx", 64)
    mem[("h", "p")] = S.parser_value(off, None, idx)
    fn = S.mf.get("parse_inst", file_hint="parser.rs", kind="fn")
    pre = [z3.Or(off == 20, off == 32, off == 36), z3.ULE(off, S.LEN), z3.ULE(S.LEN, 1 << 24), z3.ULE(idx, 1 << 20)]
    res = eng.run(fn, [sym.Ref(("h", "p"), (), True)], mem=mem, pc=pre)
    return eng, res, off, idx


def run(ctx):
    q = Q(ctx, cross_every=1000)
    S = parsersym.Setting()
    T = S.T
    kn, qn = T["kind_names"], T["quant_names"]
    P = tables.parse_operand_arms()
    variant_of_kind = {k: a["operands"][0][0] for k, a in P.items() if a["operands"]}
    enum_params = {a["args_fn"] and k for k, a in P.items() if a["args_fn"] and a["args_fn"] not in MASK_ARG_FNS}
    enum_params.discard(None)
    entries = T["core"]
    ctx.trusted += ["rustc MIR", "mirsym and its std models", "Decoder raw requests by the contract of C11 (Kani)", "from_u32 / from_bits by the contract of C08",
                    "grammar entries = rustc's promoted table constants", "z3", "Kani/CBMC for the header harness"]
    ctx.assumptions += ["instruction placed at byte offset 20/32/36 (after the header, optionally after one type declaration) — the code is offset-independent",
                        "mask parameter parsers are summarised in instruction-level runs (consume k words, deliver one block) and checked per declared bit separately",
                        "variadic operands unrolled up to 5 repetitions; OpSpecConstantOp nests a representative set of opcodes (one per operand-shape class) plus all opcodes with special kinds",
                        "strings: consume k >= 1 words within limit and stream (C11)"]
    rp = Replay()
    npaths, chosen = entry_runs(ctx, q, S, rp, only_special=False)
    lookup_contract(ctx, rp, entries)
    decoder_contract(ctx, rp)
    mask_parameter_bits(ctx, S, q, rp)
    enum_parameter_values(ctx, S, q, rp)
    import c10
    c10.literal_lemmas(ctx, q, S, rp)        # the widths of context-dependent literals (OpConstant, OpSpecConstant, OpSwitch)
    rp.close()
    # "the grammar" is the Khronos one: the table the parser reads must BE the pinned grammar (C09's semantic diff), and the numbers
    # the typed requests accept must be the declared enumerants (C08's legs decide `from_u32` / `from_bits` on all 2^32 numbers)
    import c09
    import common as _common
    _common.composed(ctx, "C09-pinned-table", lambda: c09.snapshot_diff(ctx, "core", S.T["core"], S.T))
    import c08
    _common.composed(ctx, "C08-conversions", lambda: c08.run(ctx))
    ctx.validated = rp.count
    # header on the compiled code
    res = kani.run_many(["k_parse_header"], cap_s=1500)
    kani.settle(ctx, res, lambda h: h[2:])
    ctx.extra["states"] = len(chosen)
    ctx.extra["transitions"] = npaths
    ctx.extra["cvc5"] = q.summary()
    ctx.extra["explanation"] = "parse_inst executed symbolically per grammar entry; every path classified against framing and grammar-acceptance rules."


def entry_runs(ctx, q, S, rp, only_special):
    """`parse_inst` per grammar entry (see the module docstring). only_special: just the entries whose operands include a
    context-dependent, paired or nested kind (C02 runs those: they are where 'inverse of the assembler' is not a per-kind fact)."""
    T = S.T
    kn, qn = T["kind_names"], T["quant_names"]
    P = tables.parse_operand_arms()
    variant_of_kind = {k: a["operands"][0][0] for k, a in P.items() if a["operands"]}
    enum_params = {a["args_fn"] and k for k, a in P.items() if a["args_fn"] and a["args_fn"] not in MASK_ARG_FNS}
    enum_params.discard(None)
    entries = T["core"]
    # quick: a third of the entries (rotating with the seed) plus every entry with a special kind; thorough: all
    special = {"LiteralContextDependentNumber", "PairLiteralIntegerIdRef", "LiteralSpecConstantOpInteger", "PairIdRefLiteralInteger", "PairIdRefIdRef"}
    chosen = []
    for i, e in enumerate(entries):
        kinds = {kn[k] for k, _ in e["operands"]}
        if (kinds & special) or (not only_special and (ctx.tier == "thorough" or i % 8 == ctx.seed % 8 or any(k in enum_params for k in kinds))):
            chosen.append(e)
    ctx.bounds.append("%d of %d grammar entries (quick: every eighth, offset seed %% 8, plus all entries with special or parameterised kinds; thorough: all); "
                      "all word counts, all word values, all stream lengths <= 2^24, tracker arbitrary" % (len(chosen), len(entries)))
    # nested opcodes for OpSpecConstantOp: one representative per distinct operand shape + every opcode with a special kind
    shapes = {}
    for e in entries:
        key = tuple(e["operands"])
        kinds = {kn[k] for k, _ in e["operands"]}
        if key not in shapes or (kinds & special):
            shapes.setdefault(key, e)
    nested_entries = list(shapes.values())
    if ctx.tier == "quick":
        nested_entries = [e for e in nested_entries if ({kn[k] for k, _ in e["operands"]} & special) or e["opname"] in
                          ("IAdd", "VectorShuffle", "CompositeExtract", "CompositeInsert", "Select", "SConvert", "AccessChain", "Nop", "Load", "ImageRead", "Decorate")]
    npaths = 0
    import time as _time, sys as _sys
    for e in chosen:
        _t0 = _time.time()
        if os.environ.get("VERIF_DEBUG"):
            print("entry", e["opname"], file=_sys.stderr, flush=True)
        try:
            eng, res, off, idx = run_entry(S, e, nested_entries if e["opname"] == "SpecConstantOp" else [])
        except mir.Unsupported as ex:
            ctx.ob("parse_inst/%s/encodable" % e["opname"], None, str(ex)[:300])
            continue
        ctx.functions.update(eng.stats.functions)
        pat = operand_pattern(e, kn, qn, variant_of_kind, enum_params)
        if e["opname"] == "SpecConstantOp":
            nested_variadic(ctx, S, rp, res, nested_entries, kn, qn, variant_of_kind)
        conforming_shapes_accepted(ctx, rp, e, res, kn, qn, variant_of_kind, enum_params)
        for r in res:
            npaths += 1
            if r.status == "loop_bound":
                continue
            bad = check_path(S, q, e, r, off, idx, pat, kn)
            name = "parse_inst/%s" % e["opname"]
            if bad is None:
                ctx.ob(name, True)
                continue
            role, what, model = bad
            real, why = replay(S, rp, e, r, off, model, role)
            if why:
                ctx.ob(name, False, "%s; native: %s" % (what, why))
                ctx.violation("parser/%s/%s" % (e["opname"] if "nested" not in role else role.split("/")[-1], role.split("/")[0]),
                              "Op%s: %s; on the compiled crate: %s" % (e["opname"], what, why), {"cmd": real.get("cmd"), "real": real})
            else:
                ctx.ob(name, None, "model reports '%s' but the compiled crate does not show it: %s" % (what, str(real)[:200]))
    return npaths, chosen


def conforming_shapes_accepted(ctx, rp, e, res, kn, qn, variant_of_kind, enum_params):
    """Completeness direction of 'accepts exactly the grammar': every shape of conforming operand list (each prefix of the
    optional operands present, the variadic operand 0, 1 and 2 times) must have an ACCEPTING path; a parser that is too strict
    (an optional operand demanded, a variadic one accepted once only) has none for some shape."""
    simple = []
    for k, qq in e["operands"]:
        kind, quant = kn[k], qn[qq]
        if kind in ("IdResultType", "IdResult"):
            continue
        if kind in ("LiteralContextDependentNumber", "PairLiteralIntegerIdRef", "LiteralSpecConstantOpInteger", "LiteralString") or \
                kind in enum_params or kind in ("ImageOperands", "LoopControl", "MemoryAccess", "TensorAddressingOperands") or kind.startswith("Pair"):
            return          # shapes with context-dependent widths / parameters are covered by C10 / C17
        simple.append((variant_of_kind.get(kind), quant))
    if not simple or all(q_ == "One" for _, q_ in simple):
        return
    accepted = set()
    for r in res:
        if r.status == "return" and isinstance(r.value, sym.Adt) and r.value.variant == "Ok":
            accepted.add(tuple(o.variant for o in r.value.fields[0].fields[3].items if isinstance(o, sym.Adt)))
    req = [v for v, q_ in simple if q_ == "One"]
    opts = [v for v, q_ in simple if q_ == "ZeroOrOne"]
    var = [v for v, q_ in simple if q_ == "ZeroOrMore"]
    shapes = []
    for n_opt in range(len(opts) + 1):
        base = req + opts[:n_opt]
        if n_opt == len(opts) and var:
            for rep in (0, 1, 2):
                shapes.append(tuple(base + var * rep))
        else:
            shapes.append(tuple(base))
    missing = [s_ for s_ in shapes if s_ not in accepted]
    if not missing:
        ctx.ob("parse_inst/%s/all-conforming-shapes-accepted" % e["opname"], True, "%d shapes" % len(shapes))
        return
    # native confirmation with concrete words (ids 1.., enumerants 0)
    shape = missing[0]
    kinds = [kn[k] for k, _ in e["operands"]]
    words = [0]
    nid = 1
    if "IdResultType" in kinds:
        words.append(nid); nid += 1
    if "IdResult" in kinds:
        words.append(nid); nid += 1
    for v in shape:
        words.append(nid if v.startswith("Id") else 0)
        nid += 1
    words[0] = (len(words) << 16) | e["opcode"]
    hexb = HEADER + "".join(le(w) for w in words)
    real = rp.ask("parse_script %s C" % hexb)
    if real.get("result") != "Ok":
        ctx.ob("parse_inst/%s/all-conforming-shapes-accepted" % e["opname"], False, "no accepting path for %s; native: %s" % (shape, real.get("result")))
        ctx.violation("parser/%s/conforming-instruction-rejected" % e["opname"],
                      "Op%s with operands %s conforms to its grammar entry but is rejected: %s" % (e["opname"], list(shape), real.get("result")),
                      {"cmd": "parse_script %s C" % hexb, "real": real})
    else:
        ctx.ob("parse_inst/%s/all-conforming-shapes-accepted" % e["opname"], True, "shape %s accepted by the compiled crate (no accepting path within the model's bounds)" % (shape,))


def nested_variadic(ctx, S, rp, res, nested_entries, kn, qn, variant_of_kind):
    """A conforming OpSpecConstantOp may carry any permitted number of variadic operands of the nested opcode: for every nested
    opcode whose last operand is ZeroOrMore there must be an accepting path that delivers that operand at least twice."""
    for ne in nested_entries:
        if not ne["operands"] or qn[ne["operands"][-1][1]] != "ZeroOrMore":
            continue
        var = variant_of_kind.get(kn[ne["operands"][-1][0]])
        if var is None:
            continue
        fixed = sum(1 for k, q_ in ne["operands"][:-1] if kn[k] not in ("IdResultType", "IdResult"))
        best = 0
        for r in res:
            if r.status != "return" or not (isinstance(r.value, sym.Adt) and r.value.variant == "Ok"):
                continue
            if not any(ev[0] == "nested" and ev[1] == ne["opname"] for ev in r.events):
                continue
            ops_ = r.value.fields[0].fields[3].items
            best = max(best, len(ops_) - 1 - fixed)
        if best >= 2:
            ctx.ob("spec-constant-op/variadic/%s" % ne["opname"], True, "accepted with %d variadic operands" % best)
            continue
        # native confirmation: OpSpecConstantOp %1 %2 <nested> with the fixed operands and three variadic ones
        words = [0, 1, 2, ne["opcode"]] + [3 + i for i in range(fixed)] + [0, 1, 2]
        words[0] = (len(words) << 16) | 52
        hexb = HEADER + "".join(le(w) for w in words)
        real = rp.ask("parse_script %s C" % hexb)
        if real.get("result") != "Ok":
            ctx.ob("spec-constant-op/variadic/%s" % ne["opname"], False, "at most %d variadic operand(s) accepted; native: %s" % (best, real.get("result")))
            ctx.violation("parser/spec-constant-op/variadic-operands-rejected/%s" % ne["opname"],
                          "OpSpecConstantOp naming Op%s with three %s operands (conforming) is rejected: %s" % (ne["opname"], var, real.get("result")),
                          {"cmd": "parse_script %s C" % hexb, "real": real})
        else:
            # an existential claim ('a conforming instruction of this shape is accepted'): the native acceptance of the concrete
            # witness settles it; the symbolic run did not get there within its unrolling bound
            ctx.ob("spec-constant-op/variadic/%s" % ne["opname"], True, "accepted by the compiled crate (beyond the model's unrolling bound)")


def check_path(S, q, e, r, off, idx, pat, kn):
    """None or (role, description, model). All conditions of a path are decided by ONE query (their disjunction); only when
    that is satisfiable are they separated."""
    wc = z3.Extract(31, 16, z3.Select(S.MEM, off))
    wc64 = z3.ZeroExt(48, wc)
    extent_end = off + 4 * wc64
    if r.status != "return":
        st, m = q.check(r.pc, "panic-reachable")
        if st == "unsat":
            return None
        nested = [ev[1] for ev in r.events if ev[0] == "nested" and ev[1]]
        role = "panics" + ("/nested/%s" % nested[-1] if nested else "")
        return (role, "parse_inst ends in %s %s" % (r.status, r.info), m if st == "sat" else None)
    kind, payload = describe_result(r.value)
    p1 = r.mem[("h", "p")]
    d1 = p1.fields[0]
    off1, lim1 = d1.fields[1], d1.fields[2]
    idx1 = p1.fields[3]
    conds = []       # (role, description, z3 condition that must be unsatisfiable together with the path condition)
    static = None    # a violation that needs no solver (structure of the result)
    if kind != "?":
        conds.append(("instruction-number", "the instruction counter does not advance by exactly one", idx1 != idx + 1))
    first_failed = [ev for ev in r.events if ev[0] == "dec"][:1]
    if kind == "Complete":
        if not first_failed or first_failed[0][2] == "ok":
            static = ("complete-without-end-of-stream", "Err(Complete) although the first word was read")
    elif kind == "WordCountZero":
        conds.append(("word-count-zero", "WordCountZero with wrong condition/offset/number",
                      z3.Or(wc != 0, payload.fields[0] != off, payload.fields[1] != idx + 1)))
    elif kind == "OpcodeUnknown":
        conds.append(("opcode-unknown", "OpcodeUnknown with wrong offset/number/opcode",
                      z3.Or(payload.fields[0] != off, payload.fields[1] != idx + 1, payload.fields[2] != z3.Extract(15, 0, z3.Select(S.MEM, off)))))
    elif kind in ("OperandExpected", "OperandExceeded", "TypeUnsupported", "SpecConstantOpIntegerIncorrect"):
        o, n_ = payload.fields[0], payload.fields[1]
        conds.append(("error-location", "%s carries an offset outside the instruction's extent or a wrong instruction number" % kind,
                      z3.Or(n_ != idx + 1, z3.ULT(o, off), z3.UGT(o, extent_end))))
        if kind == "OperandExpected":
            conds.append(("operand-expected-early", "OperandExpected although declared words remain", o != extent_end))
        if kind == "OperandExceeded":
            conds.append(("operand-exceeded-at-end", "OperandExceeded although no declared word is left", z3.UGE(o, extent_end)))
    elif kind == "OperandError":
        inner = payload.fields[0]
        unknown = [ev for ev in r.events if ev[0] in ("enum", "mask") and ev[2] == "unknown"]
        if unknown and isinstance(inner, sym.Adt):
            words = [ev for ev in r.events if ev[0] == "dec" and ev[1] == "word" and ev[2] == "ok"]
            woff = words[-1][3]
            want = unknown[-1][1] + "Unknown"
            if inner.variant != want:
                static = ("unknown-enumerant-error-kind", "an unknown %s is reported as %s" % (unknown[-1][1], inner.variant))
            else:
                conds.append(("unknown-enumerant-offset", "%s does not carry the offset and value of the offending word" % want,
                              z3.Or(inner.fields[0] != woff, inner.fields[1] != z3.Select(S.MEM, woff))))
        if isinstance(inner, sym.Adt) and inner.variant in ("StreamExpected", "LimitReached"):
            conds.append(("error-location", "%s carries an offset outside the instruction's extent" % inner.variant,
                          z3.Or(z3.ULT(inner.fields[0], off), z3.UGT(inner.fields[0], extent_end))))
    elif kind == "Ok":
        inst = payload
        conds.append(("accepted-without-consuming-declared-words", "accepted although the declared extent is not exactly consumed", off1 != extent_end))
        conds.append(("accepted-beyond-stream", "accepted although the instruction does not lie inside the stream", z3.UGT(extent_end, S.LEN)))
        if lim1.variant != "None":
            static = ("limit-not-cleared", "the word limit is still set after an accepted instruction")
        cls, rtype, rid, operands = inst.fields
        kinds = [kn[k] for k, _ in e["operands"]]
        if (rtype.variant == "Some") != ("IdResultType" in kinds) or (rid.variant == "Some") != ("IdResult" in kinds):
            static = ("result-presence", "result type / result id presence differs from the grammar entry")
        seq = "".join((o.variant if isinstance(o, sym.Adt) else "?") + " " for o in operands.items)
        if not pat.match(seq):
            static = ("operands-do-not-match-grammar", "delivered operands [%s] do not match the grammar entry" % seq.strip())
        # every delivered one-word operand IS the word it was decoded from, and enumerants / mask bits are declared ones
        woffs = [ev[3] for ev in r.events if ev[0] == "dec" and ev[1] == "word" and ev[2] == "ok"][1:]
        woffs = woffs[(1 if rtype.variant == "Some" else 0) + (1 if rid.variant == "Some" else 0):]
        k = 0
        differs, undeclared = [], []
        aligned = not any(ev[0] == "dec" and ev[1] == "string" for ev in r.events)
        for o in operands.items if aligned else []:
            if not (isinstance(o, sym.Adt) and o.fields and z3.is_bv(o.fields[0])):
                aligned = False
                break
            v = o.fields[0]
            nw = 2 if v.size() == 64 else 1
            if k + nw > len(woffs):
                aligned = False
                break
            word = z3.Select(S.MEM, woffs[k])
            if nw == 1:
                differs.append(v != word)
                if o.variant in S.maskall:
                    undeclared.append((word & z3.BitVecVal(~S.maskall[o.variant] & 0xffffffff, 32)) != 0)
                elif o.variant in S.enums and o.variant != "Op":
                    D = sorted(set(x for _, x in S.enums[o.variant]["variants"]))
                    undeclared.append(z3.Not(z3.Or(*[word == z3.BitVecVal(x, 32) for x in D])))
            else:
                differs.append(v != z3.Concat(z3.Select(S.MEM, woffs[k + 1]), word))
            k += nw
        if aligned and k == len(woffs):
            if undeclared:
                conds.append(("undeclared-value-accepted", "accepted although an enumerant / mask word has an undeclared value or bit", z3.Or(*undeclared)))
            if differs:
                conds.append(("operand-differs-from-word", "a delivered operand is not the word it was decoded from", z3.Or(*differs)))
    else:
        static = ("unclassified-result", "unexpected result %r" % (r.value,))
    if static is not None:
        st, m = q.check(r.pc, "path-feasible")
        if st == "sat":
            return (static[0], static[1], m)
        if st != "unsat":
            return (static[0], static[1], None)
    if not conds:
        return None
    st, m = q.check(r.pc + [z3.Or(*[c for _, _, c in conds])], "path-conditions")
    if st == "unsat":
        return None
    for role, what, c in conds:
        st2, m2 = q.check(r.pc + [c], "path-condition-split")
        if st2 == "sat":
            return (role, what, m2)
    return (conds[0][0], conds[0][1], m if st == "sat" else None)


def replay(S, rp, e, r, off, model, role):
    """Build header [+ type declaration] + the instruction's words from the model and run parse_bytes natively."""
    if model is None:
        return {}, None
    o = model.eval(off, model_completion=True).as_long()
    length = model.eval(S.LEN, model_completion=True).as_long()
    words = []
    w0 = model.eval(z3.Select(S.MEM, z3.BitVecVal(o, 64)), model_completion=True).as_long()
    wc = w0 >> 16
    n = min(max(wc, 1), 64, max(0, (length - o) // 4))
    for i in range(n):
        words.append(model.eval(z3.Select(S.MEM, z3.BitVecVal(o + 4 * i, 64)), model_completion=True).as_long())
    pre = ""
    p0 = r.mem[("h", "p")] if ("h", "p") in r.mem else None
    if o in (32, 36) and len(words) > 1:
        tid = words[1]
        # the declaration that precedes the instruction realises the model's tracker entry for the id whose type decides a literal
        # width (the result type of OpConstant / OpSpecConstant, the selector of OpSwitch): its kind and width come from the model
        width_, signed_, float_ = 64, 0, (o == 32)
        try:
            tt = p0.fields[2].fields[0].fields if p0 is not None else None
            if tt is not None and all(z3.is_expr(x) for x in tt):
                k_ = z3.BitVecVal(tid, 32)
                if z3.is_true(model.eval(z3.Select(tt[0], k_), model_completion=True)):
                    float_ = z3.is_true(model.eval(z3.Select(tt[1], k_), model_completion=True))
                    width_ = model.eval(z3.Select(tt[2], k_), model_completion=True).as_long()
                    signed_ = 1 if z3.is_true(model.eval(z3.Select(tt[3], k_), model_completion=True)) else 0
        except (AttributeError, IndexError, z3.Z3Exception):
            pass
        if not float_:
            pre = le(4 << 16 | 21) + le(tid) + le(width_) + le(signed_)
        else:
            pre = le(3 << 16 | 22) + le(tid) + le(width_)
    hexb = HEADER + pre + "".join(le(w) for w in words)
    tail = (length - o) - 4 * n
    if 0 < tail < 4:
        hexb += "00" * tail
    cmd = "parse_script %s C" % hexb
    real = rp.ask(cmd)
    real["cmd"] = cmd
    res = str(real.get("result", ""))
    if "panic" in real:
        return real, "panics: %s (%s)" % (real["panic"], real.get("at"))
    if role.startswith("panics"):
        return real, None
    if role == "undeclared-value-accepted" and res != "Ok":
        return real, None
    # for non-panic roles, report the native outcome; the caller's model already classified the deviation
    return real, "result %s, callbacks %s" % (res, [x.split(" ")[0] + (" " + x.split(" ")[1] if x.startswith("instruction") else "") for x in real.get("events", [])][-3:])


def le(w):
    return "".join("%02x" % ((w >> (8 * i)) & 0xff) for i in range(4))


def decoder_contract(ctx, rp):
    """The symbolic runs replace the decoder's raw requests (`word`, `bit64`, `string`, limits) by their contract, which C11 decides
    with CBMC. Validation here: the same scenario functions (one request from an arbitrary reachable state, post-conditions
    checked) are run natively on structured pseudo-random states; a concrete violating state is reported."""
    for scen in ("dec_word", "dec_words", "dec_bit64", "dec_limit", "dec_typed", "dec_string_small"):
        found = kani.native_sample(rp, scen, ctx.seed, n=3000)
        if found:
            raw, real, role, what = found
            ctx.ob("decoder-contract/%s" % scen, False, what)
            ctx.violation("parser/decoder-contract/%s" % role, what + " | native sampling of the decoder scenario", {"cmd": "scenario %s %s" % (scen, raw.hex()), "real": real})
            return
    ctx.ob("decoder-contract/6-scenarios-x-3000-states", True)


def lookup_contract(ctx, rp, entries):
    """The symbolic runs replace `CoreInstructionTable::lookup_opcode` by its contract (decided in C09: found iff a table entry has
    that opcode). Validation on the compiled crate: every table entry's opcode is found and yields that entry; the numbers
    next to the table's ends and gaps are not."""
    have = {}
    for e in entries:
        have.setdefault(e["opcode"], e["opname"])
    bad = None
    for n, nm in sorted(have.items()):
        real = rp.ask("lookup core %d" % n)
        if "panic" in real or not real.get("found") or real.get("opcode") != n:
            bad = (n, nm, real)
            break
    if bad is None:
        for n in sorted(set([x + 1 for x in have] + [x - 1 for x in have if x > 0] + [65535])):
            if n in have or n > 65535:
                continue
            real = rp.ask("lookup core %d" % n)
            if "panic" in real or real.get("found"):
                bad = (n, None, real)
                break
    if bad is None:
        ctx.ob("lookup-contract/%d-opcodes-found-and-their-neighbours-not" % len(have), True)
        return
    n, nm, real = bad
    ctx.ob("lookup-contract", False, str(real)[:200])
    if nm:
        ctx.violation("parser/%s/known-opcode-not-found" % nm, "opcode %d (Op%s) is in the grammar table but the parser's lookup does not find it: an instruction with it is "
                      "rejected as OpcodeUnknown" % (n, nm), {"cmd": "lookup core %d" % n, "real": real})
    else:
        ctx.violation("parser/unknown-opcode-found/%d" % n, "opcode %d is not in the grammar table but the lookup answers %s" % (n, real), {"cmd": "lookup core %d" % n, "real": real})


def payloads_are_the_words_read(S, q, r, off):
    """The k-th delivered one-word parameter carries the k-th word after `off` (as its value / bits / discriminant)."""
    conds = []
    for k, o in enumerate(r.value.fields[0].items):
        if not (isinstance(o, sym.Adt) and o.fields and z3.is_bv(o.fields[0]) and o.fields[0].size() == 32):
            return False
        conds.append(o.fields[0] != z3.Select(S.MEM, off + 4 * k))
    if not conds:
        return True
    st, m = q.check(list(r.pc) + [z3.Or(*conds)], "parameter-payload")
    return st == "unsat"


def enum_parameter_values(ctx, S, q, rp):
    """Each declared enumerant of each parameterised value enum (Decoration, ExecutionMode, ...): the parameter parser run on
    exactly that enumerant delivers the operand variants the pinned grammar lists for it and consumes one word per one-word
    parameter; an enumerant without parameters consumes nothing."""
    snap = json.load(open(os.path.join(VERIF, "reference", "snapshot.json")))["operand_params"]["parse_arguments"]
    enums, _ = tables.spirv_decls()
    for fname, old in sorted(snap.items()):
        if old["form"] != "enum":
            continue
        kind = old["kind"]
        c = [x for x in S.mf.find(fname) if "closure" not in x[0]]
        if len(c) != 1 or kind not in enums:
            ctx.ob("enum-args/%s" % fname, None, "%d candidates" % len(c))
            continue
        fn = S.mf.parse_item(c[0][2])
        want = {}
        for names, ops_ in old["entries"]:
            for nm in names:
                want[nm] = [o[0] for o in ops_]
        byval = {}
        for nm, v in enums[kind]["variants"]:
            byval.setdefault(v, []).append(nm)
        for al, tgt in enums[kind].get("aliases", []):
            for v, nms in byval.items():
                if tgt in nms:
                    nms.append(al)
        nbad = 0
        for v, nms in sorted(byval.items()):
            exp = []
            for nm in nms:
                if nm in want:
                    exp = want[nm]
            eng = S.engine(loop_bound=6)
            off = z3.BitVecVal(40, 64)
            mem = {("h", "p"): S.parser_value(off, None, z3.BitVecVal(1, 64))}
            try:
                res = eng.run(fn, [sym.Ref(("h", "p"), (), True), z3.BitVecVal(v, 32)], mem=mem, pc=[z3.ULE(S.LEN, 1 << 24)])
            except mir.Unsupported as ex:
                ctx.ob("enum-args/%s/%s" % (kind, nms[0]), None, "not encodable: %s" % str(ex)[:200])
                continue
            oks = [r for r in res if r.status == "return" and r.value.variant == "Ok"]
            shapes = set(tuple(o.variant for o in r.value.fields[0].items) for r in oks)
            good = shapes == {tuple(exp)}
            if good and "LiteralString" not in exp:
                for r in oks:
                    consumed = z3.simplify(r.mem[("h", "p")].fields[0].fields[1] - off)
                    good = good and z3.is_bv_value(consumed) and consumed.as_long() == 4 * len(exp)
                    good = good and payloads_are_the_words_read(S, q, r, off)
            ctx.ob("enum-args/%s/%s" % (kind, nms[0]), True if good else False, None if good else "delivers %s, pinned grammar lists %s" % (sorted(shapes), exp))
            if not good:
                real = rp.ask("operand_params %s %d" % (kind, v))
                got = [x.split("(")[0] for x in (real.get("parsed") or [])] if isinstance(real.get("parsed"), list) else real.get("parsed")
                # the words fed after the enumerant are 11, 12, 13, ...: every one-word parameter must carry the next of them
                dbg = real.get("parsed_debug") or []
                vals = [int(m_.group(1)) if m_ else None for m_ in (re.search(r"\((\d+)\)$", d_) for d_ in dbg)]
                carried = ("LiteralString" in exp) or len(vals) != len(exp) or all(v_ is None or v_ == 11 + i_ for i_, v_ in enumerate(vals))
                if got == exp and carried:
                    ctx.ob("enum-args/%s/%s/native" % (kind, nms[0]), None, "model-only deviation; the compiled crate delivers %s" % (got,))
                    continue
                if got == exp:
                    real = dict(real, parsed=dbg)
                nbad += 1
                if nbad <= 3:
                    ctx.violation("parser/enumerant-parameters/%s/%s" % (kind, nms[0]), "%s::%s: parameter parser delivers %s, the grammar lists %s" % (
                        kind, nms[0], real.get("parsed"), exp), {"cmd": "operand_params %s %d" % (kind, v), "real": real})


def mask_parameter_bits(ctx, S, q, rp):
    """Each declared bit of each parameterised mask: the parameter parser run on exactly that bit consumes the words and
    delivers the operand variants the pinned grammar lists; on 0 it consumes nothing."""
    snap = json.load(open(os.path.join(VERIF, "reference", "snapshot.json")))["operand_params"]["parse_arguments"]
    pc_ = [S.mf.parse_item(x[2]) for x in S.mf.find("parse_operand") if "autogen_parse_operand" in x[0] and "closure" not in x[0]]
    pfn = pc_[0] if len(pc_) == 1 else None
    kd = S.registry.lookup("syntax::OperandKind")
    kind_disc = dict(kd["variants"]) if kd else {}
    for fname in MASK_ARG_FNS:
        c = [x for x in S.mf.find(fname) if "closure" not in x[0]]
        if len(c) != 1:
            ctx.ob("mask-args/%s" % fname, None, "%d candidates" % len(c))
            continue
        fn = S.mf.parse_item(c[0][2])
        old = snap.get(fname)
        if old is None:
            ctx.ob("mask-args/%s" % fname, None, "not in the pinned grammar")
            continue
        kind = old["kind"]
        consts = dict(S.masks[kind]["consts"])
        want = {}
        for names, ops_ in old["entries"]:
            for nm in names:
                want[nm] = [o[0] for o in ops_]
        singles = [(n, b) for n, b in consts.items() if b and bin(b).count("1") == 1]
        # combinations: the parameters of several set bits follow one another in ascending bit order
        byval = {}
        for n, b in singles:
            byval.setdefault(b, n)
        pbits = sorted(b for b, n in byval.items() if want.get(n))
        combos = []
        if len(pbits) > 1:
            combos.append(tuple(pbits))
            for i in range(len(pbits)):
                for j in range(i + 1, len(pbits)):
                    combos.append((pbits[i], pbits[j]))
            if ctx.tier != "quick":
                for i in range(len(pbits)):
                    for j in range(i + 1, len(pbits)):
                        for k in range(j + 1, len(pbits)):
                            combos.append((pbits[i], pbits[j], pbits[k]))
            # a parameterless bit next to a parameterised one
            plain = sorted(b for b, n in byval.items() if not want.get(n))
            if plain:
                combos.append((plain[0], pbits[0]))
        seen_c = set()
        multi = []
        for cb in combos:
            cb = tuple(sorted(set(cb)))
            if len(cb) < 2 or cb in seen_c:
                continue
            seen_c.add(cb)
            nm = "+".join(byval[b] for b in cb)
            want[nm] = [o for b in cb for o in want.get(byval[b], [])]
            v = 0
            for b in cb:
                v |= b
            multi.append((nm, v))
        for nm, bitv in [("<none>", 0)] + singles + multi:
            eng = S.engine(loop_bound=6)
            off = z3.BitVecVal(40, 64)
            mem = {("h", "p"): S.parser_value(off, None, z3.BitVecVal(1, 64))}
            res = eng.run(fn, [sym.Ref(("h", "p"), (), True), z3.BitVecVal(bitv, 32)], mem=mem, pc=[z3.ULE(S.LEN, 1 << 24)])
            oks = [r for r in res if r.status == "return" and r.value.variant == "Ok"]
            exp = want.get(nm, [])
            good = len(oks) == 1
            if good:
                got = [o.variant for o in oks[0].value.fields[0].items]
                d1 = oks[0].mem[("h", "p")].fields[0]
                consumed = z3.simplify(d1.fields[1] - off)
                good = got == exp and z3.is_bv_value(consumed) and consumed.as_long() == 4 * len(exp)
                good = good and payloads_are_the_words_read(S, q, oks[0], off)
            ctx.ob("mask-args/%s/%s" % (kind, nm), True if good else False, None if good else "delivers %s, pinned grammar lists %s" % (
                [o.variant for o in oks[0].value.fields[0].items] if oks else "no Ok path", exp))
            if not good:
                real = rp.ask("operand_params %s %d" % (kind, bitv))
                ctx.violation("parser/mask-parameters/%s/%s" % (kind, nm), "%s::%s: parameter parser delivers %s, the grammar lists %s" % (
                    kind, nm, real.get("parsed"), exp), {"cmd": "operand_params %s %d" % (kind, bitv), "real": real})
                continue
            # the same through `parse_operand(kind)` itself (the arm that calls the parameter parser), with the mask word in the stream
            if pfn is not None and kind_disc.get(kind) is not None:
                eng2 = S.engine(loop_bound=6)
                mem2 = {("h", "p"): S.parser_value(off, None, z3.BitVecVal(1, 64))}
                try:
                    res2 = eng2.run(pfn, [sym.Ref(("h", "p"), (), True), z3.BitVecVal(kind_disc[kind], 64)], mem=mem2,
                                    pc=[z3.ULE(S.LEN, 1 << 24), z3.ULE(off + 4 * (2 + len(exp)), S.LEN), z3.Select(S.MEM, off) == z3.BitVecVal(bitv, 32)])
                except mir.Unsupported as ex:
                    ctx.ob("mask-args/%s/%s/via-parse_operand" % (kind, nm), None, "not encodable: %s" % str(ex)[:160])
                    continue
                oks2 = [r for r in res2 if r.status == "return" and r.value.variant == "Ok"]
                shapes2 = set(tuple(o.variant for o in r.value.fields[0].items) for r in oks2)
                good2 = shapes2 == {tuple([kind] + exp)}
                ctx.ob("mask-args/%s/%s/via-parse_operand" % (kind, nm), True if good2 else False, None if good2 else "delivers %s, expected %s" % (sorted(shapes2), [kind] + exp))
                if not good2:
                    real = rp.ask("operand_params %s %d" % (kind, bitv))
                    if real.get("parsed") == exp:
                        ctx.inconclusive.append(("mask-args/%s/%s/via-parse_operand" % (kind, nm), "model-only: the compiled crate parses %s" % real.get("parsed")))
                    else:
                        ctx.violation("parser/mask-parameters/%s/%s" % (kind, nm), "%s::%s: parse_operand delivers %s after the mask, the grammar lists %s" % (
                            kind, nm, real.get("parsed"), exp), {"cmd": "operand_params %s %d" % (kind, bitv), "real": real})
