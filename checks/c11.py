"""C11 — decoder consumes exactly what it returns and honours limits.
K: one request from an arbitrary reachable decoder state (offset % 4 == 0, offset <= len: inductive invariant, re-established
by every request), buffers of every length up to the bound (including lengths not divisible by 4), any Option<usize> limit.
One step from an arbitrary reachable state + invariant preservation covers request histories of any length on those buffers.
T: the generated typed requests all have the shape `if let Ok(word) = self.word() { <from>(word).ok_or(<Kind>Unknown(self.offset - 4, word)) } else { Err(StreamExpected(self.offset)) }`."""
import kani
import tables
from rtok import match_close, ShapeError, find_fn

LEVEL = "model_checking"

HARNESSES_QUICK = ["k_dec_word", "k_dec_words", "k_dec_bit64", "k_dec_limit", "k_dec_typed", "k_dec_string_small"]
HARNESSES_THOROUGH = ["k_dec_word", "k_dec_words", "k_dec_bit64", "k_dec_limit", "k_dec_typed", "k_dec_string_small", "k_dec_string"]


def typed_decode_shapes(ctx):
    """Every generated typed decode method delegates to word() with the one fixed shape (token level)."""
    s = tables.src("rspirv/binary/autogen_decode_operand.rs")
    t = s.toks
    enums, masks = tables.spirv_decls()
    i, n, count = 0, len(t), 0
    bad = []
    while i < n - 1:
        if t[i].v == "fn" and t[i + 1].k == "id":
            name = t[i + 1].v
            j = i
            while t[j].v != "{":
                j += 1
            k = match_close(t, j)
            body = [x.v for x in t[j + 1:k]]
            # if let Ok ( word ) = self . word ( ) { spirv :: K :: from_xxx ( word ) . ok_or ( Error :: KUnknown ( self . offset - WORD_NUM_BYTES , word , ) ) } else { Err ( Error :: StreamExpected ( self . offset ) ) }
            ok = body[:12] == ["if", "let", "Ok", "(", "word", ")", "=", "self", ".", "word", "(", ")"]
            try:
                kind = body[body.index("spirv") + 2]
                conv = body[body.index("spirv") + 4]
                unk = body[body.index("Error") + 2]
                ok = ok and conv in ("from_u32", "from_bits") and unk == kind + "Unknown"
                ok = ok and ((kind in enums and conv == "from_u32") or (kind in masks and conv == "from_bits"))
                tail = body[-14:]
                ok = ok and "StreamExpected" in tail and body.count("self") == 3
                sub = body[body.index("ok_or"):]
                ok = ok and sub[sub.index("self"):sub.index("self") + 5] == ["self", ".", "offset", "-", "WORD_NUM_BYTES"]
            except ValueError:
                ok = False
            count += 1
            ctx.ob("typed-request-shape/%s" % name, True if ok else None, None if ok else "unrecognised shape")
            if not ok:
                bad.append(name)
            i = k
        i += 1
    return count, bad


def run(ctx):
    hs = HARNESSES_QUICK if ctx.tier == "quick" else HARNESSES_THOROUGH
    ctx.bounds += ["buffers of every length 0..=12 bytes (string request: 0..=6 in the quick tier, 0..=12 thorough), any content",
                   "any limit: None or Some(any usize); any word-aligned offset <= len",
                   "requests: word/id/bit32/ext_inst_integer, words(n<=3), bit64, string, set_limit(n<=127)/clear_limit/has_limit/limit_reached, three typed requests"]
    ctx.assumptions += ["reachable-state invariant offset % 4 == 0 && offset <= len (checked to be preserved by every request)",
                        "outside the bound: buffers longer than 12 bytes",
                        "typed requests: three are run through Kani, the others are shown to have the identical generated shape (token level)"]
    ctx.trusted += ["Kani 0.68 / CBMC 6.11 with unwinding assertions", "hook Decoder::verif_at (constructs the state, changes no code)"]
    ctx.functions.update(["rspirv::binary::Decoder::{word,words,id,bit32,bit64,ext_inst_integer,string,set_limit,clear_limit,has_limit,limit_reached,offset}",
                          "Decoder::{source_language,function_control,addressing_model}"])
    count, bad = typed_decode_shapes(ctx)
    ctx.extra["typed_requests_same_shape"] = count - len(bad)
    res = kani.run_many(hs, cap_s=420 if ctx.tier == "quick" else 2400)
    kani.settle(ctx, res, lambda h: h[2:])
    ctx.extra["states"] = sum(r.checks_total for r in res.values()) or 1
    ctx.extra["transitions"] = len(hs)
    ctx.extra["harness_times_s"] = {h: round(r.time, 1) for h, r in res.items()}
    ctx.extra["explanation"] = "Each harness: raw:[u8;N] = kani::any() encodes (buffer, length, offset, limit, request); CBMC decides the post-conditions for all values."
