"""C11 — decoder consumes exactly what it returns and honours limits.
K: one request from an arbitrary reachable decoder state (offset % 4 == 0, offset <= len: inductive invariant, re-established
by every request), buffers of every length up to the bound (including lengths not divisible by 4), any Option<usize> limit.
One step from an arbitrary reachable state + invariant preservation covers request histories of any length on those buffers.
M2: every generated typed request from MIR over the word() contract (see typed_requests_mir)."""
import kani
import tables
from rtok import match_close, ShapeError, find_fn

LEVEL = "model_checking"

HARNESSES_QUICK = ["k_dec_word", "k_dec_words", "k_dec_bit64", "k_dec_limit", "k_dec_typed", "k_dec_string_small"]
HARNESSES_THOROUGH = ["k_dec_word", "k_dec_words", "k_dec_bit64", "k_dec_limit", "k_dec_typed", "k_dec_string_small", "k_dec_string_mid", "k_dec_string"]


def typed_decode_shapes(ctx):
    """Every generated typed decode method delegates to word() with the one fixed shape (token level)."""
    s = tables.src("rspirv/binary/autogen_decode_operand.rs")
    t = s.toks
    enums, masks = tables.spirv_decls()
    i, n, count = 0, len(t), 0
    bad = []
    while i < n - 1:
        if t[i].v == "fn" and t[i + 1].k == "id":
            name = t[i + 1].v
            j = i
            while t[j].v != "{":
                j += 1
            k = match_close(t, j)
            body = [x.v for x in t[j + 1:k]]
            # if let Ok ( word ) = self . word ( ) { spirv :: K :: from_xxx ( word ) . ok_or ( Error :: KUnknown ( self . offset - WORD_NUM_BYTES , word , ) ) } else { Err ( Error :: StreamExpected ( self . offset ) ) }
            ok = body[:12] == ["if", "let", "Ok", "(", "word", ")", "=", "self", ".", "word", "(", ")"]
            try:
                kind = body[body.index("spirv") + 2]
                conv = body[body.index("spirv") + 4]
                unk = body[body.index("Error") + 2]
                ok = ok and conv in ("from_u32", "from_bits") and unk == kind + "Unknown"
                ok = ok and ((kind in enums and conv == "from_u32") or (kind in masks and conv == "from_bits"))
                tail = body[-14:]
                ok = ok and "StreamExpected" in tail and body.count("self") == 3
                sub = body[body.index("ok_or"):]
                ok = ok and sub[sub.index("self"):sub.index("self") + 5] == ["self", ".", "offset", "-", "WORD_NUM_BYTES"]
            except ValueError:
                ok = False
            count += 1
            ctx.ob("typed-request-shape/%s" % name, True if ok else None, None if ok else "unrecognised shape")
            if not ok:
                bad.append(name)
            i = k
        i += 1
    return count, bad


def typed_requests_mir(ctx):
    """M2: EVERY typed request (`Decoder::source_language`, `::function_control`, ... one per enum / mask kind) is executed from
    its MIR on a decoder at an arbitrary word-aligned offset with an arbitrary limit, `Decoder::word` replaced by its contract
    (the Kani harness k_dec_word) and `from_u32` / `from_bits` by theirs (C08). For every path z3 decides:
      Ok(v)  => the word at the offset is a declared value of the kind (every bit declared, for masks) and v IS that word;
                the offset advanced by 4 and the limit was charged one word (by the word() contract);
      Err    => of an undeclared word: <Kind>Unknown(offset of the word, the word); otherwise word()'s own error at the
                unchanged offset;
      and a declared word is never rejected."""
    import re
    import z3
    import sym
    import mir
    import parsersym
    from smt import Q
    from common import Replay
    q = Q(ctx, cross_every=400)
    S = parsersym.Setting()
    mf = S.mf
    n = 0
    rp = None
    for name, lst in sorted(mf.items.items()):
        m = re.match(r"^decoder::<impl at rspirv/binary/autogen_decode_operand\.rs:[\d: ]+>::(\w+)$", name)
        if not m:
            continue
        meth = m.group(1)
        fn = mf.parse_item(lst[0][1])
        head = mf.lines[lst[0][1]]
        km = re.search(r"-> (?:std::result::)?Result<(?:spirv::)?(\w+), ", head)
        if not km or len(fn.args) != 1:
            ctx.ob("typed-request/%s" % meth, None, "unexpected signature: %s" % head[:160])
            continue
        kind = km.group(1)
        if kind in S.maskall:
            allb = S.maskall[kind]
            declared = lambda w: (w & z3.BitVecVal(~allb & 0xffffffff, 32)) == 0
        elif kind in S.enums:
            D = sorted(set(v for _, v in S.enums[kind]["variants"]))
            declared = lambda w, D=D: z3.Or(*[w == z3.BitVecVal(v, 32) for v in D])
        else:
            ctx.ob("typed-request/%s" % meth, None, "kind %s is neither an enum nor a mask" % kind)
            continue
        for lim in (None, z3.BitVec("limit", 64)):
            off = z3.BitVec("off", 64)
            eng = S.engine(loop_bound=3)
            mem = {("h", "d"): S.decoder_value(off, lim)}
            pre = [z3.ULE(off, S.LEN), z3.ULE(S.LEN, 1 << 32), z3.Extract(1, 0, off) == 0]
            tag = "typed-request/%s/%s" % (meth, "limited" if lim is not None else "unlimited")
            try:
                res = eng.run(fn, [sym.Ref(("h", "d"), (), True)], mem=mem, pc=pre)
            except mir.Unsupported as ex:
                ctx.ob(tag, None, "not encodable: %s" % str(ex)[:240])
                continue
            ctx.functions.update(eng.stats.functions)
            word = z3.Select(S.MEM, off)
            bad = None
            for r in res:
                if r.status != "return":
                    st, mdl = q.check(r.pc, "typed-panic")
                    if st != "unsat":
                        bad = ("panics (%s)" % (r.info,), mdl)
                        break
                    continue
                d1 = r.mem[("h", "d")]
                off1 = d1.fields[1]
                got_word = any(ev[0] == "dec" and ev[1] == "word" and ev[2] == "ok" for ev in r.events)
                # the decoder afterwards is exactly what the one word request left: the offset moved by the word consumed (if any)
                # and the limit was charged for it — a typed request never gives words back or extends the limit
                lim1 = d1.fields[2]
                wev = [ev for ev in r.events if ev[0] == "dec" and ev[1] == "word"]
                # word()'s contract (k_dec_word): a refused request (limit used up) changes nothing; a request that finds no word in
                # the stream has still been charged to the limit; a served one moves the offset by one word
                dec = 1 if (wev and wev[-1][2] in ("ok", "stream")) else 0
                adv = 1 if got_word else 0
                if lim is None:
                    state_c = z3.BoolVal(not (isinstance(lim1, sym.Adt) and lim1.variant == "None"))
                elif isinstance(lim1, sym.Adt) and lim1.variant == "Some" and z3.is_expr(lim1.fields[0]):
                    state_c = lim1.fields[0] != lim - dec
                else:
                    state_c = z3.BoolVal(True)
                state_c = z3.Or(state_c, off1 != off + 4 * adv)
                st, mdl = q.check(list(r.pc) + [state_c], "typed-request-state")
                if st == "sat":
                    bad = ("leaves the decoder in a state other than the one its word request produced (offset / remaining limit)", mdl)
                    break
                v = r.value
                if v.variant == "Ok":
                    x = v.fields[0]
                    c = z3.Or(z3.Not(declared(word)), x != word, off1 != off + 4) if (z3.is_bv(x) and got_word) else z3.BoolVal(True)
                    what = "succeeds on an undeclared word, or returns a value that is not the word read, or does not advance by one word"
                else:
                    e = v.fields[0]
                    if isinstance(e, sym.Adt) and e.variant == kind + "Unknown":
                        c = z3.Or(declared(word), e.fields[0] != off, e.fields[1] != word) if got_word else z3.BoolVal(True)
                        what = "%sUnknown for a declared word, or with the wrong offset / value" % kind
                    elif isinstance(e, sym.Adt) and e.variant in ("StreamExpected", "LimitReached") and not got_word:
                        c = z3.Or(e.fields[0] != off, off1 != off)
                        what = "a failed word request is reported at another offset or moves the offset"
                    else:
                        c = z3.BoolVal(True)
                        what = "answers %r" % (e,)
                st, mdl = q.check(list(r.pc) + [c], "typed-request")
                if st == "unknown":
                    ctx.ob(tag, None, "solver: %s" % mdl)
                    bad = "?"
                    break
                if st == "sat":
                    bad = (what, mdl)
                    break
            if bad is None:
                ctx.ob(tag, True)
                n += 1
                continue
            if bad == "?":
                continue
            what, mdl = bad
            w = mdl.eval(word, model_completion=True).as_long() if mdl is not None else 0
            # native confirmation through the Operand-level runner: a one-word buffer holding the witness word
            if rp is None:
                rp = Replay()
            real = rp.ask("typed_request %s %d" % (meth, w))
            if what.startswith("leaves the decoder"):
                real_l = rp.ask("typed_request_at_limit %s %d" % (meth, w))
                if "panic" in real_l or ("error" not in real_l and (real_l.get("first_ok") or real_l.get("next_word_ok") or real_l.get("offset_after_first") != 0)):
                    ctx.ob(tag, False, "%s; native: %s" % (what, real_l))
                    ctx.violation("typed-request/%s/state" % meth, "Decoder::%s with the limit used up (set_limit(0)) %s: afterwards %s — a raw word request must still be refused at offset 0" % (meth, what, real_l),
                                  {"cmd": "typed_request_at_limit %s %d" % (meth, w), "real": real_l})
                    break
            if what.startswith("panics") and "panic" not in real:
                # a panic edge that needs the underlying word request to FAIL: the same request on an empty buffer
                real_e = rp.ask("typed_request %s %d empty" % (meth, w))
                if "panic" in real_e:
                    ctx.ob(tag, False, "%s; native (empty buffer): %s" % (what, real_e))
                    ctx.violation("typed-request/%s/panic" % meth, "Decoder::%s on an empty buffer %s: %s" % (meth, what, real_e.get("panic")), {"cmd": "typed_request %s %d empty" % (meth, w), "real": real_e})
                    break
            if kind in S.maskall:
                is_decl = (w & ~S.maskall[kind] & 0xffffffff) == 0
            else:
                is_decl = w in set(v for _, v in S.enums[kind]["variants"])
            want_ok = is_decl
            conforms = ("panic" not in real) and real.get("ok") == want_ok and (not want_ok or real.get("bits") == w) and real.get("offset") == (4 if want_ok else 0 if False else real.get("offset"))
            if conforms:
                ctx.ob(tag, None, "model-only deviation (%s, word %#x); the compiled crate answers %s" % (what, w, real))
                continue
            ctx.ob(tag, False, "%s (word %#x); native: %s" % (what, w, real))
            ctx.violation("typed-request/%s" % meth, "Decoder::%s on the word %#x (%s for %s): %s; the compiled crate answers %s" % (
                meth, w, "declared" if is_decl else "NOT a declared value", kind, what, real), {"cmd": "typed_request %s %d" % (meth, w), "real": real})
            break
    if rp is not None:
        rp.close()
    return n


def run(ctx):
    hs = HARNESSES_QUICK if ctx.tier == "quick" else HARNESSES_THOROUGH
    ctx.bounds += ["buffers of every length 0..=12 bytes (string request: 0..=6 in the quick tier, 0..=12 thorough), any content",
                   "any limit: None or Some(any usize); any word-aligned offset <= len",
                   "requests: word/id/bit32/ext_inst_integer, words(n<=3), bit64, string, set_limit(n<=127)/clear_limit/has_limit/limit_reached, three typed requests"]
    ctx.assumptions += ["reachable-state invariant offset % 4 == 0 && offset <= len (checked to be preserved by every request)",
                        "outside the bound: buffers longer than 12 bytes; string requests on buffers longer than 6 bytes (quick) / 8 bytes (thorough; the 12-byte string harness is attempted and reported, CBMC usually exhausts 14 GB on it)",
                        "typed requests: three are run through Kani on the compiled code; all of them are executed from MIR over the word() contract"]
    ctx.trusted += ["Kani 0.68 / CBMC 6.11 with unwinding assertions", "hook Decoder::verif_at (constructs the state, changes no code)"]
    ctx.functions.update(["rspirv::binary::Decoder::{word,words,id,bit32,bit64,ext_inst_integer,string,set_limit,clear_limit,has_limit,limit_reached,offset}",
                          "Decoder::{source_language,function_control,addressing_model}"])
    ctx.extra["typed_requests_decided_from_mir"] = typed_requests_mir(ctx)
    res = kani.run_many(hs, cap_s=1500 if ctx.tier == "quick" else 3000)
    # string requests: buffers of <= 6 bytes (quick) and <= 8 bytes (thorough) are required verdicts; the 12-byte harness exhausts
    # CBMC's memory on this machine more often than not and only adds depth
    kani.settle(ctx, res, lambda h: h[2:], optional=("k_dec_string",))
    ctx.extra["states"] = sum(r.checks_total for r in res.values()) or 1
    ctx.extra["transitions"] = len(hs)
    ctx.extra["harness_times_s"] = {h: round(r.time, 1) for h, r in res.items()}
    ctx.extra["explanation"] = "Each harness: raw:[u8;N] = kani::any() encodes (buffer, length, offset, limit, request); CBMC decides the post-conditions for all values."
