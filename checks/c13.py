"""C13 — Builder id discipline: fresh ids, exact bound, deduplicated implicit types.

M2 (a) every Builder method (all ~1170) is executed symbolically from MIR from three selection states with the id counter
        symbolic: the counter never decreases on any path (including failing ones); a method that hands out an id either
        returns the explicit id it was given (counter unchanged) or the old counter value (counter advanced by exactly one);
        any other step of the counter is reported. By induction: ids are pairwise distinct, strictly increasing, and below the counter.
   (b) every type method (generated `type_*_id` and `type_pointer`): request -> (explicit id: appended with that id) /
        (an earlier declaration with identical opcode and operands: its id, nothing appended) / (otherwise appended with a
        fresh id), decided by z3 over symbolic operands on a module that already holds one declaration made by the same method.
K  `new()` starts at 1, `new_from_module` at the header bound, `module()` writes bound = next id (harness k_builder_module)."""
import re
import z3
import sym
import mir
import tables
import reg as regmod
import bsweep
import kani
import c12 as base
import c05
import itermodels
from common import mir_path, Inconclusive, Replay
from smt import Q

LEVEL = "model_checking"


def opaque_eq(a, b):
    return z3.Bool("eq(%s,%s)" % tuple(sorted([a, b])))


def args_equal(engine, st, a1, a2):
    """z3 Bool: the two argument lists denote the same request."""
    terms = []
    for x, y in zip(a1, a2):
        if isinstance(x, sym.Sym) and isinstance(y, sym.Sym):
            terms.append(opaque_eq(x.name, y.name))
        elif isinstance(x, sym.Adt) and isinstance(y, sym.Adt) and x.ty == "Option":
            if x.variant != y.variant:
                return z3.BoolVal(False)
            if x.variant == "Some":
                terms.append(args_equal(engine, st, [x.fields[0]], [y.fields[0]]))
        else:
            terms.append(x == y)
    return z3.And(*terms) if terms else z3.BoolVal(True)


def type_identity(ctx, q, mf, ms, registry, rp, maxn):
    """`Instruction::is_type_identical` = 'the same opcode and operands': executed from MIR on two declarations with n1, n2
    (each 0..maxn) opaque operands under an uninterpreted operand equality, arbitrary opcodes, result types and result ids."""
    fn = mf.get("is_type_identical", kind="fn")
    opA, opB = z3.BitVec("opA", 32), z3.BitVec("opB", 32)

    def cls(op):
        return sym.Adt("grammar::Instruction", None, [sym.StrV("?"), op, sym.Sym("caps", "&[Capability]"), sym.Sym("exts", "&[&str]"),
                                                      sym.Sym("ops", "&[LogicalOperand]")])
    for n1 in range(maxn + 1):
        for n2 in range(maxn + 1):
            eng = sym.Engine([mf, ms], registry, models=itermodels.MODELS + base.MODELS + bsweep.EXTRA_MODELS, eager=True, loop_bound=maxn + 2)
            A = [sym.Sym("a%d" % i, "Operand") for i in range(n1)]
            B = [sym.Sym("b%d" % i, "Operand") for i in range(n2)]
            mem = {("h", "clsA"): cls(opA), ("h", "clsB"): cls(opB),
                   ("h", "a"): sym.Adt("constructs::Instruction", None, [sym.Ref(("h", "clsA")), base.some(z3.BitVec("rtA", 32)), base.some(z3.BitVec("ridA", 32)), base.vec(A)]),
                   ("h", "b"): sym.Adt("constructs::Instruction", None, [sym.Ref(("h", "clsB")), base.some(z3.BitVec("rtB", 32)), base.some(z3.BitVec("ridB", 32)), base.vec(B)])}
            tag = "type-identity/%d-vs-%d-operands" % (n1, n2)
            try:
                res = eng.run(fn, [sym.Ref(("h", "a")), sym.Ref(("h", "b"))], mem=mem)
            except mir.Unsupported as ex:
                ctx.ob(tag, None, "not encodable: %s" % str(ex)[:300])
                return
            ctx.functions.update(eng.stats.functions)
            atoms = [sym.struct_eq(eng, None, A[i], B[i]) for i in range(min(n1, n2))]
            spec = z3.And(opA == opB, *atoms) if n1 == n2 else z3.BoolVal(False)
            bad = None
            for r in res:
                if r.status != "return":
                    st_, m = q.check(r.pc, "type-identity-panic")
                    if st_ != "unsat":
                        bad = ("ends in %s" % r.status, m)
                        break
                    continue
                v = r.value if z3.is_bool(r.value) else r.value != 0
                st_, m = q.check(r.pc + [v != spec], "type-identity")
                if st_ == "unknown":
                    ctx.ob(tag, None, "solver: %s" % m)
                    return
                if st_ == "sat":
                    bad = ("answers %s" % m.eval(v, model_completion=True), m)
                    break
            if bad is None:
                ctx.ob(tag, True)
                continue
            m = bad[1]
            same_op = m is not None and z3.is_true(m.eval(opA == opB, model_completion=True))
            ida, idb = [], []
            for i in range(max(n1, n2)):
                eq = i < len(atoms) and m is not None and z3.is_true(m.eval(atoms[i], model_completion=True))
                if i < n1:
                    ida.append(10 + i)
                if i < n2:
                    idb.append(10 + i if eq else 100 + i)
            cmd = "type_identical 30 %s %d %s" % (",".join(map(str, ida)) or "-", 30 if same_op else 33, ",".join(map(str, idb)) or "-")
            real = rp.ask(cmd)
            want = same_op and ida == idb
            if real.get("identical") == want and real.get("reverse") == want:
                ctx.ob(tag, None, "model-only deviation (%s); the compiled crate answers %s as it should" % (bad[0], real))
                continue
            ctx.ob(tag, False, "%s; compiled crate: %s, expected %s" % (bad[0], real, want))
            ctx.violation("builder-types/identity", "is_type_identical on declarations with operands %s and %s (%s opcode) %s; 'identical' must mean the same opcode "
                          "and the same operand list — the compiled crate answers %s" % (ida, idb, "same" if same_op else "different", bad[0], real), {"cmd": cmd, "real": real, "expected": want})
            return


def run(ctx):
    q = Q(ctx, cross_every=500)
    registry = regmod.build_registry()
    mf = mir.MirFile(mir_path("rspirv"))
    ms = mir.MirFile(mir_path("spirv"))
    fields = {
        "Module": c05.struct_fields("rspirv/dr/constructs.rs", "Module"),
        "Function": c05.struct_fields("rspirv/dr/constructs.rs", "Function"),
        "Block": c05.struct_fields("rspirv/dr/constructs.rs", "Block"),
        "Builder": c05.struct_fields("rspirv/dr/build/mod.rs", "Builder"),
    }
    bidx = {n: i for i, n in enumerate(fields["Builder"])}
    sigs = {s["name"]: s for s in tables.builder_signatures()}
    ctx.bounds += ["id counter any u32 in 1..=0xfffffff0; one call per state (inductive step) for every Builder method from three selection states",
                   "type requests: module holding one earlier declaration made by the same method with symbolic operands; request with fresh symbolic operands, explicit or implicit id"]
    ctx.assumptions += ["CoreInstructionTable::get replaced by its contract (C09)", "outside: u32 wrap of the counter; opaque iterator/string arguments are compared by an uninterpreted equality",
                        "'no duplicate types in a module built only from implicit requests' is the inductive corollary of (b), not re-checked over histories"]
    ctx.trusted += ["rustc MIR", "mirsym and its std models", "z3", "Kani/CBMC for the module()/new()/new_from_module harness"]
    nid = z3.BitVec("next_id", 32)
    pre = [z3.UGE(nid, 1), z3.ULE(nid, 0xfffffff0)]
    rp = Replay()
    methods = bsweep.builder_methods(mf)
    skip = {"verif_from_parts", "verif_next_id", "module", "module_ref", "module_mut", "new_from_module", "find_return_block_indices",
            "select_function_by_name"}
    nchecked = 0
    for name, file, line in methods:
        if name in skip:
            continue
        fn = mf.parse_item(line)
        sig = sigs.get(name, {"ret": ""})
        returns_id = "Word" in sig["ret"] or name == "id"
        for sel in ((None, None), (0, None), (0, 0)):
            eng = sym.Engine([mf, ms], registry, models=base.MODELS + bsweep.EXTRA_MODELS, eager=True, loop_bound=4)
            combos = bsweep.signature_args(eng, fn, max_combos=3 if ctx.tier == "quick" else 6)
            for args in combos:
                args = list(args)
                b0 = base.make_state((1, 1, 0, 1), sel[0], sel[1], nid, fields)
                try:
                    res = eng.run(fn, [sym.Ref(("h", "b"), (), True)] + args, mem={("h", "b"): b0}, pc=list(pre))
                except mir.Unsupported as ex:
                    ctx.ob("ids/%s/encodable" % name, None, str(ex)[:300])
                    break
                ctx.functions.add("dr::Builder::" + name)
                explicit = [a.fields[0] for a in args if isinstance(a, sym.Adt) and a.ty == "Option" and a.variant == "Some" and z3.is_bv(a.fields[0]) and a.fields[0].size() == 32]
                for r in res:
                    nchecked += 1
                    if r.status != "return":
                        continue          # panics are C12's subject
                    b1 = r.mem[("h", "b")]
                    n1 = b1.fields[bidx["next_id"]]
                    bad = None
                    st, m = q.check(r.pc + [z3.ULT(n1, nid)], "counter-monotone")
                    if st == "sat":
                        bad = ("id-counter-went-back", "the id counter decreases", m)
                    elif st != "unsat":
                        ctx.ob("ids/%s" % name, None, m)
                        continue
                    if bad is None:
                        st, m = q.check(r.pc + [n1 != nid, n1 != nid + 1], "counter-step")
                        if st == "sat":
                            bad = ("id-counter-step", "the id counter moves by something other than 0 or 1", m)
                    val = r.value
                    ok = not (isinstance(val, sym.Adt) and val.variant == "Err")
                    rid = None
                    if returns_id and ok:
                        rid = val.fields[0] if isinstance(val, sym.Adt) and val.variant == "Ok" else val
                    if bad is None and rid is not None and z3.is_bv(rid) and rid.size() == 32:
                        # returned id: an explicit id (counter unchanged) or the old counter (counter + 1)
                        legal = [z3.And(rid == nid, n1 == nid + 1)] + [z3.And(rid == e, n1 == nid) for e in explicit]
                        # type methods may also return the id of an earlier identical declaration (counter unchanged)
                        if name.startswith("type_"):
                            legal.append(n1 == nid)
                        st, m = q.check(r.pc + [z3.Not(z3.Or(*legal))], "returned-id")
                        if st == "sat":
                            bad = ("returned-id-not-fresh", "returns an id that is neither the explicit one nor the old counter value (or the counter does not advance by one)", m)
                    if bad is None:
                        ctx.ob("ids/%s" % name, True)
                        continue
                    w = bad[2].eval(nid, model_completion=True).as_long()
                    # native confirmation: the same call on the compiled crate from the same selection state and counter value
                    state = 0 if sel == (None, None) else (1 if sel == (0, None) else 2)
                    confirmed = None
                    for mode in ("explicit", "implicit", "lastid"):
                        real = rp.ask("builder_ids %s %d %d %s" % (name, state, w, mode))
                        if "error" in real:
                            continue
                        after, before = real.get("next_id_after"), real.get("next_id_before")
                        res_s = str(real.get("result", ""))
                        mid = re.search(r"id:(\d+)", res_s)
                        wrong = after < before or after - before > 1
                        if mid and not wrong:
                            rid_n = int(mid.group(1))
                            if after == before + 1 and rid_n != before and not name.startswith("type_"):
                                wrong = True
                            if rid_n == before and after == before:
                                wrong = True        # the next unused id was handed out but stays 'unused': it will be handed out again
                        if wrong:
                            confirmed = (mode, real)
                            break
                    if confirmed is None and "panic" not in str(real):
                        ctx.ob("ids/%s" % name, None, "model reports '%s' (next_id=%d, selection %s) but the compiled crate conforms: %s" % (bad[1], w, sel, str(real)[:200]))
                        continue
                    ctx.ob("ids/%s" % name, False, "%s (next_id=%d, selection %s)" % (bad[1], w, sel))
                    ctx.violation("builder-ids/%s/%s" % (name, bad[0]),
                                  "Builder::%s from selection %s with next_id=%d: %s (returns %r, counter afterwards %s)" % (name, sel, w, bad[1], val, z3.simplify(z3.substitute(n1, (nid, z3.BitVecVal(w, 32))))),
                                  {"cmd": "builder_ids %s %d %d %s" % (name, state, w, confirmed[0] if confirmed else "explicit"), "real": confirmed[1] if confirmed else real})
    # ---- the identity the deduplication rests on
    type_identity(ctx, q, mf, ms, registry, rp, 3 if ctx.tier == "quick" else 5)
    # ---- type requests
    type_methods = [(n, f, l) for n, f, l in methods if (f == "autogen_type" and n.endswith("_id")) or n == "type_pointer"]
    for name, file, line in type_methods:
        fn = mf.parse_item(line)
        eng = sym.Engine([mf, ms], registry, models=base.MODELS + bsweep.EXTRA_MODELS, eager=True, loop_bound=6)
        a1 = [bsweep.synth(eng, ty, "first" + loc)[-1] if not ty.startswith("std::option::Option<u32>") and not ty.startswith("Option<u32>") else sym.Adt("Option", "None", [])
              for loc, ty in fn.args[1:]]
        b0 = base.make_state((0, 0, 0, 0), None, None, nid, fields)
        # the module already holds a constant (an instruction WITH a result type) before the declarations: types and values interleave
        tgv = fields["Module"].index("types_global_values")
        cclass = sym.Adt("grammar::Instruction", None, [sym.StrV("Constant"), z3.BitVecVal(43, 32), sym.Sym("c", "&[Capability]"), sym.Sym("e", "&[&str]"), sym.Sym("o", "&[LogicalOperand]")])
        prefix = [sym.Adt("constructs::Instruction", None, [sym.Ref(("h", "cclass"), ()), base.some(z3.BitVec("c_rt", 32)), base.some(z3.BitVec("c_id", 32)),
                                                            base.vec([sym.Adt("dr::constructs::Operand", "LiteralBit32", [z3.BitVec("c_v", 32)])])])]
        # ... preceded by a declaration WITHOUT a result id (a hand-made or continued module may hold one) whose opcode and operands
        # are arbitrary — possibly those of the request: it can never be the answer to a request, and must not stop the search
        pclass = sym.Adt("grammar::Instruction", None, [sym.StrV("?"), z3.BitVec("idless_opcode", 32), sym.Sym("c", "&[Capability]"), sym.Sym("e", "&[&str]"), sym.Sym("o", "&[LogicalOperand]")])
        idless = sym.Adt("constructs::Instruction", None, [sym.Ref(("h", "pclass"), ()), base.none(), base.none(), base.vec([])])   # (no operands: it can coincide with the operand-less type requests; inserted before the SECOND request)
        P_ = len(prefix)
        mod0 = b0.fields[bidx["module"]]
        mf0 = list(mod0.fields)
        mf0[tgv] = base.vec(prefix)
        # ... and a decoration and a debug name whose target id is arbitrary (possibly the id of the declaration about to be made):
        # what else the module holds must not influence a type request
        dclass = sym.Adt("grammar::Instruction", None, [sym.StrV("Decorate"), z3.BitVecVal(71, 32), sym.Sym("c", "&[Capability]"), sym.Sym("e", "&[&str]"), sym.Sym("o", "&[LogicalOperand]")])
        nclass = sym.Adt("grammar::Instruction", None, [sym.StrV("Name"), z3.BitVecVal(5, 32), sym.Sym("c", "&[Capability]"), sym.Sym("e", "&[&str]"), sym.Sym("o", "&[LogicalOperand]")])
        for fld_, cls_, ops__ in (("annotations", "dclass", [sym.Adt("dr::constructs::Operand", "IdRef", [z3.BitVec("deco_target", 32)]), sym.Adt("dr::constructs::Operand", "Decoration", [z3.BitVec("deco", 32)])]),
                                  ("debug_names", "nclass", [sym.Adt("dr::constructs::Operand", "IdRef", [z3.BitVec("name_target", 32)]), sym.Adt("dr::constructs::Operand", "LiteralString", [sym.StrV("n")])])):
            if fld_ in fields["Module"]:
                mf0[fields["Module"].index(fld_)] = base.vec([sym.Adt("constructs::Instruction", None, [sym.Ref(("h", cls_), ()), base.none(), base.none(), base.vec(ops__)])])
        bf0 = list(b0.fields)
        bf0[bidx["module"]] = sym.Adt(mod0.ty, None, mf0)
        b0 = sym.Adt(b0.ty, None, bf0)
        try:
            r1 = [r for r in eng.run(fn, [sym.Ref(("h", "b"), (), True)] + a1, mem={("h", "b"): b0, ("h", "cclass"): cclass, ("h", "dclass"): dclass, ("h", "nclass"): nclass, ("h", "pclass"): pclass}, pc=list(pre)) if r.status == "return"]
        except mir.Unsupported as ex:
            ctx.ob("types/%s/encodable" % name, None, str(ex)[:300])
            continue
        if len(r1) != 1:
            ctx.ob("types/%s/first-request" % name, None, "%d paths" % len(r1))
            continue
        b1 = r1[0].mem[("h", "b")]
        n_after_first = len(b1.fields[bidx["module"]].fields[tgv].items)
        st, m = q.check(r1[0].pc + [z3.Or(r1[0].value != nid, b1.fields[bidx["next_id"]] != nid + 1)], "first-type-request")
        ok1 = st == "unsat" and n_after_first == P_ + 1
        ctx.ob("types/%s/first-request-appends-fresh" % name, True if ok1 else False)
        if not ok1:
            ctx.violation("builder-types/%s/first-request" % name, "%s on an empty module does not append one declaration with the fresh id" % name, {"method": name})
            continue
        has_id_param = any(ty.startswith("std::option::Option<u32>") or ty.startswith("Option<u32>") for _, ty in fn.args[1:])
        for explicit in ((False, True) if has_id_param else (False,)):
            eng2 = sym.Engine([mf, ms], registry, models=base.MODELS + bsweep.EXTRA_MODELS, eager=True, loop_bound=6)
            w = z3.BitVec("explicit_id", 32)
            a2 = []
            for loc, ty in fn.args[1:]:
                if ty.startswith("std::option::Option<u32>") or ty.startswith("Option<u32>"):
                    a2.append(sym.Adt("Option", "Some", [w]) if explicit else sym.Adt("Option", "None", []))
                else:
                    a2.append(bsweep.synth(eng2, ty, "second" + loc)[-1])
            mem2 = dict(r1[0].mem)
            bb = mem2[("h", "b")]
            mm = bb.fields[bidx["module"]]
            mmf = list(mm.fields)
            mmf[tgv] = base.vec([idless] + list(mmf[tgv].items))
            bbf = list(bb.fields)
            bbf[bidx["module"]] = sym.Adt(mm.ty, None, mmf)
            mem2[("h", "b")] = sym.Adt(bb.ty, None, bbf)
            P2 = P_ + 1
            res2 = eng2.run(fn, [sym.Ref(("h", "b"), (), True)] + a2, mem=mem2, pc=list(r1[0].pc))
            same_req = args_equal(eng2, None, [x for x in a1 if not (isinstance(x, sym.Adt) and x.ty == "Option" and not x.fields and False)],
                                  [y for y in a2])
            # compare only the non-id arguments
            pairs = [(x, y) for (x, y), (loc, ty) in zip(zip(a1, a2), fn.args[1:]) if not (ty.startswith("std::option::Option<u32>") or ty.startswith("Option<u32>"))]
            same_req = args_equal(eng2, None, [p[0] for p in pairs], [p[1] for p in pairs])
            for r in res2:
                if r.status != "return":
                    ctx.ob("types/%s/%s" % (name, "explicit" if explicit else "implicit"), None, "path ends in %s" % r.status)
                    continue
                b2 = r.mem[("h", "b")]
                n2 = len(b2.fields[bidx["module"]].fields[tgv].items)
                nxt = b2.fields[bidx["next_id"]]
                # struct_eq on opaque operands introduces eq(...) atoms with the same naming; tie them to same_req through the path condition
                if explicit:
                    cond = z3.Or(r.value != w, nxt != nid + 1) if n2 == P2 + 2 else z3.BoolVal(True)
                    if n2 == P2 + 2:
                        last = b2.fields[bidx["module"]].fields[tgv].items[-1]
                        rid = last.fields[2]
                        cond = z3.Or(cond, rid.fields[0] != w) if rid.variant == "Some" else z3.BoolVal(True)
                    st, m = q.check(r.pc + [cond], "explicit-type-request")
                    good = st == "unsat"
                    what = "a request with an explicit id must append a declaration carrying that id"
                elif n2 == P2 + 1:
                    st, m = q.check(r.pc + [z3.Or(r.value != nid, nxt != nid + 1, z3.Not(same_req))], "dedup-type-request")
                    good = st == "unsat"
                    what = "nothing appended: must be an identical request and return the earlier id without touching the counter"
                else:
                    last = b2.fields[bidx["module"]].fields[tgv].items[-1]
                    rid = last.fields[2]
                    c = z3.Or(r.value != nid + 1, nxt != nid + 2, same_req)
                    if rid.variant == "Some":
                        c = z3.Or(c, rid.fields[0] != nid + 1)
                    else:
                        c = z3.BoolVal(True)
                    st, m = q.check(r.pc + [c], "fresh-type-request")
                    good = st == "unsat"
                    what = "appended: must be a different request, carry the fresh id and advance the counter by one"
                tag = "types/%s/%s/%s" % (name, "explicit" if explicit else "implicit", "appended" if n2 == P2 + 2 else "deduplicated")
                if good:
                    ctx.ob(tag, True)
                else:
                    ctx.ob(tag, False if st == "sat" else None, what)
                    if st == "sat":
                        role = "builder-types/%s/%s" % (name, "explicit-id" if explicit else ("dedup" if n2 == P2 + 1 else "fresh"))
                        msg = "Builder::%s, second request (%s id) on a module holding a constant and one declaration: %s" % (name, "explicit" if explicit else "implicit", what)
                        if explicit:
                            real = rp.ask("builder_ids %s 0 50 explicit" % name)
                            mid_ = re.search(r"id:(\d+)", str(real.get("result", "")))
                            # ... and the history 'implicit request, then the same request with an explicit id': a declaration must be appended
                            real2 = rp.ask("builder_type_twice %s explicit" % name)
                            appended = "error" in real2 or ("panic" not in real2 and real2.get("n2") == real2.get("n1", 0) + 1)
                            real = dict(real, twice=real2)
                            if "error" in real or ("panic" not in real and appended and real.get("next_id_after") == real.get("next_id_before") and mid_ and int(mid_.group(1)) != 50):
                                ctx.inconclusive.append((tag, "model-only deviation (%s); the compiled crate answers %s" % (what, real)))
                            else:
                                ctx.violation(role, msg + "; on the compiled crate: %s" % real, {"cmd": "builder_ids %s 0 50 explicit" % name, "real": real})
                        else:
                            # native confirmation: the identical implicit request twice must give one declaration and the same id
                            conforming = True
                            for mode_ in ("", " decorated", " idless"):
                                real = rp.ask("builder_type_twice %s%s" % (name, mode_))
                                conforming = "error" in real or ("panic" not in real and real.get("first") == real.get("second") and real.get("n1") == real.get("n0", 0) + 1 and real.get("n2") == real.get("n1"))
                                if (name.endswith("_id") or mode_ == " idless") and "error" not in real and "panic" not in real:
                                    conforming = real.get("first") == real.get("second") and real.get("n2") == real.get("n1")
                                if not conforming:
                                    break
                            if conforming:
                                ctx.inconclusive.append((tag, "model-only deviation (%s); the compiled crate answers %s" % (what, real)))
                            else:
                                ctx.violation(role, msg + "; on the compiled crate the same implicit request made twice gives %s" % real, {"cmd": "builder_type_twice %s" % name, "real": real})
    rp.close()
    # ---- module()/new()/new_from_module: compiled code through Kani
    res = kani.run_many(["k_builder_module"], cap_s=1200)
    kani.settle(ctx, res, lambda h: h[2:])
    ctx.extra["states"] = nchecked
    ctx.extra["transitions"] = nchecked
    ctx.extra["cvc5"] = q.summary()
    ctx.extra["explanation"] = "Counter monotonicity / step / returned ids decided by z3 per MIR path of every Builder method; type requests over symbolic operands."
