"""C13 — Builder id discipline: fresh ids, exact bound, deduplicated implicit types.
K: (a) the id post-conditions of the one-step Builder harness (shared with C12): every allocating call returns the old
counter and advances it by exactly one, explicit ids are used verbatim and do not advance it, the counter never goes back
(also on failing calls); (b) module()/new()/new_from_module bound and seed; (c) type requests type_int_id / type_pointer over
modules with 0..2 earlier declarations from a three-declaration alphabet. T: all generated type methods share the three-way body."""
import kani
import tables
from rtok import match_close

LEVEL = "model_checking"


def type_method_shapes(ctx):
    s = tables.src("rspirv/dr/build/autogen_type.rs")
    t = s.toks
    i, n = 0, len(t)
    count = 0
    while i < n - 1:
        if t[i].v == "fn" and t[i + 1].k == "id" and t[i + 1].v.endswith("_id"):
            name = t[i + 1].v
            j = i
            while t[j].v != "{":
                j += 1
            k = match_close(t, j)
            body = " ".join(x.v for x in t[j + 1:k])
            tail = ("if let Some ( result_id ) = result_id { self . module . types_global_values . push ( inst ) ; result_id } "
                    "else if let Some ( id ) = self . dedup_insert_type ( & inst ) { id } "
                    "else { let new_id = self . id ( ) ; inst . result_id = Some ( new_id ) ; self . module . types_global_values . push ( inst ) ; new_id }")
            ok = body.endswith(tail) and body.count("self . id ( )") == 1
            ctx.ob("type-method-three-way/%s" % name, True if ok else None, None if ok else "body differs from the generated three-way shape")
            count += 1
            i = k
        i += 1
    return count


def run(ctx):
    hs = ["k_builder_module", "k_builder_types", "k_builder_step_1_1_1", "k_builder_step_0_0_0"]
    if ctx.tier == "thorough":
        hs += ["k_builder_step_2_1_1", "k_builder_step_1_0_0"]
    ctx.bounds += ["id counter any u32 in 1..=0xfffffff0; one call per state (inductive step)",
                   "type requests: 0..=2 earlier declarations drawn from {int(32,0), int(32,1), pointer(Function,%2)}, request of the same alphabet, explicit or implicit id"]
    ctx.assumptions += ["CoreInstructionTable::get stubbed by its contract (C09)", "outside: u32 wrap of the counter; type alphabets beyond the three declarations (the generated methods share one body, checked at token level)"]
    ctx.trusted += ["Kani 0.68 / CBMC 6.11"]
    ctx.functions.update(["rspirv::dr::Builder::{id,new,new_from_module,module,set_version,version,type_int_id,type_pointer,dedup_insert_type}", "dr::Instruction::is_type_identical"])
    n = type_method_shapes(ctx)
    ctx.extra["type_methods_same_shape"] = n
    res = kani.run_many(hs, cap_s=600 if ctx.tier == "quick" else 2400)
    kani.settle(ctx, res, lambda h: h[2:])
    ctx.extra["states"] = sum(r.checks_total for r in res.values()) or 1
    ctx.extra["transitions"] = len(hs)
    ctx.extra["harness_times_s"] = {h: round(r.time, 1) for h, r in res.items()}
    ctx.extra["explanation"] = "CBMC decides the id post-conditions for every counter value and every call / type request within the bounds."
