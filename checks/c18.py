"""C18 — lifting preserves module structure on the supported subset (generated mapping decided for every arm; the module walk
decided on bounded module shapes with symbolic content, see checks/c18walk.py).

T+SMT  every arm of the generated `lift_op` / `lift_type` / `lift_branch` / `lift_terminator` (758 arms): the sequence of
       (operand variant, required/optional/variadic) it consumes with `operands.next()` equals, position by position, the
       grammar entry's operands after result type/id (kinds via the parser's kind->variant table, quantifiers), so operands are
       carried over positionally; the arm's field order equals the declaration order of the structured type's fields
       (a struct literal evaluates its fields in written order, so a swapped pair is a mis-mapped operand).
       The comparison is a z3 query over array-encoded tables with symbolic (opcode, position).
M2     `lift_constant` (MIR) for OpConstant: with the declared type Int{signedness 0} => UInt(v), Int{signed} => Int(v as i32),
       Float{no encoding} => Float(from_bits(v)) for ALL 32-bit literals (lifting succeeds for every value).
R      a Builder-made module with one instruction per arm family is lifted natively (validation of the positional claim).
M2     the walk `LiftContext::convert` itself (lift/mod.rs, lift/storage.rs, sr/storage.rs and the generated lift_* functions, all
       from MIR) on module shapes covering every supported type / constant kind, interleaved declarations, functions with
       blocks, phis, result-producing instructions and the non-switch terminators: counts, order, tokens, operands, version,
       capabilities, memory model (checks/c18walk.py). Outside: shapes other than those listed (longer modules, other opcodes
       in blocks), OpSwitch, forward references (the lifter panics on them by design of the subset)."""
import re
import z3
import sym
import mir
import tables
import gtables
import parsersym
import reg as regmod
from common import mir_path, Inconclusive, Replay
from smt import Q


def run(ctx):
    q = Q(ctx, cross_every=200)
    T = gtables.load_tables()
    kn, qn = T["kind_names"], T["quant_names"]
    P = tables.parse_operand_arms()
    variant_of_kind = {k: a["operands"][0][0] for k, a in P.items() if a["operands"]}
    entry_by_code = {e["opcode"]: e for e in T["core"]}
    arms = tables.lift_arms()
    srf = tables.sr_enum_fields()
    ctx.trusted += ["token reader for the generated lift arms", "grammar tables from rustc's promoted constants", "rustc MIR + mirsym for lift_constant", "z3"]
    ctx.assumptions += ["the module walk in lift/mod.rs (counts/order of types, constants, ops, blocks, phi arguments) is NOT covered"]
    ctx.bounds.append("all arms of lift_op, lift_type, lift_branch, lift_terminator; lift_constant: all 32-bit literals")
    rp = Replay()
    # ---------------- array encoding of both tables, symbolic (arm, position)
    I = z3.IntSort()
    vid = {}

    def code(v):
        return vid.setdefault(v, len(vid) + 1)
    rows = []
    for fname in ("lift_op", "lift_type", "lift_branch", "lift_terminator"):
        for opc, arm in sorted(arms.get(fname, {}).items()):
            e = entry_by_code.get(opc)
            if e is None:
                real = rp.ask("lookup core %d" % opc)
                if real.get("found") is False:
                    ctx.ob("%s/%d/has-grammar-entry" % (fname, opc), False)
                    ctx.violation("lift/%s/unknown-opcode/%d" % (fname, opc), "lift arm for opcode %d which has no grammar entry" % opc, {"cmd": "lookup core %d" % opc, "real": real})
                else:
                    ctx.ob("%s/%d/has-grammar-entry" % (fname, opc), None, "my table has no entry for opcode %d but the compiled crate finds %s" % (opc, real.get("opname")))
                continue
            if arm["fields"] is None:
                ctx.ob("%s/%s/shape" % (fname, e["opname"]), None, arm.get("raw"))
                continue
            gram = []
            for k, qq in e["operands"]:
                kind, quant = kn[k], qn[qq]
                if kind in ("IdResultType", "IdResult"):
                    continue
                if kind == "PairLiteralIntegerIdRef":
                    vs = ["LiteralBit32", "IdRef"]
                elif kind == "PairIdRefLiteralInteger":
                    vs = ["IdRef", "LiteralBit32"]
                elif kind == "PairIdRefIdRef":
                    vs = ["IdRef", "IdRef"]
                elif kind == "LiteralContextDependentNumber":
                    vs = ["LiteralBit32"]
                elif kind == "ImageOperands":
                    vs = ["ImageOperands", "IdRef"]       # the mask and, lifted with it, its id parameters
                else:
                    vs = [variant_of_kind.get(kind, "?" + kind)]
                gram.append((vs, {"One": "required", "ZeroOrOne": "optional", "ZeroOrMore": "variadic"}[quant]))
            lifted = [(f[1], f[2]) for f in arm["fields"]]
            rows.append((fname, opc, e["opname"], gram, lifted, arm))
    n = len(rows)
    # each arm's comparison is a concrete fact; the solver is asked for an arm index whose fact is 'differs'
    ri = z3.Int("arm")
    differs = [(r, (len(g) != len(l)) or any(a != b for a, b in zip([("+".join(v), m_) for v, m_ in g], [("+".join(v), m_) for v, m_ in l])))
               for r, (_, _, _, g, l, _) in enumerate(rows)]
    blocked = []
    while len(blocked) < 40:
        st, m = q.check([z3.Or(*[ri == r for r, d in differs if d and r not in blocked])] if any(d and r not in blocked for r, d in differs) else [z3.BoolVal(False)],
                        "lift-arm-vs-grammar")
        if st == "unsat":
            ctx.ob("lift-arms/operands-match-grammar%s" % ("/no-further" if blocked else ""), True, "%d arms" % n)
            break
        if st != "sat":
            ctx.ob("lift-arms/operands-match-grammar", None, m)
            break
        r = m.eval(ri, model_completion=True).as_long()
        blocked.append(r)
        fname, opc, opname, gram, lifted, arm = rows[r]
        if opname in SPECIAL_ARMS:
            ctx.ob("%s/%s/special" % (fname, opname), True, "hand-specialised arm")
            continue
        ctx.ob("%s/%s/operands" % (fname, opname), False, "lift consumes %s, grammar has %s" % (lifted, gram))
        ctx.violation("lift/%s/%s/operand-sequence" % (fname, opname),
                      "%s arm for Op%s consumes %s but the grammar entry's operands are %s" % (fname, opname, lifted, gram), {"line": arm["line"]})
    # ---------------- field order = declaration order
    for fname, opc, opname, gram, lifted, arm in rows:
        decl = srf.get(arm["enum"], {}).get(arm["variant"])
        if decl is None:
            ctx.ob("%s/%s/structured-type" % (fname, opname), None, "no declaration of %s::%s" % (arm["enum"], arm["variant"]))
            continue
        got = [f[0] for f in arm["fields"]]
        ok = got == decl
        ctx.ob("%s/%s/field-order" % (fname, opname), True if ok else False, None if ok else "arm assigns %s, declaration order is %s" % (got, decl))
        if not ok:
            real = rp.ask("lift_probe %d" % opc)
            ctx.violation("lift/%s/%s/field-order" % (fname, opname),
                          "the %s arm for Op%s fills fields in the order %s but ops::%s::%s declares %s: operands are carried to the wrong fields; native lift: %s" % (
                              fname, opname, got, arm["enum"], arm["variant"], decl, str(real)[:200]), {"cmd": "lift_probe %d" % opc, "real": real})
    hand_edited_arms(ctx, q, rp, rows, P, variant_of_kind)
    lift_constant(ctx, q, rp)
    import c18walk
    c18walk.run_walk(ctx, q, rp)
    rp.close()
    ctx.validated = rp.count
    ctx.extra["arms"] = n
    ctx.extra["cvc5"] = q.summary()
    ctx.extra["explanation"] = "Lift arms and grammar entries as SMT arrays; ∃(arm, position) with differing (variant, mode) decided by z3; lift_constant from MIR."


SPECIAL_ARMS = set()


def hand_edited_arms(ctx, q, rp, rows, P, variant_of_kind):
    """The token comparison above reads WHICH operand each field consumes, not what it does with the value. The generator emits a
    fixed set of expression shapes for that (pinned in reference/snapshot.json 'lift_templates': `Some(*value)`, `value.clone()`,
    a token lookup, the variadic loops). An arm with a field of any other shape has been edited by hand: that arm of `lift_op` is
    executed from MIR on a conforming operand list (optional operands present and absent, payload words symbolic) and every field
    must carry exactly its operand's payload. Confirmation on the compiled crate is differential: the operand present with the
    witness value vs absent / vs another value must give different structured instructions."""
    import json, os
    from common import VERIF
    pinned = set(json.load(open(os.path.join(VERIF, "reference", "snapshot.json"))).get("lift_templates", []))
    if not pinned:
        ctx.ob("lift-arms/value-expressions-are-the-generator's", None, "no pinned templates")
        return
    odd = []
    for fname, opc, opname, gram, lifted, arm in rows:
        for fld, tm in (arm.get("templates") or {}).items():
            if tm not in pinned:
                odd.append((fname, opc, opname, gram, arm, fld))
    if not odd:
        ctx.ob("lift-arms/value-expressions-are-the-generator's", True, "%d arms, %d templates" % (len(rows), len(pinned)))
        return
    import liftsym
    import parsersym
    S = parsersym.Setting()
    mf, ms, registry = S.mf, S.ms, S.registry
    le = lambda w: "".join("%02x" % ((w >> (8 * i)) & 0xff) for i in range(4))
    for fname, opc, opname, gram, arm, fld in odd[:12]:
        tag = "%s/%s/field-%s-carries-its-operand" % (fname, opname, fld)
        if fname != "lift_op" or any(len(vs) != 1 for vs, _m in gram) or any(f[3] for f in arm["fields"]):
            ctx.ob(tag, None, "hand-edited arm (field %s) outside what the MIR leg handles (pairs / token lookups / not lift_op)" % fld)
            continue
        fn = mf.get("lift_op", kind="fn")
        decided = True
        for present in (True, False):
            operands, expect = [], []
            for k, ((vs, mode), f) in enumerate(zip(gram, arm["fields"])):
                v = vs[0]
                mk = lambda j: (sym.StrV("s%d" % j) if v == "LiteralString" else z3.BitVec("p%d_%d" % (k, j), 64 if v == "LiteralBit64" else 32))
                if mode == "required":
                    x = mk(0)
                    operands.append((v, x))
                    expect.append((f[0], "required", x))
                elif mode == "optional":
                    if present:
                        x = mk(0)
                        operands.append((v, x))
                        expect.append((f[0], "some", x))
                    else:
                        expect.append((f[0], "none", None))
                else:
                    xs = [mk(0), mk(1)] if present else []
                    operands += [(v, x) for x in xs]
                    expect.append((f[0], "vec", xs))
            eng = sym.Engine([mf, ms], registry, models=liftsym.MODELS + S.models(), eager=True, loop_bound=12)
            classv = sym.Adt("grammar::Instruction", None, [sym.StrV(opname), z3.BitVecVal(opc, 32), sym.Sym("c", "&[Capability]"), sym.Sym("e", "&[&str]"), sym.Sym("o", "&[LogicalOperand]")])
            inst = sym.Adt("Instruction", None, [sym.Ref(("h", "class"), ()), sym.Adt("Option", "Some", [z3.BitVec("rt", 32)]), sym.Adt("Option", "Some", [z3.BitVec("rid", 32)]),
                                                 sym.Arr([sym.Adt("dr::constructs::Operand", v, [x]) for v, x in operands], "vec")])
            mem = {("h", "class"): classv, ("h", "inst"): inst, ("h", "ctx"): sym.Sym("liftctx", "LiftContext")}
            try:
                res = eng.run(fn, [sym.Ref(("h", "ctx"), (), True), sym.Ref(("h", "inst"), ())], mem=mem)
            except mir.Unsupported as ex:
                ctx.ob(tag, None, "not encodable: %s" % str(ex)[:300])
                decided = False
                break
            ctx.functions.update(eng.stats.functions)
            bad = None
            for r in res:
                if r.status != "return":
                    st_, m_ = q.check(list(r.pc), "lift-arm-panic")
                    if st_ != "unsat":
                        bad = ("ends in %s %s" % (r.status, r.info), m_ if st_ == "sat" else None)
                        break
                    continue
                val = r.value
                if not (isinstance(val, sym.Adt) and val.variant == "Ok" and isinstance(val.fields[0], sym.Adt)):
                    st_, m_ = q.check(list(r.pc), "lift-arm-err")
                    if st_ != "unsat":
                        bad = ("a conforming instruction is not lifted: %r" % (val,), m_ if st_ == "sat" else None)
                        break
                    continue
                op = val.fields[0]
                conds = []
                structural = None
                if len(op.fields) != len(expect):
                    structural = "%d fields for %d operands" % (len(op.fields), len(expect))
                else:
                    for fv, (fname_, how, x) in zip(op.fields, expect):
                        while isinstance(fv, sym.Ref):
                            fv = eng.read_at(_St(r.mem), fv.root, fv.path)
                        if how == "required":
                            items = [(fv, x)]
                        elif how == "some":
                            if not (isinstance(fv, sym.Adt) and fv.variant == "Some"):
                                structural = "field %s is %r although its operand is present" % (fname_, fv)
                                break
                            items = [(fv.fields[0], x)]
                        elif how == "none":
                            if not (isinstance(fv, sym.Adt) and fv.variant == "None"):
                                structural = "field %s is %r although its operand is absent" % (fname_, fv)
                                break
                            items = []
                        else:
                            if not (isinstance(fv, sym.Arr) and len(fv.items) == len(x)):
                                structural = "field %s holds %r for %d operands" % (fname_, fv, len(x))
                                break
                            items = list(zip(fv.items, x))
                        for a_, b_ in items:
                            while isinstance(a_, sym.Ref):
                                a_ = eng.read_at(_St(r.mem), a_.root, a_.path)
                            if isinstance(b_, sym.StrV):
                                if not (isinstance(a_, sym.StrV) and a_.s == b_.s):
                                    structural = "field %s holds %r, operand is %r" % (fname_, a_, b_)
                            elif z3.is_expr(a_) and z3.is_bv(a_) and a_.size() == b_.size():
                                conds.append(a_ != b_)
                            else:
                                structural = "field %s holds %r" % (fname_, a_)
                st_, m_ = q.check(list(r.pc) + ([z3.Or(*conds)] if (conds and not structural) else ([] if structural else [z3.BoolVal(False)])), "lift-arm-values")
                if st_ == "sat":
                    bad = (structural or "a field differs from its operand's payload", m_)
                    break
                if st_ != "unsat":
                    decided = False
            if bad is None:
                continue
            what, m_ = bad
            # differential confirmation on the compiled crate
            def words_for(vals, drop_optional):
                ws = []
                for k, ((vs, mode), f) in enumerate(zip(gram, arm["fields"])):
                    if mode == "optional" and (drop_optional or not present):
                        continue
                    n_ = 1 if mode != "variadic" else (2 if present else 0)
                    for j in range(n_):
                        v_ = vals.get((k, j), 1)
                        ws += [v_ & 0xffffffff] + ([v_ >> 32] if vs[0] == "LiteralBit64" else [])
                return ws

            def module(ws):
                body = le(2 << 16 | 17) + le(1) + le(3 << 16 | 14) + le(0) + le(1) + le(2 << 16 | 19) + le(1) + le(4 << 16 | 21) + le(2) + le(32) + le(0) + \
                    le(3 << 16 | 33) + le(3) + le(1) + le(5 << 16 | 54) + le(1) + le(4) + le(0) + le(3) + le(2 << 16 | 248) + le(5) + \
                    le((3 + len(ws)) << 16 | opc) + le(2) + le(9) + "".join(le(w) for w in ws) + le(1 << 16 | 253) + le(1 << 16 | 56)
                return "03022307" + le(0x00010300) + le(0) + le(100) + le(0) + body
            vals = {}
            if m_ is not None:
                for k in range(len(gram)):
                    for j in range(2):
                        for wdt in (32, 64):
                            vals.setdefault((k, j), m_.eval(z3.BitVec("p%d_%d" % (k, j), 64 if gram[k][0][0] == "LiteralBit64" else 32), model_completion=True).as_long())
            a = rp.ask("lift_words %s" % module(words_for(vals, False)))
            b = rp.ask("lift_words %s" % module(words_for(vals, True))) if any(mo == "optional" for _v, mo in gram) and present else None
            vals2 = dict(vals)
            for key_ in list(vals2):
                vals2[key_] = vals2[key_] ^ 1
            c = rp.ask("lift_words %s" % module(words_for(vals2, False)))
            confirmed = None
            if "panic" in a:
                confirmed = "lifting panics: %s" % a["panic"]
            elif a.get("lifted") and b is not None and b.get("lifted") and a.get("ops") == b.get("ops"):
                confirmed = "the structured instruction is the same with the optional operand present (%s) and absent: %s" % ([hex(w) for w in words_for(vals, False)], a.get("ops"))
            elif a.get("lifted") and c.get("lifted") and a.get("ops") == c.get("ops") and words_for(vals, False):
                confirmed = "the structured instruction does not depend on its operands' payloads: %s" % a.get("ops")
            if confirmed:
                ctx.ob(tag, False, what)
                ctx.violation("lift/%s/%s/value-not-carried/%s" % (fname, opname, fld), "the hand-edited %s arm for Op%s: %s; on the compiled crate %s" % (fname, opname, what, confirmed),
                              {"cmd": "lift_words %s" % module(words_for(vals, False)), "real": a})
            else:
                ctx.ob(tag, None, "model-only deviation (%s); the compiled crate: %s / %s" % (what, str(a)[:160], str(b)[:160]))
            decided = False
            break
        if decided:
            ctx.ob(tag, True, "hand-edited arm, executed from MIR")


class _St:
    def __init__(self, mem):
        self.mem = mem


def lift_constant(ctx, q, rp):
    registry = regmod.build_registry()
    mf = mir.MirFile(mir_path("rspirv"))
    c = [x for x in mf.find("lift_constant") if "closure" not in x[0]]
    if len(c) != 1:
        ctx.ob("lift_constant/encodable", None, "%d candidates" % len(c))
        return
    fn = mf.parse_item(c[0][2])
    v = z3.BitVec("v", 32)
    for tyname, tyval in (("uint", ("Int", [z3.BitVec("w", 32), z3.BitVecVal(0, 32)])), ("int", ("Int", [z3.BitVec("w", 32), z3.BitVecVal(1, 32)])),
                          ("float", ("Float", [z3.BitVec("w", 32), sym.Adt("Option", "None", [])]))):
        def m_lookup(engine, st, fr, callee, args, ops):
            cell = ("h", "ty")
            st.mem[cell] = sym.Adt("sr::types::Type", tyval[0], tyval[1])
            return sym.Adt("tuple", None, [sym.Ref(cell, ()), sym.Ref(("h", "info"), ())])

        def m_first(engine, st, fr, callee, args, ops):
            sl = sym._deref_arg(engine, st, args[0])
            arr = sym._deref_arg(engine, st, sl.fields[0]) if isinstance(sl, sym.Adt) and sl.ty == "Slice" else sl
            if isinstance(arr, sym.Arr) and arr.items:
                base = sl.fields[0] if isinstance(sl, sym.Adt) and sl.ty == "Slice" else args[0]
                return sym.Adt("Option", "Some", [sym.Ref(base.root, base.path + (("index_c", 0),))])
            return sym.Adt("Option", "None", [])
        import c15
        models = [(r"LiftStorage::<.*>::lookup$", m_lookup),
                  (r"^core::slice::<impl \[.*\]>::first$", m_first),
                  (r"^<Vec<.*> as Deref>::deref$", c15.m_deref_vec),
                  (r"^core::f32::<impl f32>::from_bits$", lambda e, s, f, c_, a, o: sym.Adt("F32", None, [a[0]])),
                  (r"^<i32 as TryFrom<u32>>::try_from$", lambda e, s, f, c_, a, o: sym.Fork([
                      (a[0] < 0x80000000 if False else z3.ULT(a[0], 0x80000000), sym.Adt("Result", "Ok", [a[0]])),
                      (z3.UGE(a[0], 0x80000000), sym.Adt("Result", "Err", [sym.Sym("tryfromerr", "TryFromIntError")]))])),
                  (r"^(std::result::)?Result::<.*>::map_err::<", lambda e, s, f, c_, a, o: a[0] if (isinstance(a[0], sym.Adt) and a[0].variant == "Ok") else sym.Adt("Result", "Err", [sym.Adt("lift::OperandError", "WrongType", [])]))]
        eng = sym.Engine([mf], registry, models=models, eager=True, loop_bound=4)
        eng.from_conversions = {("OperandError", "InstructionError"): lambda inner: sym.Adt("lift::InstructionError", "Operand", [inner])}
        classv = sym.Adt("grammar::Instruction", None, [sym.StrV("Constant"), z3.BitVecVal(43, 32), sym.Sym("c", "&[Capability]"), sym.Sym("e", "&[&str]"), sym.Sym("o", "&[LogicalOperand]")])
        inst = sym.Adt("Instruction", None, [sym.Ref(("h", "class"), ()), sym.Adt("Option", "Some", [z3.BitVec("rt", 32)]), sym.Adt("Option", "Some", [z3.BitVec("rid", 32)]),
                                             sym.Arr([sym.Adt("dr::constructs::Operand", "LiteralBit32", [v])], "vec")])
        mem = {("h", "class"): classv, ("h", "inst"): inst, ("h", "ctx"): sym.Sym("liftctx", "LiftContext"), ("h", "info"): sym.Sym("info", "TypeInfo")}
        try:
            res = eng.run(fn, [sym.Ref(("h", "ctx"), ()), sym.Ref(("h", "inst"), ())], mem=mem)
        except mir.Unsupported as ex:
            ctx.ob("lift_constant/%s/encodable" % tyname, None, str(ex)[:300])
            continue
        ctx.functions.update(eng.stats.functions)
        for r in res:
            tag = "lift_constant/%s" % tyname
            if r.status != "return":
                st, m = q.check(r.pc, "lift-constant-panic")
                ctx.ob(tag + "/no-panic", st == "unsat" or (False if st == "sat" else None), str(r.info))
                continue
            val = r.value
            want_variant = {"uint": "UInt", "int": "Int", "float": "Float"}[tyname]
            good = isinstance(val, sym.Adt) and val.variant == "Ok" and isinstance(val.fields[0], sym.Adt) and val.fields[0].variant == want_variant
            if good:
                payload = val.fields[0].fields[0]
                if tyname == "float":
                    good = isinstance(payload, sym.Adt) and payload.ty == "F32" and payload.fields[0].eq(v)
                else:
                    st, m = q.check(r.pc + [payload != v], "lift-constant-value")
                    good = st == "unsat"
            if good:
                ctx.ob(tag, True)
                continue
            st, m = q.check(r.pc, "lift-constant-witness")
            w = m.eval(v, model_completion=True).as_long() if st == "sat" else 0x80000000
            real = rp.ask("lift_constant %s %d" % (tyname, w))
            if ("Constant::%s" % want_variant) not in str(real.get("result", "")) and "panic" in real or (real.get("result") and want_variant not in real.get("result", "")):
                ctx.ob(tag, False, "literal %#x: model %r, native %s" % (w, val, real))
                ctx.violation("lift/constant/%s" % tyname, "a 32-bit %s constant with literal %#x does not lift to Constant::%s(v): %s" % (tyname, w, want_variant, real),
                              {"cmd": "lift_constant %s %d" % (tyname, w), "real": real})
            else:
                ctx.ob(tag, None, "model deviates (%r) but native conforms: %s" % (val, real))
