"""Parser for rustc's textual MIR (`-Zunpretty=mir`).

Only the constructs that occur in the functions the checks encode are understood; anything
else raises `Unsupported`, which the driver reports as *inconclusive* (exit 2), never as a pass.

Data model
  Function(name, args[(local, ty)], ret_ty, locals{local: ty}, blocks{bbN: Block}, kind)
  Block(stmts[Stmt], term)
  Stmt  = ('assign', Place, Rvalue) | ('setdisc', Place, int) | ('nop',)
  Term  = ('goto', bb) | ('switch', Operand, [(int, bb)], otherwise_bb|None) | ('return',)
        | ('unreachable',) | ('resume',) | ('drop', Place, bb) | ('assert', Operand, expected_bool, msg, bb)
        | ('call', Place|None, callee_text, [Operand], ret_bb|None)
  Place = (local:str, proj: tuple)   proj item: ('deref',) | ('field', i, ty) | ('downcast', name)
                                      | ('index', local) | ('constindex', i, minlen, from_end)
  Operand = ('copy', Place) | ('move', Place) | ('const', text, ty_suffix)
  Rvalue  = ('use', Operand) | ('ref', mutbl, Place) | ('addr', mutbl, Place)
          | ('binop', op, Operand, Operand) | ('unop', op, Operand) | ('cast', Operand, ty, kind)
          | ('discr', Place) | ('aggr', kind, name, [Operand] | {field: Operand})
          | ('repeat', Operand, n) | ('len', Place)
"""
import re


class Unsupported(Exception):
    pass


class Function:
    __slots__ = ("name", "args", "ret_ty", "locals", "blocks", "kind", "line", "const_value")

    def __init__(self, name, kind, line):
        self.name = name
        self.kind = kind          # 'fn' | 'const' | 'static'
        self.args = []
        self.ret_ty = None
        self.locals = {}
        self.blocks = {}
        self.line = line
        self.const_value = None   # for `const X: T = const 4_usize;`


class Block:
    __slots__ = ("stmts", "term", "cleanup")

    def __init__(self):
        self.stmts = []
        self.term = None
        self.cleanup = False


BINOPS = {
    "Add", "Sub", "Mul", "Div", "Rem", "BitXor", "BitAnd", "BitOr", "Shl", "Shr", "Eq", "Lt", "Le", "Ne",
    "Ge", "Gt", "Cmp", "Offset", "AddWithOverflow", "SubWithOverflow", "MulWithOverflow",
    "AddUnchecked", "SubUnchecked", "MulUnchecked", "ShlUnchecked", "ShrUnchecked",
}
UNOPS = {"Not", "Neg", "PtrMetadata"}


def split_top(s, sep=","):
    """Split s on sep at bracket depth 0 (brackets: () [] {} <>; `->` and `=>` are not brackets;
    string literals are opaque)."""
    out, depth, cur, i, n = [], 0, [], 0, len(s)
    while i < n:
        c = s[i]
        if c == '"':
            j = i + 1
            while j < n and s[j] != '"':
                if s[j] == "\\":
                    j += 1
                j += 1
            cur.append(s[i:j + 1])
            i = j + 1
            continue
        if c in "([{<":
            depth += 1
        elif c in ")]}":
            depth -= 1
        elif c == ">":
            if i > 0 and s[i - 1] in "-=":
                pass
            else:
                depth -= 1
        if c == sep and depth == 0:
            out.append("".join(cur).strip())
            cur = []
        else:
            cur.append(c)
        i += 1
    last = "".join(cur).strip()
    if last or out:
        out.append(last)
    return out


def find_matching(s, i):
    """s[i] is an opening bracket; return index of the matching closing one."""
    pairs = {"(": ")", "[": "]", "{": "}", "<": ">"}
    close = pairs[s[i]]
    open_ = s[i]
    depth, n = 0, len(s)
    j = i
    while j < n:
        c = s[j]
        if c == '"':
            j += 1
            while j < n and s[j] != '"':
                if s[j] == "\\":
                    j += 1
                j += 1
        elif c == open_:
            depth += 1
        elif c == close:
            if close == ">" and j > 0 and s[j - 1] in "-=":
                pass
            else:
                depth -= 1
                if depth == 0:
                    return j
        j += 1
    raise Unsupported("unbalanced: " + s[:80])


_local_re = re.compile(r"_(\d+)")


def parse_place(s):
    """Parse a place expression occupying all of s."""
    s = s.strip()
    place, rest = _parse_place_prefix(s)
    if rest.strip():
        raise Unsupported("trailing text in place: %r" % s)
    return place


def _parse_place_prefix(s):
    s = s.lstrip()
    if s.startswith("_"):
        m = _local_re.match(s)
        if not m:
            raise Unsupported("place: %r" % s)
        base = ("_" + m.group(1), ())
        rest = s[m.end():]
    elif s.startswith("("):
        j = find_matching(s, 0)
        inner = s[1:j]
        rest = s[j + 1:]
        if inner.startswith("*"):
            p = parse_place(inner[1:])
            base = (p[0], p[1] + (("deref",),))
        else:
            # (P.N: T)  or (P as Variant)
            p, r = _parse_place_prefix(inner)
            r = r.lstrip()
            if r.startswith("as "):
                base = (p[0], p[1] + (("downcast", r[3:].strip()),))
            elif r.startswith("."):
                m = re.match(r"\.(\d+): (.*)$", r, re.S)
                if not m:
                    raise Unsupported("field place: %r" % s)
                base = (p[0], p[1] + (("field", int(m.group(1)), m.group(2).strip()),))
            else:
                raise Unsupported("place: %r" % s)
    else:
        raise Unsupported("place: %r" % s)
    # postfix indexing
    while rest.startswith("["):
        j = find_matching(rest, 0)
        idx = rest[1:j].strip()
        rest = rest[j + 1:]
        m = re.match(r"^_(\d+)$", idx)
        if m:
            base = (base[0], base[1] + (("index", idx),))
            continue
        m = re.match(r"^(-?)(\d+) of (\d+)$", idx)
        if m:
            base = (base[0], base[1] + (("constindex", int(m.group(2)), int(m.group(3)), m.group(1) == "-"),))
            continue
        m = re.match(r"^(\d*):(-?)(\d*)$", idx)
        if m:
            # rustc prints `Subslice { from, to, from_end: true }` as [from:], [:-to] or [from:-to]
            base = (base[0], base[1] + (("subslice", int(m.group(1) or 0), int(m.group(3) or 0), True),))
            continue
        m = re.match(r"^(\d+)\.\.(\d+)$", idx)
        if m:
            base = (base[0], base[1] + (("subslice", int(m.group(1)), int(m.group(2)), False),))
            continue
        raise Unsupported("index projection: %r" % idx)
    return base, rest


def parse_operand(s):
    s = s.strip()
    if s.startswith("copy "):
        return ("copy", parse_place(s[5:]))
    if s.startswith("move "):
        return ("move", parse_place(s[5:]))
    if s.startswith("no_retag copy "):
        return ("copy", parse_place(s[14:]))
    if s.startswith("const "):
        return ("const", s[6:].strip())
    if re.match(r"^[A-Za-z_<][A-Za-z0-9_:<>, '&\[\]]*$", s):
        # bare function item / constructor passed by value
        return ("const", s)
    raise Unsupported("operand: %r" % s)


def _is_operand_text(s):
    return s.startswith(("copy ", "move ", "const ", "no_retag copy "))


def parse_rvalue(s):
    s = s.strip()
    if _is_operand_text(s):
        # possibly a cast:  `<operand> as T (Kind)`
        m = re.match(r"^(.*) as (.*) \(([A-Za-z]+(?:\(.*\))?)\)$", s, re.S)
        if m and not s.startswith("const \""):
            try:
                op = parse_operand(m.group(1))
                return ("cast", op, m.group(2).strip(), m.group(3))
            except Unsupported:
                pass
        return ("use", parse_operand(s))
    if s.startswith("&raw const (fake) "):
        return ("addr", False, parse_place(s[18:]))
    if s.startswith("&raw const "):
        return ("addr", False, parse_place(s[11:]))
    if s.startswith("&raw mut "):
        return ("addr", True, parse_place(s[9:]))
    if s.startswith("&mut "):
        return ("ref", True, parse_place(s[5:]))
    if s.startswith("&fake shallow "):
        return ("ref", False, parse_place(s[14:]))
    if s.startswith("&"):
        return ("ref", False, parse_place(s[1:]))
    if s.startswith("discriminant("):
        return ("discr", parse_place(s[13:-1]))
    if s.startswith("Len("):
        return ("len", parse_place(s[4:-1]))
    if s.startswith("CopyForDeref("):
        return ("use", ("copy", parse_place(s[13:-1])))
    m = re.match(r"^([A-Za-z]+)\((.*)\)$", s, re.S)
    if m and m.group(1) in BINOPS:
        a = split_top(m.group(2))
        if len(a) == 2:
            return ("binop", m.group(1), parse_operand(a[0]), parse_operand(a[1]))
    if m and m.group(1) in UNOPS:
        return ("unop", m.group(1), parse_operand(m.group(2)))
    # aggregates
    if s.startswith("("):
        j = find_matching(s, 0)
        if j == len(s) - 1:
            items = split_top(s[1:j])
            if len(items) == 1 and items[0] == "":
                items = []
            if items and items[-1] == "":
                items = items[:-1]
            return ("aggr", "tuple", None, [parse_operand(x) for x in items])
    if s.startswith("["):
        j = find_matching(s, 0)
        if j == len(s) - 1:
            inner = s[1:j]
            parts = split_top(inner, ";")
            if len(parts) == 2:
                return ("repeat", parse_operand(parts[0]), parts[1].strip())
            items = split_top(inner)
            if len(items) == 1 and items[0] == "":
                items = []
            return ("aggr", "array", None, [parse_operand(x) for x in items])
    if s.startswith("{closure@") or s.startswith("{coroutine@"):
        j = find_matching(s, 0)
        name = s[:j + 1]
        rest = s[j + 1:].strip()
        if not rest:
            return ("aggr", "closure", name, [])
        if rest.startswith("{"):
            k = find_matching(rest, 0)
            fields = {}
            for it in split_top(rest[1:k]):
                if not it:
                    continue
                fn_, v = it.split(":", 1)
                fields[fn_.strip()] = parse_operand(v)
            return ("aggr", "closure", name, [fields[k_] for k_ in sorted(fields, key=lambda z: int(z) if z.isdigit() else 0)])
        raise Unsupported("closure aggregate: %r" % s)
    # Path { f: op, .. } | Path(op, ..) | Path
    # find the end of the path: first '(' or ' {' at depth 0 outside <>.
    depth = 0
    i, n = 0, len(s)
    cut = None
    while i < n:
        c = s[i]
        if c == "<":
            depth += 1
        elif c == ">" and not (i > 0 and s[i - 1] in "-="):
            depth -= 1
        elif depth == 0 and c == "(":
            cut = i
            break
        elif depth == 0 and c == "{":
            cut = i
            break
        i += 1
    if cut is None:
        if re.match(r"^[A-Za-z_<]", s):
            return ("aggr", "adt", s, [])
        raise Unsupported("rvalue: %r" % s)
    name = s[:cut].strip()
    j = find_matching(s, cut)
    if j != len(s) - 1:
        raise Unsupported("rvalue: %r" % s)
    inner = s[cut + 1:j]
    if s[cut] == "(":
        items = split_top(inner)
        if len(items) == 1 and items[0] == "":
            items = []
        return ("aggr", "adt", name, [parse_operand(x) for x in items])
    fields = {}
    for it in split_top(inner):
        if not it:
            continue
        fn_, v = it.split(":", 1)
        fields[fn_.strip()] = parse_operand(v)
    return ("aggr", "adt_named", name, fields)


_targets_re = re.compile(r"^(.*?) -> (.*)$", re.S)


def _parse_targets(t):
    """`[return: bb1, unwind: bb2]` | `bb3` | `unwind continue` -> (ret_bb or None)"""
    t = t.strip()
    if t.startswith("["):
        inner = t[1:find_matching(t, 0)]
        d = {}
        for it in split_top(inner):
            if ":" in it:
                k, v = it.split(":", 1)
                d[k.strip()] = v.strip()
            else:
                k, v = it.split(" ", 1)
                d[k.strip()] = v.strip()
        return d
    if t.startswith("bb"):
        return {"return": t}
    return {"unwind": t}


def parse_terminator(s):
    s = s.strip()
    if s == "return":
        return ("return",)
    if s == "unreachable":
        return ("unreachable",)
    if s in ("resume", "terminate(cleanup)", "terminate(abi)"):
        return ("resume",)
    if s.startswith("goto -> "):
        return ("goto", s[8:].strip())
    if s.startswith("switchInt("):
        j = find_matching(s, 9)
        op = parse_operand(s[10:j])
        rest = s[j + 1:].strip()
        assert rest.startswith("-> ["), s
        inner = rest[4:find_matching(rest, 3)]
        targets, otherwise = [], None
        for it in split_top(inner):
            k, v = it.split(":", 1)
            k = k.strip()
            if k == "otherwise":
                otherwise = v.strip()
            else:
                targets.append((int(k), v.strip()))
        return ("switch", op, targets, otherwise)
    if s.startswith("drop("):
        j = find_matching(s, 4)
        place = parse_place(s[5:j])
        tg = _parse_targets(s[j + 1:].strip()[2:].strip())
        return ("drop", place, tg.get("return"))
    if s.startswith("assert("):
        j = find_matching(s, 6)
        args = split_top(s[7:j])
        cond = args[0]
        expected = True
        if cond.startswith("!"):
            expected = False
            cond = cond[1:]
        tg = _parse_targets(s[j + 1:].strip()[2:].strip())
        return ("assert", parse_operand(cond), expected, args[1] if len(args) > 1 else "", tg.get("success"))
    if s.startswith("falseEdge") or s.startswith("falseUnwind"):
        raise Unsupported("terminator: %r" % s)
    # call:  [_N = ] callee(args) -> targets
    dest = None
    body = s
    m = re.match(r"^(\(?[\(\*_0-9a-zA-Z .:<>,'&\[\];]*?\)?) = (.*)$", s, re.S)
    # destination is a place followed by ' = '; detect by trying to parse the prefix
    eq = _find_assign_eq(s)
    if eq is not None:
        dest = parse_place(s[:eq])
        body = s[eq + 3:]
    # split off targets: last ' -> ' at depth 0
    idx = _rfind_top(body, " -> ")
    if idx is None:
        raise Unsupported("terminator: %r" % s)
    callpart = body[:idx].strip()
    tg = _parse_targets(body[idx + 4:])
    if not callpart.endswith(")"):
        raise Unsupported("call: %r" % s)
    # find the '(' matching the final ')'
    k = _rfind_open(callpart)
    callee = callpart[:k].strip()
    args = split_top(callpart[k + 1:-1])
    if len(args) == 1 and args[0] == "":
        args = []
    return ("call", dest, callee, [parse_operand(a) for a in args], tg.get("return"))


def _find_assign_eq(s):
    """Index of the ' = ' that separates an assignment destination from its rvalue, at depth 0."""
    depth, i, n = 0, 0, len(s)
    while i < n:
        c = s[i]
        if c == '"':
            return None
        if c in "([{":
            depth += 1
        elif c in ")]}":
            depth -= 1
        elif depth == 0 and s.startswith(" = ", i):
            return i
        elif depth == 0 and c not in "_0123456789 ":
            # a destination at depth 0 is `_N`; anything else means no assignment
            return None
        i += 1
    return None


def _rfind_top(s, needle):
    depth, n = 0, len(s)
    i = 0
    found = None
    while i < n:
        c = s[i]
        if c == '"':
            i += 1
            while i < n and s[i] != '"':
                if s[i] == "\\":
                    i += 1
                i += 1
        elif c in "([{":
            depth += 1
        elif c in ")]}":
            depth -= 1
        elif depth == 0 and s.startswith(needle, i):
            found = i
        i += 1
    return found


def _rfind_open(s):
    """s ends with ')'; index of its matching '('."""
    depth = 0
    i = len(s) - 1
    in_str = False
    while i >= 0:
        c = s[i]
        if c == '"' and not (i > 0 and s[i - 1] == "\\"):
            in_str = not in_str
        elif not in_str:
            if c in ")]}":
                depth += 1
            elif c in "([{":
                depth -= 1
                if depth == 0:
                    return i
        i -= 1
    raise Unsupported("call parens: %r" % s)


def parse_statement(s):
    s = s.strip()
    if s.startswith(("StorageLive(", "StorageDead(", "nop", "FakeRead(", "AscribeUserType(", "PlaceMention(",
                     "Retag(", "ConstEvalCounter", "Coverage", "BackwardIncompatibleDropHint")):
        return ("nop",)
    if s.startswith("discriminant("):
        j = find_matching(s, 12)
        place = parse_place(s[13:j])
        v = s[j + 1:].strip()
        assert v.startswith("= ")
        return ("setdisc", place, int(v[2:]))
    if s.startswith("Deinit("):
        return ("nop",)
    if s.startswith("assume("):
        return ("nop",)
    eq = _find_assign_eq_general(s)
    if eq is None:
        raise Unsupported("statement: %r" % s)
    return ("assign", parse_place(s[:eq]), parse_rvalue(s[eq + 3:]))


def _find_assign_eq_general(s):
    depth, i, n = 0, 0, len(s)
    while i < n:
        c = s[i]
        if c == '"':
            return None
        if c in "([{":
            depth += 1
        elif c in ")]}":
            depth -= 1
        elif depth == 0 and s.startswith(" = ", i):
            return i
        i += 1
    return None


class MirFile:
    """Lazy index over a MIR dump: item headers are located once, bodies parsed on demand."""

    def __init__(self, path):
        self.path = path
        with open(path, "r", encoding="utf-8", errors="replace") as f:
            self.lines = f.read().split("\n")
        self.items = {}      # name -> [(kind, start_line)]
        self._parsed = {}
        hdr = re.compile(r"^(fn|const|static(?: mut)?) (.*)$")
        for i, ln in enumerate(self.lines):
            if not ln or ln[0] not in "fcs":
                continue
            m = hdr.match(ln)
            if not m:
                continue
            kind = m.group(1).split()[0]
            rest = m.group(2)
            if kind == "fn":
                k = self._name_end(rest)
                name = rest[:k]
            else:
                k = self._colon_top(rest)
                name = rest[:k]
            self.items.setdefault(name, []).append((kind, i))

    @staticmethod
    def _colon_top(rest):
        """index of the `: ` that separates an item name from its type (outside <...>)"""
        depth = 0
        for i, c in enumerate(rest):
            if c == "<":
                depth += 1
            elif c == ">" and not (i > 0 and rest[i - 1] in "-="):
                depth -= 1
            elif c == ":" and depth == 0 and rest[i + 1:i + 2] == " ":
                return i
        return rest.find(": ")

    @staticmethod
    def _name_end(rest):
        # name runs to the '(' that opens the argument list: first '(' at <>-depth 0
        depth = 0
        for i, c in enumerate(rest):
            if c == "<":
                depth += 1
            elif c == ">" and not (i > 0 and rest[i - 1] in "-="):
                depth -= 1
            elif c == "(" and depth == 0:
                return i
        return len(rest)

    def find(self, suffix, file_hint=None, kind=None):
        """All item names whose path ends with `suffix` (on a `::` boundary)."""
        out = []
        for name, lst in self.items.items():
            if name == suffix or name.endswith("::" + suffix):
                if file_hint and file_hint not in name:
                    continue
                for (k, ln) in lst:
                    if kind and k != kind:
                        continue
                    out.append((name, k, ln))
        return out

    def get(self, suffix, file_hint=None, kind=None, index=0):
        c = self.find(suffix, file_hint, kind)
        # the dump prints constructor shims (`fn Type::Variant`) twice; identical bodies
        if not c:
            raise Unsupported("MIR item not found: %s (%s)" % (suffix, file_hint))
        names = sorted(set(n for n, _, _ in c))
        if len(names) > 1:
            raise Unsupported("MIR item ambiguous: %s -> %s" % (suffix, names[:5]))
        name, k, ln = c[index]
        return self.parse_item(ln)

    def parse_item(self, start):
        if start in self._parsed:
            return self._parsed[start]
        lines = self.lines
        head = lines[start]
        m = re.match(r"^(fn|const|static(?: mut)?) (.*)$", head)
        kind = m.group(1).split()[0]
        rest = m.group(2)
        if kind == "fn":
            k = self._name_end(rest)
            name = rest[:k]
            f = Function(name, kind, start)
            j = find_matching(rest, k)
            argtext = rest[k + 1:j]
            for a in split_top(argtext):
                if not a:
                    continue
                loc, ty = a.split(":", 1)
                f.args.append((loc.strip(), ty.strip()))
            r = rest[j + 1:].strip()
            assert r.startswith("-> ") and r.endswith("{"), head
            f.ret_ty = r[3:-1].strip()
        else:
            k = self._colon_top(rest)
            name = rest[:k]
            f = Function(name, kind, start)
            r = rest[k + 2:]
            if r.endswith("{"):
                f.ret_ty = r[:-1].rsplit(" = ", 1)[0].strip()
            else:
                ty, val = r.rsplit(" = ", 1)
                f.ret_ty = ty.strip()
                f.const_value = val.rstrip(";").strip()
                self._parsed[start] = f
                return f
        i = start + 1
        cur = None
        let_re = re.compile(r"^\s*let (?:mut )?(_\d+): (.*);$")
        bb_re = re.compile(r"^    (bb\d+)( \(cleanup\))?: \{$")
        pending = None
        while True:
            ln = lines[i]
            if ln == "}":
                break
            if cur is None:
                m = let_re.match(ln)
                if m:
                    f.locals[m.group(1)] = m.group(2)
                else:
                    m = bb_re.match(ln)
                    if m:
                        cur = Block()
                        cur.cleanup = bool(m.group(2))
                        f.blocks[m.group(1)] = cur
                i += 1
                continue
            s = ln.strip()
            if s == "}":
                cur = None
                pending = None
                i += 1
                continue
            if not s or s.startswith("//"):
                i += 1
                continue
            if pending is not None:
                s = pending + " " + s
                pending = None
            if not s.endswith(";"):
                pending = s
                i += 1
                continue
            body = s[:-1]
            cur.stmts.append(body)
            i += 1
        for a, ty in f.args:
            f.locals[a] = ty
        # split stmts / terminator lazily
        for b in f.blocks.values():
            raw = b.stmts
            if b.cleanup:
                b.stmts, b.term = [], ("resume",)
                continue
            b.term = ("raw", raw[-1])
            b.stmts = [("raw", x) for x in raw[:-1]]
        self._parsed[start] = f
        return f


def stmt_of(raw):
    if raw[0] == "raw":
        return parse_statement(raw[1])
    return raw


def term_of(raw):
    if raw[0] == "raw":
        return parse_terminator(raw[1])
    return raw
