"""Symbolic setting for the binary parser (C02, C03, C04, C10): the `Decoder` is modelled at the level its contract (C11,
decided by Kani on the compiled code) guarantees — a byte offset, a stream length, an optional word limit and an array of
words — and everything above it (`Parser::parse_inst`, `parse_operands`, `parse_operand` with its 60 generated arms,
`parse_*_arguments`, `parse_literal`, `parse_spec_constant_op`, the typed decode methods, `TypeTracker`) runs from its own MIR."""
import re
import z3
import sym
import mir
import tables
import gtables
import reg as regmod
from common import mir_path

BV64 = lambda n: z3.BitVecVal(n, 64)


class Setting:
    def __init__(self):
        self.registry = regmod.build_registry()
        self.mf = mir.MirFile(mir_path("rspirv"))
        self.ms = mir.MirFile(mir_path("spirv"))
        self.enums, self.masks = tables.spirv_decls()
        self.T = gtables.load_tables()
        self.LEN = z3.BitVec("LEN", 64)
        self.MEM = z3.Array("MEM", z3.BitVecSort(64), z3.BitVecSort(32))
        self.decode_methods = decode_method_table()
        self.consts = {}
        for m, d in self.masks.items():
            for n, v in d["consts"]:
                self.consts["%s::%s" % (m, n)] = z3.BitVecVal(v, 32)
        self.maskall = {m: sum_bits(d["consts"]) for m, d in self.masks.items()}
        self.tracker_fields = None

    # ---------------------------------------------------------------- decoder model
    def decoder_value(self, off, limit):
        """Adt for `Decoder { bytes, offset, limit }`; limit: None | z3 BV64"""
        lim = sym.Adt("Option", "None", []) if limit is None else sym.Adt("Option", "Some", [limit])
        return sym.Adt("Decoder", None, [sym.Sym("bytes", "&[u8]"), off, lim])

    def m_word(self, engine, st, fr, callee, args, ops):
        r = args[0]
        d = sym._deref_arg(engine, st, r)
        _bytes, off, lim = d.fields
        derr = "binary::autogen_error::Error"
        alts = []
        room = z3.And(z3.ULT(off, self.LEN), z3.ULE(off + 4, self.LEN), z3.ULE(off, off + 4))
        ok_val = sym.Adt("Result", "Ok", [z3.Select(self.MEM, off)])

        def with_state(new_off, new_lim):
            return _SetDecoder(r, sym.Adt("Decoder", None, [_bytes, new_off, new_lim]))
        if lim.variant == "Some":
            l = lim.fields[0]
            alts.append((l == 0, sym.Adt("Result", "Err", [sym.Adt(derr, "LimitReached", [off])]), ("dec", "word", "limit")))
            nl = sym.Adt("Option", "Some", [z3.simplify(l - 1)])
            alts.append((z3.And(l != 0, z3.Not(room)), _Seq(with_state(off, nl), sym.Adt("Result", "Err", [sym.Adt(derr, "StreamExpected", [off])])),
                         ("dec", "word", "stream")))
            alts.append((z3.And(l != 0, room), _Seq(with_state(z3.simplify(off + 4), nl), ok_val), ("dec", "word", "ok", off)))
        else:
            alts.append((z3.Not(room), sym.Adt("Result", "Err", [sym.Adt(derr, "StreamExpected", [off])]), ("dec", "word", "stream")))
            alts.append((room, _Seq(with_state(z3.simplify(off + 4), lim), ok_val), ("dec", "word", "ok", off)))
        return sym.Fork(alts)

    def m_string(self, engine, st, fr, callee, args, ops):
        r = args[0]
        d = sym._deref_arg(engine, st, r)
        _bytes, off, lim = d.fields
        k = z3.BitVec(engine.fresh_name("strwords"), 64)
        derr = "binary::autogen_error::Error"
        fits = z3.And(z3.UGE(k, 1), z3.ULE(k, 1 << 20), z3.ULE(off + 4 * k, self.LEN))
        if lim.variant == "Some":
            fits = z3.And(fits, z3.ULE(k, lim.fields[0]))
            nl = sym.Adt("Option", "Some", [z3.simplify(lim.fields[0] - k)])
        else:
            nl = lim
        s = sym.Sym(engine.fresh_name("string"), "String")
        new = sym.Adt("Decoder", None, [_bytes, z3.simplify(off + 4 * k), nl])
        return sym.Fork([
            (fits, _Seq(_SetDecoder(r, new), sym.Adt("Result", "Ok", [s])), ("dec", "string", "ok", k)),
            (True, sym.Adt("Result", "Err", [sym.Sym(engine.fresh_name("strerr"), derr)]), ("dec", "string", "err")),
        ])

    def m_from_u32(self, engine, st, fr, callee, args, ops):
        m = re.search(r"(\w+)::from_u32$", callee.replace("spirv::", ""))
        name = m.group(1)
        D = sorted(set(v for _, v in self.enums[name]["variants"]))
        w = args[0]
        inD = z3.Or(*[w == z3.BitVecVal(v, 32) for v in D])
        return sym.Fork([(inD, sym.Adt("Option", "Some", [w]), ("enum", name, "known")),
                         (z3.Not(inD), sym.Adt("Option", "None", []), ("enum", name, "unknown"))])

    def m_from_bits(self, engine, st, fr, callee, args, ops):
        m = re.search(r"<impl (?:spirv::)?(\w+)>::from_bits$", callee)
        name = m.group(1)
        w = args[0]
        ok = (w & z3.BitVecVal(~self.maskall[name] & 0xffffffff, 32)) == 0
        return sym.Fork([(ok, sym.Adt("Option", "Some", [w]), ("mask", name, "known")),
                         (z3.Not(ok), sym.Adt("Option", "None", []), ("mask", name, "unknown"))])

    def m_from_bits_truncate(self, engine, st, fr, callee, args, ops):
        """bitflags contract: the declared bits of the argument, undeclared ones dropped (`_retain`: kept)"""
        m = re.search(r"<impl (?:spirv::)?(\w+)>::from_bits_(truncate|retain)$", callee)
        w = args[0]
        return w if m.group(2) == "retain" else z3.simplify(w & z3.BitVecVal(self.maskall[m.group(1)], 32))

    def m_contains(self, engine, st, fr, callee, args, ops):
        a = sym._deref_arg(engine, st, args[0])
        b = args[1]
        return z3.simplify((a & b) == b)

    def m_flag_guarded(self, handler):
        """only for the declared bit-mask types of the spirv crate"""
        def h(engine, st, fr, callee, args, ops):
            m = re.search(r"<(?:impl )?(?:spirv::)?(\w+)", callee)
            if not m or m.group(1) not in self.maskall:
                raise mir.Unsupported("call to %r has neither model nor inline rule (not a declared bit-mask type)" % callee)
            return handler(engine, st, fr, callee, args, ops)
        return h

    def m_flag_op(self, engine, st, fr, callee, args, ops):
        """bitflags algebra (the value is its bits): |, &, ^, - (difference), ! (complement within the declared bits), intersects, is_empty,
        union / intersection / difference / complement, is_all, all, empty"""
        vals = [sym._deref_arg(engine, st, a) if isinstance(a, sym.Ref) else a for a in args]
        m = re.search(r"<(?:impl )?(?:spirv::)?(\w+)(?: as \w+)?>::(\w+)$", callee)
        name, op = m.group(1), m.group(2)
        allb = z3.BitVecVal(self.maskall[name], 32)
        if op in ("bitor", "union"):
            return z3.simplify(vals[0] | vals[1])
        if op in ("bitand", "intersection"):
            return z3.simplify(vals[0] & vals[1])
        if op in ("bitxor", "symmetric_difference"):
            return z3.simplify(vals[0] ^ vals[1])
        if op in ("sub", "difference"):
            return z3.simplify(vals[0] & ~vals[1])
        if op in ("not", "complement"):
            return z3.simplify(~vals[0] & allb)
        if op == "intersects":
            return z3.simplify((vals[0] & vals[1]) != 0)
        if op == "is_empty":
            return z3.simplify(vals[0] == 0)
        if op == "is_all":
            return z3.simplify((vals[0] & allb) == allb)
        if op == "all":
            return allb
        if op == "empty":
            return z3.BitVecVal(0, 32)
        raise mir.Unsupported(callee)

    def m_flag_assign(self, engine, st, fr, callee, args, ops):
        """`|=`, `&=`, `^=`, `-=`, insert, remove, toggle on a bitflags place"""
        r = args[0]
        a = sym._deref_arg(engine, st, r)
        b = sym._deref_arg(engine, st, args[1]) if isinstance(args[1], sym.Ref) else args[1]
        op = callee.rsplit("::", 1)[1]
        new = {"bitor_assign": a | b, "insert": a | b, "bitand_assign": a & b, "bitxor_assign": a ^ b, "toggle": a ^ b,
               "sub_assign": a & ~b, "remove": a & ~b}[op]
        engine.write_at(st, r.root, list(r.path), z3.simplify(new))
        return sym.UNIT

    def m_const(self, engine, st, fr, callee, args, ops):
        raise mir.Unsupported(callee)

    def m_typed_decode(self, engine, st, fr, callee, args, ops):
        name = callee.split("::")[-1]
        for mf in engine.mirs:
            c = [x for x in mf.find(name) if "decoder" in x[0] and "closure" not in x[0]]
            if len(c) == 1:
                return sym.Inline(mf.parse_item(c[0][2]), args)
        raise mir.Unsupported("cannot resolve decoder method %s" % name)

    def m_parser_method(self, engine, st, fr, callee, args, ops):
        name = re.match(r"^Parser::<'_, '_>::(\w+)$", callee).group(1)
        for mf in engine.mirs:
            c = [x for x in mf.find(name) if "binary/parser.rs" in x[0] or "autogen_parse_operand.rs" in x[0]]
            c = [x for x in c if "closure" not in x[0] and "verif" not in x[0]]
            if len(c) == 1:
                return sym.Inline(mf.parse_item(c[0][2]), args)
        raise mir.Unsupported("cannot resolve Parser::%s" % name)

    def m_ok_or(self, engine, st, fr, callee, args, ops):
        return sym.m_option_ok_or(engine, st, fr, callee, args, ops)

    def m_vec_append(self, engine, st, fr, callee, args, ops):
        r, other = args
        a = sym._deref_arg(engine, st, r)
        b = sym._deref_arg(engine, st, other)
        if not (isinstance(a, sym.Arr) and isinstance(b, sym.Arr)):
            raise mir.Unsupported("append %r / %r" % (a, b))
        engine.write_at(st, r.root, list(r.path), sym.Arr(a.items + b.items, a.kind))
        engine.write_at(st, other.root, list(other.path), sym.Arr([], b.kind))
        return sym.UNIT

    def m_u64_from_u32(self, engine, st, fr, callee, args, ops):
        return z3.ZeroExt(32, args[0])

    def m_swap_bytes(self, engine, st, fr, callee, args, ops):
        w = args[0]
        return z3.Concat(z3.Extract(7, 0, w), z3.Extract(15, 8, w), z3.Extract(23, 16, w), z3.Extract(31, 24, w))

    # ---------------------------------------------------------------- type tracker as z3 arrays
    def tracker_value(self, name="tt"):
        """A tracker whose id -> type map is arbitrary (four z3 arrays). Whatever else the tracker keeps besides the map is what
        `TypeTracker::new()` (executed from its MIR) puts there — so a tracker with further fields is still a well-formed value."""
        I = z3.BitVecSort(32)
        themap = sym.Adt("HashMapModel", None, [
            z3.Array(name + ".present", I, z3.BoolSort()), z3.Array(name + ".isfloat", I, z3.BoolSort()),
            z3.Array(name + ".width", I, I), z3.Array(name + ".signed", I, z3.BoolSort())])
        shape = getattr(self, "_tracker_shape", None)
        if shape is None:
            shape = False
            try:
                c = [x for x in self.mf.find("new") if "tracker.rs" in x[0] and "closure" not in x[0] and re.search(r"-> (\w+::)*TypeTracker", self.mf.lines[x[2]])]
                if len(c) == 1:
                    marker = sym.Adt("HashMapModel", None, [])
                    eng = self.engine([(r"^HashMap::<u32, .*>::new$|^<HashMap<u32, .*> as Default>::default$", lambda e, s_, f, c_, a, o: marker)])
                    r0 = [r for r in eng.run(self.mf.parse_item(c[0][2]), [], mem={}) if r.status == "return"]
                    if len(r0) == 1 and isinstance(r0[0].value, sym.Adt) and sum(1 for f in r0[0].value.fields if f is marker) == 1 and len(r0[0].value.fields) > 1:
                        shape = (r0[0].value, marker)
            except Exception:
                shape = False
            self._tracker_shape = shape
        if shape:
            v, marker = shape
            return sym.Adt(v.ty, v.variant, [themap if f is marker else f for f in v.fields])
        return sym.Adt("TypeTracker", None, [themap])

    def m_map_get(self, engine, st, fr, callee, args, ops):
        m = sym._deref_arg(engine, st, args[0])
        k = sym._deref_arg(engine, st, args[1])
        present, isfloat, width, signed = m.fields
        ty = "binary::tracker::Type"
        cell_i = ("h", engine.fresh_name("ttype"))
        cell_f = ("h", engine.fresh_name("ttype"))
        st.mem[cell_i] = sym.Adt(ty, "Integer", [z3.Select(width, k), z3.Select(signed, k)])
        st.mem[cell_f] = sym.Adt(ty, "Float", [z3.Select(width, k)])
        return sym.Fork([
            (z3.Not(z3.Select(present, k)), sym.Adt("Option", "None", []), ("tracker", "get", "absent")),
            (z3.And(z3.Select(present, k), z3.Not(z3.Select(isfloat, k))), sym.Adt("Option", "Some", [sym.Ref(cell_i, ())]), ("tracker", "get", "int")),
            (z3.And(z3.Select(present, k), z3.Select(isfloat, k)), sym.Adt("Option", "Some", [sym.Ref(cell_f, ())]), ("tracker", "get", "float")),
        ])

    def m_map_insert(self, engine, st, fr, callee, args, ops):
        r, k, v = args
        m = sym._deref_arg(engine, st, r)
        present, isfloat, width, signed = m.fields
        if not isinstance(v, sym.Adt):
            raise mir.Unsupported("insert of %r" % (v,))
        if v.variant == "Integer":
            new = [z3.Store(present, k, True), z3.Store(isfloat, k, False), z3.Store(width, k, v.fields[0]), z3.Store(signed, k, v.fields[1])]
        else:
            new = [z3.Store(present, k, True), z3.Store(isfloat, k, True), z3.Store(width, k, v.fields[0]), signed]
        engine.write_at(st, r.root, list(r.path), sym.Adt("HashMapModel", None, new))
        st.events.append(("tracker", "insert", k, v))
        return sym.Adt("Option", "None", [])

    def m_cloned(self, engine, st, fr, callee, args, ops):
        v = args[0]
        if isinstance(v, sym.Adt) and v.variant == "Some":
            return sym.Adt("Option", "Some", [sym._deref_arg(engine, st, v.fields[0])])
        return v

    def m_and_then(self, engine, st, fr, callee, args, ops):
        v, clo = args
        if isinstance(v, sym.Sym):
            raise mir.Unsupported("and_then on opaque option")
        if v.variant == "None":
            return v
        if isinstance(clo, sym.FnV) and "{closure" not in clo.name:
            # a named function as the callback: the wider vocabulary knows how to give it the model a direct call would get
            import stdmodels
            return stdmodels.m_option_method(engine, st, fr, callee, args, ops)
        return sym.Inline(engine.resolve_fn(clo.name), [clo, v.fields[0]])

    def models(self):
        import c12
        return [
            (r"^Decoder::<'_>::(word|id|bit32|ext_inst_integer)$", self.m_word),
            (r"^Decoder::<'_>::string$", self.m_string),
            (r"^Decoder::<'_>::\w+$", self.m_typed_decode),
            (r"^(spirv::)?\w+::from_u32$", self.m_from_u32),
            (r"<impl (spirv::)?\w+>::from_bits$", self.m_from_bits),
            (r"<impl (spirv::)?\w+>::bits$", lambda en, st, fr, cl, a, o: sym._deref_arg(en, st, a[0]) if isinstance(a[0], sym.Ref) else a[0]),
            (r"<impl (spirv::)?\w+>::from_bits_(truncate|retain)$", self.m_from_bits_truncate),
            (r"<impl (spirv::)?\w+>::contains$", self.m_contains),
            (r"^<(spirv::)?\w+ as (BitOr|BitAnd|BitXor|Sub|Not)>::(bitor|bitand|bitxor|sub|not)$", self.m_flag_guarded(self.m_flag_op)),
            (r"^<(spirv::)?\w+ as (BitOrAssign|BitAndAssign|BitXorAssign|SubAssign)>::\w+_assign$", self.m_flag_guarded(self.m_flag_assign)),
            (r"<impl (spirv::)?\w+>::(union|intersection|difference|symmetric_difference|complement|intersects|is_empty|is_all|all|empty)$", self.m_flag_guarded(self.m_flag_op)),
            (r"<impl (spirv::)?\w+>::(insert|remove|toggle)$", self.m_flag_guarded(self.m_flag_assign)),
            (r"^Parser::<'_, '_>::\w+$", self.m_parser_method),
            (r"^Vec::<.*>::append$", self.m_vec_append),
            (r"^<u64 as From<u32>>::from$", self.m_u64_from_u32),
            (r"^core::num::<impl u32>::swap_bytes$", self.m_swap_bytes),
            (r"^HashMap::<.*>::get::<", self.m_map_get),
            (r"^HashMap::<.*>::insert$", self.m_map_insert),
            (r"^Option::<&.*>::cloned$", self.m_cloned),
            (r"^Option::<.*>::and_then::<", self.m_and_then),
            (r"^TypeTracker::(resolve|track)$", lambda e, s, f, c, a, o: sym.Inline(
                [mf_.parse_item(x[2]) for mf_ in e.mirs for x in mf_.find(c.split("::")[-1]) if "tracker.rs:32" in x[0] or ("tracker" in x[0] and "87:" not in x[0] and "closure" not in x[0])][0], a)),
        ] + c12.MODELS

    def engine(self, extra_models=None, loop_bound=4):
        eng = sym.Engine([self.mf, self.ms], self.registry, models=(extra_models or []) + self.models(), inline=[r"^is_\w+$"],
                         eager=True, loop_bound=loop_bound)
        eng.extra_consts = self.consts
        eng.from_conversions = {("autogen_error::Error", "State"): lambda inner: sym.Adt("binary::parser::State", "OperandError", [inner])}
        return eng

    def parser_value(self, off, limit, inst_index, tracker=None):
        return sym.Adt("Parser", None, [self.decoder_value(off, limit), sym.Sym("consumer", "&mut dyn Consumer"),
                                        tracker or self.tracker_value(), inst_index])


class _SetDecoder:
    def __init__(self, ref, value):
        self.ref, self.value = ref, value


class _Seq:
    """Effect followed by a value (used inside Fork alternatives)."""

    def __init__(self, effect, value):
        self.effect, self.value = effect, value


def sum_bits(consts):
    a = 0
    for _, v in consts:
        a |= v
    return a


def decode_method_table():
    """decoder method name -> kind (from the generated decode methods)"""
    s = tables.src("rspirv/binary/autogen_decode_operand.rs")
    t = s.toks
    out = {}
    for i in range(len(t) - 1):
        if t[i].v == "fn" and t[i + 1].k == "id":
            j = i
            while t[j].v != "{":
                j += 1
            sig = [x.v for x in t[i:j]]
            if "spirv" in sig:
                out[t[i + 1].v] = sig[sig.index("spirv") + 2]
    return out


def install_effects():
    """Teach the engine's call completion about `_Seq` / `_SetDecoder` outputs."""
    orig = sym.Engine._complete

    def _complete(self, st, fr, dest, ret_bb, out, callee):
        if isinstance(out, _Seq):
            e = out.effect
            if isinstance(e, _SetDecoder):
                self.write_at(st, e.ref.root, list(e.ref.path), e.value)
            out = out.value
        return orig(self, st, fr, dest, ret_bb, out, callee)
    if not getattr(sym.Engine, "_parsersym_installed", False):
        sym.Engine._complete = _complete
        sym.Engine._parsersym_installed = True


install_effects()
