"""Builds the enum registry the MIR engine needs (variant -> discriminant, C-like or not) from the
current sources."""
import os
from rtok import read_enums, enum_discriminants
from sym import Registry
import tables

RSPIRV_ENUM_FILES = [
    ("rspirv/grammar/syntax.rs", ["syntax", "grammar::syntax"]),
    ("rspirv/grammar/autogen_table.rs", ["syntax", "grammar::syntax"]),
    ("rspirv/binary/parser.rs", ["parser", "binary::parser"]),
    ("rspirv/binary/autogen_error.rs", ["autogen_error", "binary::autogen_error", "decoder", "binary"]),
    ("rspirv/binary/tracker.rs", ["tracker", "binary::tracker"]),
    ("rspirv/dr/loader.rs", ["loader", "dr::loader", "dr"]),
    ("rspirv/dr/autogen_operand.rs", ["constructs", "dr::constructs", "dr"]),
    ("rspirv/dr/build/mod.rs", ["build", "dr::build"]),
    ("rspirv/sr/autogen_types.rs", ["types", "sr::types", "sr"]),
    ("rspirv/sr/constants.rs", ["constants", "sr::constants", "sr"]),
    ("rspirv/lift/mod.rs", ["lift"]),
    ("rspirv/sr/autogen_ops.rs", ["autogen_ops", "sr::autogen_ops", "ops", "sr::ops"]),
]


def build_registry():
    reg = Registry()
    enums, masks = tables.spirv_decls()
    for name, d in enums.items():
        reg.add(name, d["variants"], True, 32)
        reg.add("spirv::" + name, d["variants"], True, 32)
    seen = {}
    for rel, mods in RSPIRV_ENUM_FILES:
        s = tables.src(rel)
        for name, d in read_enums(s).items():
            variants = enum_discriminants(d)
            clike = not any(p for _, _, p in d["variants"])
            for m in mods:
                reg.add("%s::%s" % (m, name), variants, clike, 64 if not d["repr"] else 32)
            seen.setdefault(name, []).append((rel, variants, clike, d["repr"]))
    for name, lst in seen.items():
        if len(lst) == 1 and name not in reg.enums:
            rel, variants, clike, rp = lst[0]
            reg.add(name, variants, clike, 64 if not rp else 32)
    # well-known aliases used in MIR output
    if "autogen_error::Error" in reg.enums:
        reg.enums["DecodeError"] = reg.enums["autogen_error::Error"]
    return reg
