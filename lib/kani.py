"""Engine K: runs Kani harnesses of /verif/kani against the current tree, in parallel, under time and
memory caps; turns counterexamples into scenario inputs and replays them natively before reporting."""
import os
import re
import shutil
import subprocess
import threading
import time
from concurrent.futures import ThreadPoolExecutor

import common
from common import VERIF, REPO, workdir, cargo_env, FileLock, Inconclusive, Replay

KANI_DIR = os.path.join(VERIF, "kani")


class KResult:
    def __init__(self, harness):
        self.harness = harness
        self.status = None        # 'success' | 'failed' | 'error' | 'timeout'
        self.failed_checks = []   # descriptions
        self.cover_ok = None
        self.raw = None           # counterexample bytes
        self.time = 0.0
        self.log = ""
        self.checks_total = 0


def prepare():
    """Per-tree copy of the harness crate (so that generated files and the lock file never race)."""
    wd = workdir()
    dst = os.path.join(wd, "kani-src")
    with FileLock(os.path.join(wd, ".kani-src.lock")):
        stamp = os.path.join(dst, ".stamp")
        key = _digest(KANI_DIR)
        if os.path.exists(stamp) and open(stamp).read() == key:
            return dst
        if os.path.exists(dst):
            shutil.rmtree(dst)
        shutil.copytree(KANI_DIR, dst, ignore=shutil.ignore_patterns("target", "Cargo.lock"))
        shutil.copyfile(common.repo_lockfile(), os.path.join(dst, "Cargo.lock"))
        ct = open(os.path.join(dst, "Cargo.toml")).read().replace('"/repo/', '"%s/' % REPO)
        open(os.path.join(dst, "Cargo.toml"), "w").write(ct)
        gen = os.path.join(dst, "src", "gen.rs")
        write_generated(gen)
        with open(stamp, "w") as f:
            f.write(key)
    return dst


def write_generated(path):
    import genscen
    txt = genscen.generate()
    with open(path, "w") as f:
        f.write(txt)


def _digest(d):
    import hashlib
    h = hashlib.sha256()
    for root, dirs, fs in os.walk(d):
        dirs[:] = [x for x in dirs if x != "target"]
        for f in sorted(fs):
            if f == "Cargo.lock":
                continue
            with open(os.path.join(root, f), "rb") as fh:
                h.update(f.encode())
                h.update(fh.read())
    # generated scenarios depend on the tree; the work dir is already keyed by the tree hash
    for extra in ("genscen.py",):
        p = os.path.join(VERIF, "lib", extra)
        if os.path.exists(p):
            h.update(open(p, "rb").read())
    return h.hexdigest()


_slots = None
_slot_lock = threading.Lock()


def _acquire_slot(nslots):
    global _slots
    with _slot_lock:
        if _slots is None:
            _slots = list(range(nslots))
    while True:
        with _slot_lock:
            if _slots:
                return _slots.pop()
        time.sleep(0.2)


def _release_slot(s):
    with _slot_lock:
        _slots.append(s)


def run_harness(src, harness, cap_s, mem_gb, slot, extra_args=()):
    wd = workdir()
    tdir = os.path.join(wd, "kani-target-%d" % slot)
    base = ["cargo", "kani", "--target-dir", tdir, "--harness", (harness if "::" in harness else "proofs::" + harness), "--exact",
            "-Z", "stubbing"] + list(extra_args)
    env = cargo_env()
    r = KResult(harness)
    # two checks running at the same time on the same tree share this work directory: one cargo-kani per target dir at a time
    import fcntl
    lockf = open(tdir + ".lock", "w")
    fcntl.flock(lockf, fcntl.LOCK_EX)
    t = time.time()

    def go(cmd):
        shell = "ulimit -v %d; exec timeout %d %s" % (mem_gb * 1024 * 1024, cap_s, " ".join("'%s'" % c for c in cmd))
        try:
            p = subprocess.run(["bash", "-c", shell], cwd=src, env=env, stdout=subprocess.PIPE, stderr=subprocess.STDOUT, text=True)
            return p.stdout, p.returncode
        except Exception as e:  # pragma: no cover
            return str(e), -1

    out, rc = go(base)
    if rc != 124 and "VERIFICATION:- FAILED" in out and "Status: ERROR" not in out:
        # second run only to extract the counterexample values
        out2, rc2 = go(base + ["-Z", "concrete-playback", "--concrete-playback=print"])
        if "concrete_vals" in out2:
            out = out + "\n" + out2
    r.time = time.time() - t
    r.log = out
    try:
        fcntl.flock(lockf, fcntl.LOCK_UN)
        lockf.close()
    except OSError:
        pass
    try:
        ld = os.path.join(wd, "kani-logs")
        os.makedirs(ld, exist_ok=True)
        with open(os.path.join(ld, harness.replace("::", "_") + ".log"), "w") as f:
            f.write(out)
    except OSError:
        pass
    m = re.search(r"\*\* (\d+) of (\d+) failed", out)
    if m:
        r.checks_total = int(m.group(2))
    if rc == 124:
        r.status = "timeout"
    elif "VERIFICATION:- SUCCESSFUL" in out:
        r.status = "success"
    elif "VERIFICATION:- FAILED" in out and "Status: ERROR" not in out and "CBMC failed" not in out:
        r.status = "failed"
        r.failed_checks = re.findall(r"Failed Checks: (.*)", out)
        # one playback test per failing check is printed; each is a complete input, take the first
        blocks = out.split("fn kani_concrete_playback")
        r.raws = []
        for blk in blocks[1:]:
            body = blk.split("kani::concrete_playback_run")[0]
            flat = []
            for v in re.findall(r"vec!\[([\d, ]*)\]", body):
                flat += [int(x) for x in v.split(",") if x.strip()]
            if flat:
                r.raws.append(bytes(flat))
        r.raw = r.raws[0] if r.raws else None
    else:
        r.status = "error"
    mc = re.search(r"\*\* (\d+) of (\d+) cover properties satisfied", out)
    if mc:
        r.cover_ok = mc.group(1) == mc.group(2)
    return r


def run_many(harnesses, cap_s=300, mem_gb=14, workers=5):
    """harnesses: list of names (or (name, extra_args)). Returns {name: KResult}."""
    src = prepare()
    n = min(workers, len(harnesses)) or 1
    global _slots
    _slots = None

    def job(h):
        name, extra = (h, ()) if isinstance(h, str) else h
        slot = _acquire_slot(n)
        try:
            return name, run_harness(src, name, cap_s, mem_gb, slot, extra)
        finally:
            _release_slot(slot)

    out = {}
    with ThreadPoolExecutor(max_workers=n) as ex:
        for name, r in ex.map(job, harnesses):
            out[name] = r
    return out


def code_names():
    """error code -> name, read from the scenario sources (pub const E_*: u32 = N;)."""
    names = {}
    for f in os.listdir(os.path.join(KANI_DIR, "src")):
        if f.endswith(".rs"):
            for m in re.finditer(r"pub const (E_\w+): u32 = (\d+);", open(os.path.join(KANI_DIR, "src", f)).read()):
                names[int(m.group(2))] = m.group(1)
    try:
        import genscen
        names.update(genscen.CODE_NAMES)
    except Exception:
        pass
    return names


def settle(ctx, results, scenario_of, bounds_of=None, optional=()):
    """Turn Kani results into obligations / violations on ctx. scenario_of: harness -> scenario name for replay.
    optional: harnesses that only ADD depth to an obligation another engine already decides in the same check: when CBMC gives
    no verdict within the cap (and native sampling finds nothing) this is recorded in the evidence, not counted as inconclusive."""
    names = code_names()
    rp = None
    for h, r in sorted(results.items()):
        ctx.queries += 1
        ctx.solver_time += r.time
        detail = "%s in %.1fs, %d CBMC checks" % (r.status, r.time, r.checks_total)
        if r.status == "success":
            ctx.unsat += 1
            if r.cover_ok is False:
                ctx.ob("kani/" + h, None, "vacuous: the reachability cover was not satisfied")
            else:
                ctx.ob("kani/" + h, True, detail, sample=True)
            continue
        if r.status in ("timeout", "error"):
            # the solver gave no verdict: the scenario (a total function of its raw bytes) is at least run natively on structured
            # pseudo-random inputs; a concrete violating input against the real code is reported, absence of one proves nothing
            if rp is None:
                rp = Replay()
            found = native_sample(rp, scenario_of(h), int(os.environ.get("VERIF_SEED", "0")))
            if found:
                raw, real, role, what = found
                ctx.validated += 1
                ctx.ob("kani/%s/%s" % (h, role), False, what)
                ctx.violation(role, what + " | found by native sampling after CBMC gave no verdict (%s)" % detail, {"cmd": "scenario %s %s" % (scenario_of(h), raw.hex()), "real": real})
            elif h in optional:
                ctx.extra.setdefault("kani_no_verdict", []).append("%s: %s (native sampling found nothing; the obligation is decided by the MIR leg of this check)" % (h, detail))
            else:
                ctx.ob("kani/" + h, None, detail + " (native sampling of the scenario found nothing)\n" + r.log[-600:])
            continue
        ctx.sat += 1
        if r.raw is None:
            ctx.ob("kani/" + h, None, "failed without a concrete counterexample: %s" % r.failed_checks[:4])
            continue
        if rp is None:
            rp = Replay()
            rp_rel = None
        scen = scenario_of(h)
        seen_roles = set()
        reproduced = 0
        for raw in getattr(r, "raws", [r.raw]):
            real = rp.ask("scenario %s %s" % (scen, raw.hex()))
            ctx.validated += 1
            code = real.get("code")
            if "panic" in real:
                role = "%s/panic/%s" % (scen, normalise_panic(real["panic"], real.get("at", "")))
                what = "%s panics on input %s: %s (%s)" % (scen, raw.hex(), real["panic"], real.get("at"))
            elif code is not None and code >= 100:
                role = "%s/%s" % (scen, names.get(code, "code%d" % code))
                what = "%s violates %s on input %s" % (scen, names.get(code, code), raw.hex())
            else:
                continue
            reproduced += 1
            if role in seen_roles:
                continue
            seen_roles.add(role)
            ctx.ob("kani/%s/%s" % (h, role), False, what)
            ctx.violation(role, what + " | CBMC: " + "; ".join(r.failed_checks[:3]), {"cmd": "scenario %s %s" % (scen, raw.hex()), "real": real})
        if not reproduced:
            ctx.ob("kani/" + h, None, "counterexample(s) %s do not reproduce natively; failed checks: %s" % (
                [x.hex() for x in getattr(r, "raws", [r.raw])][:3], r.failed_checks[:3]))
    if rp:
        rp.close()


def native_sample(rp, scen, seed, n=6000):
    """-> (raw, answer, role, description) of the first structured pseudo-random input on which the scenario reports a violation"""
    import random
    rnd = random.Random(1000003 * seed + len(scen))
    names = code_names()
    for k in range(n):
        ln = 64
        mode = k % 6
        if mode >= 4:
            # decoder-state layout [len, offset, limit tag, limit (8 bytes LE), arg, buffer...] with a SMALL limit (0..4) or none
            blen = rnd.randrange(13)
            off_ = 4 * rnd.randrange(blen // 4 + 1)
            tag = rnd.randrange(2)
            lim = [rnd.randrange(5)] + [0] * 7 if mode == 4 else [rnd.choice((0, 1, 2, 0xff)) for _ in range(8)]
            raw = bytes([blen, off_, tag] + lim + [rnd.randrange(256)] + [rnd.choice((0, 0, 1, 0x41, 0x80, 0xff)) if rnd.random() < 0.6 else rnd.randrange(256) for _ in range(ln - 12)])
            real = rp.ask("scenario %s %s" % (scen, raw.hex()))
            code = real.get("code")
            if "panic" in real:
                return raw, real, "%s/panic/%s" % (scen, normalise_panic(real["panic"], real.get("at", ""))), "%s panics on input %s: %s (%s)" % (scen, raw.hex(), real["panic"], real.get("at"))
            if code is not None and code >= 100:
                return raw, real, "%s/%s" % (scen, names.get(code, "code%d" % code)), "%s violates %s on input %s" % (scen, names.get(code, code), raw.hex())
            if "error" in real:
                return None
            continue
        if mode == 0:
            raw = bytes(rnd.choice((0, 1, 2, 3, 4, 5, 6, 8, 12, 0x7f, 0x80, 0xff)) if rnd.random() < 0.7 else rnd.randrange(256) for _ in range(ln))
        elif mode == 1:
            raw = bytes(rnd.randrange(16) for _ in range(ln))
        elif mode == 2:
            raw = bytes([rnd.randrange(13), 4 * rnd.randrange(4), rnd.randrange(2)] + [rnd.choice((0, 1, 2, 3, 0xff)) for _ in range(8)] + [rnd.randrange(256)] +
                        [rnd.choice((0, 0, 0x41, 0x62, 0x80, 0xc3, 0xe9, 0xff)) for _ in range(ln - 12)])
        else:
            raw = bytes(rnd.randrange(256) for _ in range(ln))
        real = rp.ask("scenario %s %s" % (scen, raw.hex()))
        code = real.get("code")
        if "panic" in real:
            return raw, real, "%s/panic/%s" % (scen, normalise_panic(real["panic"], real.get("at", ""))), "%s panics on input %s: %s (%s)" % (scen, raw.hex(), real["panic"], real.get("at"))
        if code is not None and code >= 100:
            return raw, real, "%s/%s" % (scen, names.get(code, "code%d" % code)), "%s violates %s on input %s" % (scen, names.get(code, code), raw.hex())
        if "error" in real:
            return None
    return None


def normalise_panic(msg, at=""):
    m = re.sub(r"\d+", "N", msg)
    f = at.split(":")[0].split("/")[-1] if at else ""
    return (f + ":" if f else "") + m[:70]
