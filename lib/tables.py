"""Table extraction (engine T) from the checked-in generated sources of the current tree."""
import os
import re
from rtok import (Src, ShapeError, read_enums, enum_discriminants, match_close, split_commas, match_arms,
                  split_alternatives, find_fn, num_value, str_value, text, skip_attrs)
from common import REPO

_cache = {}


def src(rel):
    p = os.path.join(REPO, rel)
    key = (p, os.path.getmtime(p))
    if key not in _cache:
        _cache[key] = Src(p)
    return _cache[key]


# ------------------------------------------------------------------ spirv crate
def spirv_decls():
    """enums: name -> dict(variants=[(name,val)], aliases=[(alias, variant)], from_str=[(string, variant)]|None,
                          ranges=[(lo,hi)]|None, line)
       masks: name -> dict(consts=[(name,val)], line)"""
    s = src("spirv/autogen_spirv.rs")
    toks = s.toks
    enums = {}
    for name, d in read_enums(s).items():
        enums[name] = dict(variants=enum_discriminants(d), repr=d["repr"], line=d["line"], aliases=[], from_str=None,
                           ranges=None)
    # alias constants:  impl Name { pub const A: Self = Self::B; ... }
    i = 0
    n = len(toks)
    while i < n:
        if toks[i].v == "impl" and toks[i + 1].k == "id" and toks[i + 2].v == "{" and toks[i + 1].v in enums:
            name = toks[i + 1].v
            k = match_close(toks, i + 2)
            j = i + 3
            while j < k:
                if toks[j].v == "const" and toks[j - 1].v == "pub":
                    # pub const A : Self = Self :: B ;
                    seq = [t.v for t in toks[j:j + 9]]
                    if seq[2] == ":" and seq[3] in ("Self", name) and seq[4] == "=" and seq[5] in ("Self", name) \
                            and seq[6] == "::" and seq[8] == ";":
                        enums[name]["aliases"].append((seq[1], seq[7]))
                        j += 9
                        continue
                    raise ShapeError("alias constant in impl %s at line %d" % (name, toks[j].line))
                if toks[j].v == "fn" and toks[j + 1].v == "from_u32":
                    f = find_fn(toks, "from_u32", j, k)
                    body = toks[f[1] + 1:f[2]]
                    # Some(match n { a..=b => unsafe {...}, _ => return None, })
                    mi = [x for x, t in enumerate(body) if t.v == "match"]
                    if len(mi) != 1:
                        raise ShapeError("from_u32 of %s" % name)
                    bo = mi[0] + 2
                    if body[bo].v != "{":
                        raise ShapeError("from_u32 match of %s" % name)
                    bc = match_close(body, bo)
                    ranges = []
                    for pat, expr in match_arms(body[bo + 1:bc]):
                        pv = [t.v for t in pat]
                        if pv == ["_"]:
                            continue
                        if len(pat) == 3 and pat[1].v == "..=":
                            ranges.append((num_value(pat[0]), num_value(pat[2])))
                        elif len(pat) == 1 and pat[0].k == "num":
                            ranges.append((num_value(pat[0]), num_value(pat[0])))
                        else:
                            raise ShapeError("from_u32 arm of %s at line %d" % (name, pat[0].line))
                    enums[name]["ranges"] = ranges
                    j = f[2]
                j += 1
            i = k + 1
            continue
        # impl core::str::FromStr for Name { ... }
        if toks[i].v == "impl" and [t.v for t in toks[i + 1:i + 7]] == ["core", "::", "str", "::", "FromStr", "for"]:
            name = toks[i + 7].v
            o = i + 8
            k = match_close(toks, o)
            f = find_fn(toks, "from_str", o, k)
            body = toks[f[1] + 1:f[2]]
            mi = [x for x, t in enumerate(body) if t.v == "match"]
            bo = mi[0] + 2
            bc = match_close(body, bo)
            arms = []
            for pat, expr in match_arms(body[bo + 1:bc]):
                if [t.v for t in pat] == ["_"]:
                    continue
                for alt in split_alternatives(pat):
                    if len(alt) != 1 or alt[0].k != "str":
                        raise ShapeError("FromStr arm of %s at line %d" % (name, pat[0].line))
                    ev = [t.v for t in expr]
                    if ev and ev[0] == "{" and ev[-1] == "}":
                        ev = ev[1:-1]
                    if len(ev) != 3 or ev[0] != "Self" or ev[1] != "::":
                        raise ShapeError("FromStr arm value of %s at line %d" % (name, pat[0].line))
                    arms.append((str_value(alt[0]), ev[2]))
            if name in enums:
                enums[name]["from_str"] = arms
            i = k + 1
            continue
        i += 1
    # bitflags
    masks = {}
    for i in s.find_all(["bitflags!", "{"]):
        k = match_close(toks, i + 1)
        j = i + 2
        j, _ = skip_attrs(toks, j)
        if [t.v for t in toks[j:j + 2]] != ["pub", "struct"]:
            raise ShapeError("bitflags shape at line %d" % toks[i].line)
        name = toks[j + 2].v
        if toks[j + 3].v != ":" or toks[j + 4].v != "u32" or toks[j + 5].v != "{":
            raise ShapeError("bitflags struct %s" % name)
        e = match_close(toks, j + 5)
        consts = []
        p = j + 6
        while p < e:
            p, _ = skip_attrs(toks, p)
            if p >= e:
                break
            seq = toks[p:p + 5]
            if seq[0].v != "const" or seq[2].v != "=" or seq[4].v != ";":
                raise ShapeError("bitflags const in %s at line %d" % (name, toks[p].line))
            consts.append((seq[1].v, num_value(seq[3])))
            p += 5
        masks[name] = dict(consts=consts, line=toks[i].line)
    return enums, masks


# ------------------------------------------------------------------ operand parameter tables (C17, C02, C03)
def _fn_body(s, name, start=0):
    t = s.toks
    for i in range(start, len(t) - 1):
        if t[i].v == "fn" and t[i + 1].v == name:
            j = i
            while t[j].v != "{":
                j += 1
            k = match_close(t, j)
            return t[j + 1:k], i
    raise ShapeError("fn %s not found in %s" % (name, s.path))


def _split_top(toks, sep):
    out, cur, depth = [], [], 0
    for t in toks:
        if t.k == "p":
            if t.v in "([{":
                depth += 1
            elif t.v in ")]}":
                depth -= 1
            elif t.v == sep and depth == 0:
                out.append(cur)
                cur = []
                continue
        cur.append(t)
    if cur:
        out.append(cur)
    return out


def _operand_ctor_list(toks):
    """`vec![dr::Operand::V(self.decoder.m()?), ...]` -> [(V, m)]"""
    vals = [t.v for t in toks]
    if vals[:3] != ["vec!", "["] and not (vals[0] == "vec!" and vals[1] == "["):
        raise ShapeError("expected vec![..] at line %d: %s" % (toks[0].line, " ".join(vals[:8])))
    c = match_close(toks, 1)
    if c != len(toks) - 1:
        raise ShapeError("trailing tokens after vec![..] at line %d" % toks[0].line)
    out = []
    for item in split_commas(toks[2:c]):
        iv = [t.v for t in item]
        if iv[-2:] == [",", ")"]:
            iv = iv[:-2] + [")"]
        # dr :: Operand :: V ( self . decoder . m ( ) ? )
        if iv[:4] == ["dr", "::", "Operand", "::"] and iv[5] == "(" and iv[6:10] == ["self", ".", "decoder", "."] and iv[11:15] == ["(", ")", "?", ")"] and len(iv) in (15, 16):
            out.append((iv[4], iv[10]))
        else:
            raise ShapeError("operand constructor at line %d: %s" % (item[0].line, " ".join(iv)))
    return out


def _strip_block(toks):
    if toks and toks[0].v == "{" and match_close(toks, 0) == len(toks) - 1:
        return toks[1:-1]
    return toks


def parse_operand_arms():
    """kind -> dict(operands=[(Variant, decoder_method)], args_fn=str|None, panic=bool) from Parser::parse_operand."""
    s = src("rspirv/binary/autogen_parse_operand.rs")
    body, _ = _fn_body(s, "parse_operand")
    vals = [t.v for t in body]
    mi = vals.index("match")
    bo = mi + 2
    bc = match_close(body, bo)
    out = {}
    for pat, expr in match_arms(body[bo + 1:bc]):
        for alt in split_alternatives(pat):
            av = [t.v for t in alt]
            if av[:2] != ["GOpKind", "::"] or len(av) != 3:
                raise ShapeError("parse_operand pattern at line %d" % alt[0].line)
            kind = av[2]
            e = _strip_block(expr)
            ev = [t.v for t in e]
            if ev[:1] == ["panic!"]:
                out[kind] = dict(operands=[], args_fn=None, panic=True)
                continue
            if ev[0] == "vec!":
                out[kind] = dict(operands=_operand_ctor_list(e), args_fn=None, panic=False)
                continue
            # { let val = self.decoder.m()?; let mut ops = vec![dr::Operand::V(val)]; ops.append(&mut self.parse_x_arguments(val)?); ops }
            txt = " ".join(ev)
            import re as _re
            m = _re.match(r"^let val = self \. decoder \. (\w+) \( \) \? ; let mut ops = vec! \[ dr :: Operand :: (\w+) \( val \) \] ; "
                          r"ops \. append \( & mut self \. (\w+) \( val \) \? \) ; ops$", txt)
            if not m:
                # an irregular arm: keep what can be read (first operand constructor, the *_arguments call) and flag it; the checks
                # that need the exact shape report it, the MIR-based ones go on
                m1 = _re.search(r"self \. decoder \. (\w+) \( \)", txt)
                m2 = _re.search(r"dr :: Operand :: (\w+) \(", txt)
                m3 = _re.search(r"self \. (parse_\w+_arguments) \(", txt)
                if not (m1 and m2):
                    raise ShapeError("parse_operand arm for %s at line %d: %s" % (kind, alt[0].line, txt[:160]))
                out[kind] = dict(operands=[(m2.group(1), m1.group(1))], args_fn=m3.group(1) if m3 else None, panic=False, irregular=txt[:200])
                continue
            out[kind] = dict(operands=[(m.group(2), m.group(1))], args_fn=m.group(3), panic=False)
    return out


def parse_arguments_tables():
    """fn name -> dict(kind=K, form='mask'|'enum', entries=[([names], [(Variant, method)])], line)"""
    s = src("rspirv/binary/autogen_parse_operand.rs")
    t = s.toks
    out = {}
    i = 0
    while i < len(t) - 1:
        if t[i].v == "fn" and t[i + 1].k == "id" and t[i + 1].v.startswith("parse_") and t[i + 1].v.endswith("_arguments"):
            name = t[i + 1].v
            j = i
            while t[j].v != "{":
                j += 1
            k = match_close(t, j)
            sig = [x.v for x in t[i:j]]
            kind = sig[sig.index("spirv") + 2]
            body = t[j + 1:k]
            bv = [x.v for x in body]
            entries = []
            try:
                _parse_arguments_fn(name, kind, body, bv, entries, out, t[i].line)
            except ShapeError as ex:
                # a hand-restructured table: not readable token-wise; the MIR legs (c03.mask_parameter_bits / enum_parameter_values)
                # execute the function itself and do not depend on this reader
                out[name] = dict(kind=kind, form="irregular", entries=[], line=t[i].line, irregular=str(ex))
            i = k
        else:
            i += 1
    return out


def _parse_arguments_fn(name, kind, body, bv, entries, out, line):
    if True:
        if True:
            t = None
            if bv[:6] == ["let", "mut", "params", "=", "vec!", "["]:
                # mask form: sequence of `if x.contains(spirv::K::BIT) { params.append(&mut vec![...]); }`
                p = bv.index(";") + 1
                else_of = {}       # entry index -> indices of the earlier entries of its `if .. else if ..` chain
                chain = []
                while p < len(body) and (body[p].v == "if" or (body[p].v == "else" and p + 1 < len(body) and body[p + 1].v == "if")):
                    if body[p].v == "else":
                        p += 1
                        else_of[len(entries)] = list(chain)
                    else:
                        chain = []
                    chain.append(len(entries))
                    o = p
                    while body[o].v != "{":
                        o += 1
                    cond = [x.v for x in body[p + 1:o]]
                    if not (cond[1:3] == [".", "contains"] and cond[3] == "(" and cond[4:7] == ["spirv", "::", kind] and cond[7] == "::" and cond[9] == ")"):
                        raise ShapeError("mask argument condition in %s at line %d: %s" % (name, body[p].line, " ".join(cond)))
                    bit = cond[8]
                    c = match_close(body, o)
                    inner = body[o + 1:c]
                    iv = [x.v for x in inner]
                    if iv[:6] != ["params", ".", "append", "(", "&", "mut"] or iv[-2:] != [")", ";"]:
                        raise ShapeError("mask argument body in %s at line %d" % (name, body[o].line))
                    entries.append(([bit], _operand_ctor_list(inner[6:-2])))
                    p = c + 1
                rest = [x.v for x in body[p:]]
                if rest != ["Ok", "(", "params", ")"]:
                    raise ShapeError("tail of %s: %s" % (name, " ".join(rest)))
                form = "mask"
            else:
                if bv[:3] != ["Ok", "(", "match"]:
                    raise ShapeError("shape of %s at line %d" % (name, line))
                bo = bv.index("{")
                bc = match_close(body, bo)
                for pat, expr in match_arms(body[bo + 1:bc]):
                    pv = [x.v for x in pat]
                    if pv == ["_"]:
                        if [x.v for x in expr] != ["vec!", "[", "]"]:
                            raise ShapeError("default arm of %s" % name)
                        continue
                    names = []
                    for alt in split_alternatives(pat):
                        av = [x.v for x in alt]
                        if av[:4] != ["spirv", "::", kind, "::"] or len(av) != 5:
                            raise ShapeError("pattern in %s at line %d" % (name, alt[0].line))
                        names.append(av[4])
                    entries.append((names, _operand_ctor_list(_strip_block(expr))))
                form = "enum"
            out[name] = dict(kind=kind, form=form, entries=entries, line=line)
            if form == "mask" and else_of:
                out[name]["else_of"] = else_of


def _logical_operand_list(toks):
    """`LogicalOperand { kind: ..::OperandKind::K, quantifier: ..::OperandQuantifier::Q }, ...` -> [(K, Q)]"""
    out = []
    for item in split_commas(toks):
        iv = [t.v for t in item]
        try:
            ki = iv.index("OperandKind")
            qi = iv.index("OperandQuantifier")
        except ValueError:
            raise ShapeError("logical operand at line %d: %s" % (item[0].line, " ".join(iv[:12])))
        if "LogicalOperand" not in iv[:ki]:
            raise ShapeError("logical operand at line %d" % item[0].line)
        out.append((iv[ki + 2], iv[qi + 2]))
    return out


def _operand_match_arms(fn_name):
    s = src("rspirv/dr/autogen_operand.rs")
    body, _ = _fn_body(s, fn_name)
    bv = [t.v for t in body]
    mi = bv.index("match")
    bo = bv.index("{", mi)
    bc = match_close(body, bo)
    res = {}
    for pat, expr in match_arms(body[bo + 1:bc]):
        pv = [t.v for t in pat]
        if pv == ["_"]:
            res["_"] = expr
            continue
        if pv[:2] != ["Self", "::"]:
            raise ShapeError("%s arm at line %d" % (fn_name, pat[0].line))
        res[pv[2]] = expr
    return res


def _names_or(toks, kind):
    """`s::K::A | s::K::B` -> [A, B]"""
    names = []
    for alt in split_alternatives(toks):
        av = [t.v for t in alt]
        if av and av[-1] == ",":
            av = av[:-1]
        if len(av) != 5 or av[0] not in ("s", "spirv") or av[2] != kind:
            raise ShapeError("enumerant list at line %d: %s" % (alt[0].line, " ".join(av)))
        names.append(av[4])
    return names


def additional_operands_table():
    """Operand variant -> dict(form, entries=[([names], [(Kind, Quant)])])"""
    out = {}
    for variant, expr in _operand_match_arms("additional_operands").items():
        if variant == "_":
            continue
        ev = [t.v for t in expr]
        if ev[0] == "match":
            bo = ev.index("{")
            bc = match_close(expr, bo)
            entries = []
            for pat, e in match_arms(expr[bo + 1:bc]):
                if [t.v for t in pat] == ["_"]:
                    continue
                e = _strip_block(e)
                if [t.v for t in e[:2]] != ["vec!", "["]:
                    raise ShapeError("additional_operands arm at line %d" % pat[0].line)
                c = match_close(e, 1)
                entries.append((_names_or(pat, variant), _logical_operand_list(e[2:c])))
            out[variant] = dict(form="enum", entries=entries)
        else:
            inner = _strip_block(expr)
            stmts = _split_top(inner, ";")
            entries = []
            for st in stmts:
                sv = [t.v for t in st]
                if sv[:5] == ["let", "mut", "result", "=", "vec!"] or sv == ["result"]:
                    continue
                if sv[:4] != ["result", ".", "extend", "("]:
                    raise ShapeError("additional_operands mask statement at line %d: %s" % (st[0].line, " ".join(sv[:8])))
                # [bits].iter().filter(|arg| v.contains(**arg)).flat_map(|_| { [ops].iter().cloned() })
                a = 4
                if st[a].v != "[":
                    raise ShapeError("additional_operands bits at line %d" % st[a].line)
                c = match_close(st, a)
                bits = _names_or([x for y in split_commas(st[a + 1:c]) for x in (y + [st[a]])][:-1] if False else _join_or(split_commas(st[a + 1:c])), variant)
                rest = " ".join(t.v for t in st[c + 1:c + 40])
                if not rest.startswith(". iter ( ) . filter ( | arg | v . contains ( * * arg ) ) . flat_map ( | _ |"):
                    raise ShapeError("additional_operands mask adaptor at line %d: %s" % (st[c].line, rest))
                # find the inner array
                k = c + 1
                while not (st[k].v == "[" and st[k - 1].v in ("{", "|")):
                    k += 1
                kc = match_close(st, k)
                ops = _logical_operand_list(st[k + 1:kc])
                tail = " ".join(t.v for t in st[kc + 1:])
                if not tail.startswith(". iter ( ) . cloned ( )"):
                    raise ShapeError("additional_operands tail at line %d: %s" % (st[kc].line, tail[:60]))
                entries.append((bits, ops))
            out[variant] = dict(form="mask", entries=entries)
    return out


def _join_or(items):
    """list of token lists -> one token list joined by `|` tokens"""
    from rtok import Tok
    out = []
    for k, it in enumerate(items):
        if k:
            out.append(Tok("p", "|", it[0].line))
        out += it
    return out


def required_table(fn_name):
    """Operand variant -> dict(form, entries=[(method|None, [names], [items])]) for required_capabilities / required_extensions.
    items: capability names or extension strings."""
    out = {}
    for variant, expr in _operand_match_arms(fn_name).items():
        ev = [t.v for t in expr]
        if variant == "_" or (ev[:2] == ["vec!", "["] and len(ev) == 3):
            continue
        # several variants can share one arm (`Self::A(_) | Self::B(_) => vec![]`) - handled by caller via '_' / empty
        if ev[0] == "match":
            bo = ev.index("{")
            bc = match_close(expr, bo)
            entries = []
            for pat, e in match_arms(expr[bo + 1:bc]):
                if [t.v for t in pat] == ["_"]:
                    continue
                e = _strip_block(e)
                if [t.v for t in e[:2]] != ["vec!", "["]:
                    raise ShapeError("%s arm at line %d" % (fn_name, pat[0].line))
                c = match_close(e, 1)
                entries.append((None, _names_or(pat, variant), _items(e[2:c])))
            out[variant] = dict(form="enum", entries=entries)
        elif ev[0] == "{":
            inner = _strip_block(expr)
            entries = []
            for st in _split_top(inner, ";"):
                sv = [t.v for t in st]
                if sv[:5] == ["let", "mut", "result", "=", "vec!"] or sv == ["result"]:
                    continue
                if sv[:3] != ["if", "v", "."] or sv[3] not in ("intersects", "contains") or sv[4] != "(":
                    raise ShapeError("%s mask statement at line %d: %s" % (fn_name, st[0].line, " ".join(sv[:8])))
                c = match_close(st, 4)
                bits = _names_or([x for x in st[5:c] if not (x.v == "," and x is st[c - 1])], variant)
                blk = st[c + 1:]
                bv = [t.v for t in blk]
                if bv[:7] != ["{", "result", ".", "extend_from_slice", "(", "&", "["]:
                    raise ShapeError("%s mask body at line %d" % (fn_name, st[c].line))
                kc = match_close(blk, 6)
                entries.append((sv[3], bits, _items(blk[7:kc])))
            out[variant] = dict(form="mask", entries=entries)
        else:
            raise ShapeError("%s arm for %s at line %d" % (fn_name, variant, expr[0].line))
    return out


def _items(toks):
    out = []
    for it in split_commas(toks):
        iv = [t.v for t in it]
        if len(it) == 1 and it[0].k == "str":
            out.append(str_value(it[0]))
        elif iv[:4] == ["spirv", "::", "Capability", "::"] and len(iv) == 5:
            out.append(iv[4])
        else:
            raise ShapeError("item at line %d: %s" % (it[0].line, " ".join(iv)))
    return out


def operand_param_tables():
    """Everything above in JSON-able form (used for the pinned snapshot)."""
    pa = parse_arguments_tables()
    return {
        "parse_operand": {k: {"operands": v["operands"], "args_fn": v["args_fn"], "panic": v["panic"]} for k, v in parse_operand_arms().items()},
        "parse_arguments": {k: dict({"kind": v["kind"], "form": v["form"], "entries": v["entries"]}, **({"else_of": v["else_of"]} if "else_of" in v else {})) for k, v in pa.items()},
        "additional_operands": additional_operands_table(),
        "required_capabilities": required_table("required_capabilities"),
        "required_extensions": required_table("required_extensions"),
    }


# ------------------------------------------------------------------ Builder method signatures (C06, C12, C13)
BUILDER_FILES = ["rspirv/dr/build/mod.rs", "rspirv/dr/build/autogen_type.rs", "rspirv/dr/build/autogen_constant.rs",
                 "rspirv/dr/build/autogen_annotation.rs", "rspirv/dr/build/autogen_terminator.rs", "rspirv/dr/build/autogen_debug.rs",
                 "rspirv/dr/build/autogen_norm_insts.rs"]


def builder_signatures():
    """[dict(name, file, params=[(name, type text)], ret, opcodes=[names of spirv::Op::X in the body], sinks=[...], line)]
    for every `pub fn` with a `self` receiver inside `impl Builder` blocks."""
    out = []
    for rel in BUILDER_FILES:
        s = src(rel)
        t = s.toks
        n = len(t)
        i = 0
        while i < n - 2:
            if t[i].v == "impl" and t[i + 1].v == "Builder" and t[i + 2].v == "{":
                end = match_close(t, i + 2)
                j = i + 3
                while j < end:
                    if t[j].v == "fn" and t[j + 1].k == "id":
                        pub = t[j - 1].v == "pub"
                        name = t[j + 1].v
                        po = j + 2
                        while t[po].v != "(":
                            po += 1
                        pc = match_close(t, po)
                        params = []
                        has_self = False
                        for p in split_commas(t[po + 1:pc]):
                            pv = [x.v for x in p]
                            if "self" in pv[:3]:
                                has_self = True
                                continue
                            ci = pv.index(":")
                            params.append((pv[0], " ".join(pv[ci + 1:])))
                        bo = pc + 1
                        while t[bo].v != "{":
                            bo += 1
                        ret = " ".join(x.v for x in t[pc + 1:bo]).replace("-> ", "", 1).strip()
                        bc = match_close(t, bo)
                        bv = [x.v for x in t[bo:bc]]
                        opcodes = [bv[x + 4] for x in range(len(bv) - 4) if bv[x:x + 4] == ["spirv", "::", "Op", "::"]]
                        sinks = []
                        for x in range(len(bv) - 3):
                            if bv[x] == "self" and bv[x + 1] == ".":
                                if bv[x + 2] in ("end_block", "insert_end_block", "insert_into_block", "insert_types_global_values"):
                                    sinks.append(bv[x + 2])
                                elif bv[x + 2] == "module" and bv[x + 3] == ".":
                                    sinks.append("module." + bv[x + 4])
                        if has_self:
                            out.append(dict(name=name, file=rel, params=params, ret=ret, opcodes=opcodes, sinks=sinks, line=t[j].line, pub=pub))
                        j = bc
                    j += 1
                i = end
            i += 1
    return out


# ------------------------------------------------------------------ disassembly name tables (C07)
def disas_mask_tables():
    """mask -> dict(empty=str, bits=[(BIT, name)]) from `impl Disassemble for spirv::<Mask>`"""
    s = src("rspirv/binary/autogen_disas_operand.rs")
    t = s.toks
    out = {}
    for i in s.find_all(["impl", "Disassemble", "for", "spirv", "::"]):
        mask = t[i + 5].v
        j = i + 6
        if t[j].v != "{":
            raise ShapeError("Disassemble impl for %s" % mask)
        k = match_close(t, j)
        f = find_fn(t, "disassemble", j, k)
        body = t[f[1] + 1:f[2]]
        bv = [x.v for x in body]
        # if self.is_empty() { return "None".to_string(); } let mut bits = vec![]; (if self.contains(spirv::M::B) { bits.push("N") })* bits.join("|")
        if bv[:7] != ["if", "self", ".", "is_empty", "(", ")", "{"] or bv[7] != "return" or body[8].k != "str":
            raise ShapeError("Disassemble shape for %s" % mask)
        empty = str_value(body[8])
        p = bv.index("}") + 1
        if bv[p:p + 8] != ["let", "mut", "bits", "=", "vec!", "[", "]", ";"]:
            raise ShapeError("Disassemble shape (bits) for %s" % mask)
        p += 8
        bits = []
        else_of = {}
        chain = []
        while p < len(body) and (body[p].v == "if" or (body[p].v == "else" and p + 1 < len(body) and body[p + 1].v == "if")):
            if body[p].v == "else":
                p += 1
                else_of[len(bits)] = list(chain)
            else:
                chain = []
            chain.append(len(bits))
            o = p
            while body[o].v != "{":
                o += 1
            cond = [x.v for x in body[p + 1:o]]
            if cond[:4] != ["self", ".", "contains", "("] or cond[4:7] != ["spirv", "::", mask] or cond[7] != "::" or cond[9] != ")":
                raise ShapeError("Disassemble condition for %s at line %d" % (mask, body[p].line))
            c = match_close(body, o)
            inner = body[o + 1:c]
            iv = [x.v for x in inner]
            if iv[:4] != ["bits", ".", "push", "("] or inner[4].k != "str" or iv[5] != ")":
                raise ShapeError("Disassemble push for %s at line %d" % (mask, body[o].line))
            bits.append((cond[8], str_value(inner[4])))
            p = c + 1
            if p < len(body) and body[p].v == ";":
                p += 1
        tail = [x.v for x in body[p:]]
        if tail[:4] != ["bits", ".", "join", "("]:
            raise ShapeError("Disassemble tail for %s: %s" % (mask, tail[:6]))
        out[mask] = dict(empty=empty, bits=bits, sep=str_value(body[p + 4]))
        if else_of:
            out[mask]["else_of"] = else_of
    return out


# ------------------------------------------------------------------ lift tables (C18)
def lift_arms():
    """fn name -> {opcode number: dict(enum=ops enum, variant=name, fields=[(field, [operand variants], mode)], line)}
    mode: 'required' | 'optional' | 'variadic'"""
    s = src("rspirv/lift/autogen_context.rs")
    t = s.toks
    out = {}
    i = 0
    while i < len(t) - 1:
        if t[i].v == "fn" and t[i + 1].k == "id" and t[i + 1].v.startswith("lift_"):
            fname = t[i + 1].v
            j = i
            while t[j].v != "{":
                j += 1
            k = match_close(t, j)
            body = t[j + 1:k]
            bv = [x.v for x in body]
            arms = {}
            if "match" in bv:
                mi = bv.index("match")
                bo = bv.index("{", mi)
                bc = match_close(body, bo)
                for pat, expr in match_arms(body[bo + 1:bc]):
                    if len(pat) != 1 or pat[0].k != "num":
                        continue
                    arms[num_value(pat[0])] = _lift_arm(expr, fname)
            out[fname] = arms
            i = k
        i += 1
    return out


def _lift_arm(expr, fname):
    ev = [x.v for x in expr]
    # Ok ( ops :: Enum :: Variant { fields } )  |  Ok ( ops :: Enum :: Variant )  | Ok ( Type :: Variant {..} ) ...
    if ev[:2] != ["Ok", "("]:
        return dict(enum=None, variant=None, fields=None, line=expr[0].line, raw=" ".join(ev[:12]))
    c = match_close(expr, 1)
    inner = expr[2:c]
    iv = [x.v for x in inner]
    if "{" not in iv:
        path = [x for x in iv if x != "::"]
        return dict(enum=path[-2] if len(path) >= 2 else None, variant=path[-1], fields=[], line=expr[0].line)
    bo = iv.index("{")
    path = [x for x in iv[:bo] if x != "::"]
    bc = match_close(inner, bo)
    fields = []
    templates = {}
    for f in split_commas(inner[bo + 1:bc]):
        fv = [x.v for x in f]
        if len(fv) < 3 or fv[1] != ":":
            continue
        name = fv[0]
        variants = [fv[x + 4] for x in range(len(fv) - 4) if fv[x:x + 4] == ["dr", "::", "Operand", "::"]]
        txt = " ".join(fv)
        if "while let" in txt:
            mode = "variadic"
        elif txt.endswith(". ok_or ( OperandError :: Missing ) ?"):
            mode = "required"
        else:
            mode = "optional"
        # de-duplicate repeated mentions inside one match (pairs keep both)
        seen = []
        for v in variants:
            seen.append(v)
        fields.append((name, seen, mode, "lookup_token" in txt or "lookup (" in txt))
        # the field's expression with the operand variant names blanked: the generator emits a handful of such templates
        tv = list(fv[2:])
        for x in range(len(tv) - 4):
            if tv[x:x + 4] == ["dr", "::", "Operand", "::"]:
                tv[x + 4] = "V"
        templates[name] = " ".join(tv)
    return dict(enum=path[-2] if len(path) >= 2 else None, variant=path[-1], fields=fields, line=expr[0].line, templates=templates)


def sr_enum_fields():
    """enum name -> {variant: [field names]} from rspirv/sr/autogen_ops.rs and autogen_types.rs"""
    out = {}
    for rel in ("rspirv/sr/autogen_ops.rs", "rspirv/sr/autogen_types.rs"):
        s = src(rel)
        t = s.toks
        i = 0
        while i < len(t) - 2:
            if t[i].v == "enum" and t[i + 1].k == "id":
                name = t[i + 1].v
                j = i + 2
                while t[j].v != "{":
                    j += 1
                k = match_close(t, j)
                variants = {}
                for item in split_commas(t[j + 1:k]):
                    p, _ = skip_attrs(item, 0)
                    item = item[p:]
                    if not item:
                        continue
                    vn = item[0].v
                    fields = []
                    if len(item) > 1 and item[1].v == "{":
                        c = match_close(item, 1)
                        for f in split_commas(item[2:c]):
                            fv = [x.v for x in f]
                            if len(fv) >= 3 and fv[1] == ":":
                                fields.append(fv[0])
                    variants[vn] = fields
                out[name] = variants
                i = k
            i += 1
    return out
