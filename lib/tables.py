"""Table extraction (engine T) from the checked-in generated sources of the current tree."""
import os
import re
from rtok import (Src, ShapeError, read_enums, enum_discriminants, match_close, split_commas, match_arms,
                  split_alternatives, find_fn, num_value, str_value, text, skip_attrs)
from common import REPO

_cache = {}


def src(rel):
    p = os.path.join(REPO, rel)
    key = (p, os.path.getmtime(p))
    if key not in _cache:
        _cache[key] = Src(p)
    return _cache[key]


# ------------------------------------------------------------------ spirv crate
def spirv_decls():
    """enums: name -> dict(variants=[(name,val)], aliases=[(alias, variant)], from_str=[(string, variant)]|None,
                          ranges=[(lo,hi)]|None, line)
       masks: name -> dict(consts=[(name,val)], line)"""
    s = src("spirv/autogen_spirv.rs")
    toks = s.toks
    enums = {}
    for name, d in read_enums(s).items():
        enums[name] = dict(variants=enum_discriminants(d), repr=d["repr"], line=d["line"], aliases=[], from_str=None,
                           ranges=None)
    # alias constants:  impl Name { pub const A: Self = Self::B; ... }
    i = 0
    n = len(toks)
    while i < n:
        if toks[i].v == "impl" and toks[i + 1].k == "id" and toks[i + 2].v == "{" and toks[i + 1].v in enums:
            name = toks[i + 1].v
            k = match_close(toks, i + 2)
            j = i + 3
            while j < k:
                if toks[j].v == "const" and toks[j - 1].v == "pub":
                    # pub const A : Self = Self :: B ;
                    seq = [t.v for t in toks[j:j + 9]]
                    if seq[2] == ":" and seq[3] in ("Self", name) and seq[4] == "=" and seq[5] in ("Self", name) \
                            and seq[6] == "::" and seq[8] == ";":
                        enums[name]["aliases"].append((seq[1], seq[7]))
                        j += 9
                        continue
                    raise ShapeError("alias constant in impl %s at line %d" % (name, toks[j].line))
                if toks[j].v == "fn" and toks[j + 1].v == "from_u32":
                    f = find_fn(toks, "from_u32", j, k)
                    body = toks[f[1] + 1:f[2]]
                    # Some(match n { a..=b => unsafe {...}, _ => return None, })
                    mi = [x for x, t in enumerate(body) if t.v == "match"]
                    if len(mi) != 1:
                        raise ShapeError("from_u32 of %s" % name)
                    bo = mi[0] + 2
                    if body[bo].v != "{":
                        raise ShapeError("from_u32 match of %s" % name)
                    bc = match_close(body, bo)
                    ranges = []
                    for pat, expr in match_arms(body[bo + 1:bc]):
                        pv = [t.v for t in pat]
                        if pv == ["_"]:
                            continue
                        if len(pat) == 3 and pat[1].v == "..=":
                            ranges.append((num_value(pat[0]), num_value(pat[2])))
                        elif len(pat) == 1 and pat[0].k == "num":
                            ranges.append((num_value(pat[0]), num_value(pat[0])))
                        else:
                            raise ShapeError("from_u32 arm of %s at line %d" % (name, pat[0].line))
                    enums[name]["ranges"] = ranges
                    j = f[2]
                j += 1
            i = k + 1
            continue
        # impl core::str::FromStr for Name { ... }
        if toks[i].v == "impl" and [t.v for t in toks[i + 1:i + 7]] == ["core", "::", "str", "::", "FromStr", "for"]:
            name = toks[i + 7].v
            o = i + 8
            k = match_close(toks, o)
            f = find_fn(toks, "from_str", o, k)
            body = toks[f[1] + 1:f[2]]
            mi = [x for x, t in enumerate(body) if t.v == "match"]
            bo = mi[0] + 2
            bc = match_close(body, bo)
            arms = []
            for pat, expr in match_arms(body[bo + 1:bc]):
                if [t.v for t in pat] == ["_"]:
                    continue
                for alt in split_alternatives(pat):
                    if len(alt) != 1 or alt[0].k != "str":
                        raise ShapeError("FromStr arm of %s at line %d" % (name, pat[0].line))
                    ev = [t.v for t in expr]
                    if ev and ev[0] == "{" and ev[-1] == "}":
                        ev = ev[1:-1]
                    if len(ev) != 3 or ev[0] != "Self" or ev[1] != "::":
                        raise ShapeError("FromStr arm value of %s at line %d" % (name, pat[0].line))
                    arms.append((str_value(alt[0]), ev[2]))
            if name in enums:
                enums[name]["from_str"] = arms
            i = k + 1
            continue
        i += 1
    # bitflags
    masks = {}
    for i in s.find_all(["bitflags!", "{"]):
        k = match_close(toks, i + 1)
        j = i + 2
        j, _ = skip_attrs(toks, j)
        if [t.v for t in toks[j:j + 2]] != ["pub", "struct"]:
            raise ShapeError("bitflags shape at line %d" % toks[i].line)
        name = toks[j + 2].v
        if toks[j + 3].v != ":" or toks[j + 4].v != "u32" or toks[j + 5].v != "{":
            raise ShapeError("bitflags struct %s" % name)
        e = match_close(toks, j + 5)
        consts = []
        p = j + 6
        while p < e:
            p, _ = skip_attrs(toks, p)
            if p >= e:
                break
            seq = toks[p:p + 5]
            if seq[0].v != "const" or seq[2].v != "=" or seq[4].v != ";":
                raise ShapeError("bitflags const in %s at line %d" % (name, toks[p].line))
            consts.append((seq[1].v, num_value(seq[3])))
            p += 5
        masks[name] = dict(consts=consts, line=toks[i].line)
    return enums, masks
