"""Token-level reader for the generated Rust sources (engine T).

A small Rust lexer plus helpers that turn the rigid shapes the generator emits into tables.
Shapes that are not recognised raise `ShapeError`; the driver reports that as inconclusive (exit 2).
"""
import re


class ShapeError(Exception):
    pass


_tok_re = re.compile(r"""
    (?P<ws>\s+)
  | (?P<lc>//[^\n]*)
  | (?P<bc>/\*.*?\*/)
  | (?P<rstr>r\#*")
  | (?P<str>b?"(?:[^"\\]|\\.)*")
  | (?P<life>'[A-Za-z_][A-Za-z0-9_]*(?!'))
  | (?P<chr>b?'(?:[^'\\]|\\.[^']*)')
  | (?P<num>\d[\d_]*(?:\.\d[\d_]*)?(?:[eE][+-]?\d+)?[A-Za-z0-9_]*)
  | (?P<id>[A-Za-z_][A-Za-z0-9_]*!?)
  | (?P<p>::|->|=>|\.\.=|\.\.\.|\.\.|&&|\|\||==|!=|<=|>=|<<=|>>=|<<|>>|\+=|-=|\*=|/=|\|=|&=|\^=|%=|[-+*/%^!&|=<>@.,;:\#$?~(){}\[\]])
""", re.X | re.S)


class Tok:
    __slots__ = ("k", "v", "line")

    def __init__(self, k, v, line):
        self.k, self.v, self.line = k, v, line

    def __repr__(self):
        return "%s:%r@%d" % (self.k, self.v, self.line)


def lex(src):
    toks = []
    i, n, line = 0, len(src), 1
    while i < n:
        m = _tok_re.match(src, i)
        if not m:
            raise ShapeError("lex error at line %d: %r" % (line, src[i:i + 30]))
        k = m.lastgroup
        v = m.group()
        if k == "rstr":
            hashes = v.count("#")
            end = src.index('"' + "#" * hashes, m.end())
            v = src[i:end + 1 + hashes]
            toks.append(Tok("str", v, line))
            line += v.count("\n")
            i = end + 1 + hashes
            continue
        if k == "id" and v.endswith("!") and src[m.end():m.end() + 1] == "=":
            # `x!=` is `x` `!=`
            v = v[:-1]
            toks.append(Tok("id", v, line))
            i += len(v)
            continue
        if k not in ("ws", "lc", "bc"):
            toks.append(Tok(k, v, line))
        line += v.count("\n")
        i = m.end()
    return toks


OPEN = {"(": ")", "[": "]", "{": "}"}


def match_close(toks, i):
    """toks[i] is an opening delimiter; return the index of its partner."""
    depth = 0
    o = toks[i].v
    c = OPEN[o]
    j = i
    n = len(toks)
    while j < n:
        t = toks[j]
        if t.k == "p":
            if t.v in OPEN:
                depth += 1
            elif t.v in ")]}":
                depth -= 1
                if depth == 0:
                    if t.v != c:
                        raise ShapeError("mismatched delimiter at line %d" % t.line)
                    return j
        j += 1
    raise ShapeError("unclosed delimiter from line %d" % toks[i].line)


def split_commas(toks):
    """Split a token list on top-level commas (delimiters () [] {} and generic <> are nesting)."""
    out, cur, depth, angle = [], [], 0, 0
    for idx, t in enumerate(toks):
        if t.k == "p":
            if t.v in OPEN:
                depth += 1
            elif t.v in ")]}":
                depth -= 1
            elif t.v == "<" and depth == 0:
                angle += 1
            elif t.v == ">" and depth == 0 and angle > 0:
                angle -= 1
            elif t.v == ">>" and depth == 0 and angle > 0:
                angle = max(0, angle - 2)
            elif t.v == "," and depth == 0 and angle == 0:
                out.append(cur)
                cur = []
                continue
        cur.append(t)
    if cur:
        out.append(cur)
    return out


def text(toks):
    return " ".join(t.v for t in toks)


def num_value(tok):
    v = tok.v.replace("_", "")
    m = re.match(r"^(0x[0-9a-fA-F]+|0b[01]+|0o[0-7]+|\d+)(u8|u16|u32|u64|usize|i8|i16|i32|i64|isize)?$", v)
    if not m:
        raise ShapeError("number %r at line %d" % (tok.v, tok.line))
    return int(m.group(1), 0)


def str_value(tok):
    v = tok.v
    if v.startswith("r"):
        h = v.index('"')
        return v[h + 1:len(v) - h]
    if v.startswith("b"):
        v = v[1:]
    body = v[1:-1]
    if "\\" in body:
        return bytes(body, "utf-8").decode("unicode_escape")
    return body


class Src:
    def __init__(self, path):
        self.path = path
        with open(path, encoding="utf-8") as f:
            self.text = f.read()
        self.toks = lex(self.text)

    def find_seq(self, seq, start=0, end=None):
        """Index of the first occurrence of the token-value sequence `seq` at/after start."""
        toks = self.toks
        n = len(toks) if end is None else end
        L = len(seq)
        first = seq[0]
        i = start
        while i + L <= n:
            if toks[i].v == first and all(toks[i + k].v == seq[k] for k in range(1, L)):
                return i
            i += 1
        return -1

    def find_all(self, seq, start=0, end=None):
        out = []
        i = self.find_seq(seq, start, end)
        while i >= 0:
            out.append(i)
            i = self.find_seq(seq, i + 1, end)
        return out


# ------------------------------------------------------------------ generic item readers
def skip_attrs(toks, i):
    """Skip `#[...]` / `#![...]` attributes starting at i; return (new_i, [attr token lists])."""
    attrs = []
    while i < len(toks) and toks[i].v == "#":
        j = i + 1
        if toks[j].v == "!":
            j += 1
        if toks[j].v != "[":
            raise ShapeError("attribute at line %d" % toks[i].line)
        k = match_close(toks, j)
        attrs.append(toks[j + 1:k])
        i = k + 1
    return i, attrs


def read_enums(src):
    """All `enum Name { ... }` declarations in a file:
    name -> dict(variants=[(name, discr|None, has_payload)], repr=str|None, line=int)"""
    toks = src.toks
    out = {}
    i = 0
    n = len(toks)
    pending_attrs = []
    while i < n:
        t = toks[i]
        if t.v == "#":
            i2, attrs = skip_attrs(toks, i)
            pending_attrs = attrs
            i = i2
            continue
        if t.v == "enum" and toks[i + 1].k == "id":
            name = toks[i + 1].v
            j = i + 2
            while toks[j].v != "{":
                j += 1
            k = match_close(toks, j)
            body = toks[j + 1:k]
            variants = []
            for item in split_commas(body):
                p, _ = skip_attrs(item, 0)
                item = item[p:]
                if not item:
                    continue
                vname = item[0].v
                discr, payload = None, False
                rest = item[1:]
                if rest and rest[0].v in ("(", "{"):
                    payload = True
                    c = match_close(rest, 0)
                    rest = rest[c + 1:]
                if rest and rest[0].v == "=":
                    if len(rest) != 2 or rest[1].k != "num":
                        raise ShapeError("enum discriminant of %s::%s at line %d" % (name, vname, item[0].line))
                    discr = num_value(rest[1])
                elif rest:
                    raise ShapeError("enum variant %s::%s at line %d" % (name, vname, item[0].line))
                variants.append((vname, discr, payload))
            repr_ = None
            for a in pending_attrs:
                if a and a[0].v == "repr":
                    repr_ = text(a[2:-1])
            out[name] = dict(variants=variants, repr=repr_, line=t.line)
            i = k + 1
            pending_attrs = []
            continue
        if t.k != "p" or t.v not in ("pub",):
            if t.v not in ("pub", "(", ")", "crate"):
                pending_attrs = pending_attrs if t.v in ("pub",) else pending_attrs
        i += 1
    return out


def enum_discriminants(decl):
    """[(variant, value)] with implicit discriminants filled in."""
    out, nxt = [], 0
    for name, d, _ in decl["variants"]:
        if d is None:
            d = nxt
        out.append((name, d))
        nxt = d + 1
    return out


def find_impl_blocks(src, header_seq):
    """Token ranges (body_start, body_end) of `impl ... {` blocks whose header tokens start with header_seq."""
    toks = src.toks
    out = []
    for i in src.find_all(header_seq):
        j = i
        while toks[j].v != "{":
            j += 1
        k = match_close(toks, j)
        out.append((i, j + 1, k))
    return out


def find_fn(toks, name, start, end):
    """Within toks[start:end] find `fn name` and return (sig_start, body_open, body_close)."""
    i = start
    while i < end - 1:
        if toks[i].v == "fn" and toks[i + 1].v == name:
            j = i
            while toks[j].v != "{":
                if toks[j].v == ";":
                    raise ShapeError("fn %s has no body" % name)
                j += 1
            k = match_close(toks, j)
            return i, j, k
        i += 1
    return None


def match_arms(toks):
    """Split the body of a `match x { pat => expr, ... }` (tokens between the braces) into
    [(pattern_tokens, expr_tokens)]."""
    arms = []
    i, n = 0, len(toks)
    while i < n:
        # pattern up to `=>` at depth 0
        depth = 0
        j = i
        while j < n:
            t = toks[j]
            if t.k == "p":
                if t.v in OPEN:
                    depth += 1
                elif t.v in ")]}":
                    depth -= 1
                elif t.v == "=>" and depth == 0:
                    break
            j += 1
        if j >= n:
            if all(t.v == "," for t in toks[i:]):
                break
            raise ShapeError("match arm without => at line %d" % toks[i].line)
        pat = toks[i:j]
        # expression: a block `{...}` optionally followed by comma, or up to the next top-level comma
        k = j + 1
        if toks[k].v == "{":
            c = match_close(toks, k)
            expr = toks[k:c + 1]
            k = c + 1
            # a block may be followed by method calls etc.; continue to comma if not at comma/pattern start
            if k < n and toks[k].v == ",":
                k += 1
        else:
            depth = 0
            e = k
            while e < n:
                t = toks[e]
                if t.k == "p":
                    if t.v in OPEN:
                        depth += 1
                    elif t.v in ")]}":
                        depth -= 1
                    elif t.v == "," and depth == 0:
                        break
                e += 1
            expr = toks[k:e]
            k = e + 1
        arms.append((pat, expr))
        i = k
    return arms


def split_alternatives(pat):
    """Split a pattern on top-level `|`."""
    out, cur, depth = [], [], 0
    for t in pat:
        if t.k == "p":
            if t.v in OPEN:
                depth += 1
            elif t.v in ")]}":
                depth -= 1
            elif t.v == "|" and depth == 0:
                if cur:
                    out.append(cur)
                cur = []
                continue
        cur.append(t)
    if cur:
        out.append(cur)
    return out
