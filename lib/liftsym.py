"""Models for executing `lift::LiftContext::convert` (and what it calls) from MIR on concrete module SHAPES with symbolic ids,
literals and enumerants (C18, the module walk).

Everything of the crate is inlined from its own MIR: `LiftContext::{convert, lift_type, lift_constant, lift_function, lift_op,
lift_terminator, lift_branch, lookup_jump, ...}`, `LiftStorage::*` (lift/storage.rs) and `Storage::*` / `Token::*`
(sr/storage.rs). Summaries (trusted, listed in the evidence) stand in for std only:
  * `HashMap<u32, V, FxBuildHasher>` as an association list in insertion order with SYMBOLIC keys: `index` / `get` /
    `entry` fork over "key equals the i-th inserted key" (keys are pairwise distinct because insertion goes through `entry` +
    `VacantEntry::insert` only); `index` of an absent key panics, as std's does;
  * `Borrow::borrow` (identity for `Token<T>`, the crate's impl for `OpInfo`);
  * slice / Vec / Option / iterator idioms over concrete-length sequences (lib/itermodels.py and the engine's built-ins)."""
import re
import z3
import sym
import mir
import itermodels


def inline_from(last, hint, nargs=None):
    def h(engine, st, fr, callee, args, ops):
        for mf in engine.mirs:
            c = [mf.parse_item(ln) for _, _, ln in mf.find(last, file_hint=hint, kind="fn")]
            c = [f for f in c if "closure" not in f.name and (nargs is None or len(f.args) == nargs)]
            if len(c) == 1:
                return sym.Inline(c[0], args)
        raise mir.Unsupported("cannot resolve %s (%s/%s)" % (callee, hint, nargs))
    return h


# ------------------------------------------------------------------ HashMap as an association list
def m_map_new(engine, st, fr, callee, args, ops):
    return sym.Adt("HMap", None, [sym.Arr([], "vec")])


def _entries(engine, st, mref):
    m = sym._deref_arg(engine, st, mref)
    if not (isinstance(m, sym.Adt) and m.ty == "HMap"):
        raise mir.Unsupported("hash map operation on %r" % (m,))
    return m.fields[0].items


def _key(engine, st, k):
    while isinstance(k, sym.Ref):
        k = sym._deref_arg(engine, st, k)
    if not z3.is_bv(k):
        raise mir.Unsupported("hash map key %r" % (k,))
    return k


def _value_ref(mref, i):
    return sym.Ref(mref.root, mref.path + (("field", 0, None, None), ("index_c", i), ("field", 1, None, None)), mref.mut)


def m_map_index(engine, st, fr, callee, args, ops):
    mref, k = args[0], _key(engine, st, args[1])
    ents = _entries(engine, st, mref)
    alts = []
    for i, e in enumerate(ents):
        alts.append((z3.simplify(e.fields[0] == k), _value_ref(mref, i)))
    absent = z3.simplify(z3.And(*[e.fields[0] != k for e in ents])) if ents else True
    alts.append((absent, sym.Panic(("HashMap index: key not found", fr.fn.name, fr.bb))))
    return sym.Fork(alts)


def m_map_get(engine, st, fr, callee, args, ops):
    mref, k = args[0], _key(engine, st, args[1])
    ents = _entries(engine, st, mref)
    alts = []
    for i, e in enumerate(ents):
        alts.append((z3.simplify(e.fields[0] == k), sym.Adt("Option", "Some", [_value_ref(mref, i)])))
    absent = z3.simplify(z3.And(*[e.fields[0] != k for e in ents])) if ents else True
    alts.append((absent, sym.Adt("Option", "None", [])))
    return sym.Fork(alts)


def m_map_entry(engine, st, fr, callee, args, ops):
    mref, k = args[0], _key(engine, st, args[1])
    ents = _entries(engine, st, mref)
    present = z3.simplify(z3.Or(*[e.fields[0] == k for e in ents])) if ents else z3.BoolVal(False)
    return sym.Fork([(present, sym.Adt("Entry", "Occupied", [sym.Adt("OccupiedEntry", None, [mref, k])])),
                     (z3.simplify(z3.Not(present)), sym.Adt("Entry", "Vacant", [sym.Adt("VacantEntry", None, [mref, k])]))])


def m_vacant_insert(engine, st, fr, callee, args, ops):
    ve, val = args
    mref, k = ve.fields
    m = sym._deref_arg(engine, st, mref)
    items = m.fields[0].items
    engine.write_at(st, mref.root, list(mref.path), sym.Adt("HMap", None, [sym.Arr(items + (sym.Adt("tuple", None, [k, val]),), "vec")]))
    st.events.append(("map_insert", (mref.root, tuple(mref.path)), k, val))
    return _value_ref(sym.Ref(mref.root, mref.path, True), len(items))


def m_borrow(engine, st, fr, callee, args, ops):
    v = sym._deref_arg(engine, st, args[0])
    if isinstance(v, sym.Adt) and "OpInfo" in v.ty:
        return sym.Ref(args[0].root, args[0].path + (("field", 0, None, None),))
    return args[0]


# ------------------------------------------------------------------ small std idioms
def m_mem_replace(engine, st, fr, callee, args, ops):
    r, new = args
    old = sym._deref_arg(engine, st, r)
    engine.write_at(st, r.root, list(r.path), new)
    return old


def m_slice_last(engine, st, fr, callee, args, ops):
    r, off, items = itermodels.slice_items(engine, st, args[0])
    if len(items) - off <= 0:
        return sym.Adt("Option", "None", [])
    return sym.Adt("Option", "Some", [sym.Ref(r.root, r.path + (("index_c", len(items) - 1),))])


def m_slice_first(engine, st, fr, callee, args, ops):
    r, off, items = itermodels.slice_items(engine, st, args[0])
    if len(items) - off <= 0:
        return sym.Adt("Option", "None", [])
    return sym.Adt("Option", "Some", [sym.Ref(r.root, r.path + (("index_c", off),))])


def m_with_capacity(engine, st, fr, callee, args, ops):
    return sym.Arr([], "vec")


def m_citer_next(engine, st, fr, callee, args, ops):
    r = args[0]
    it = sym._deref_arg(engine, st, r)
    if isinstance(it, sym.Adt) and it.ty == "SliceIterC":
        return sym.m_slice_iter_next(engine, st, fr, callee, args, ops)
    if not (isinstance(it, sym.Adt) and it.ty == "CIter"):
        raise mir.Unsupported("next on %r" % (it,))
    items = it.fields[0].items
    if not items:
        return sym.Adt("Option", "None", [])
    engine.write_at(st, r.root, list(r.path), sym.Adt("CIter", None, [sym.Arr(items[1:])]))
    return sym.Adt("Option", "Some", [items[0]])


def m_step_by(engine, st, fr, callee, args, ops):
    items = itermodels._citer(engine, st, args[0])
    n = sym._concrete_index(args[1])
    if not n:
        raise mir.Unsupported("step_by with a symbolic or zero step")
    return sym.Adt("CIter", None, [sym.Arr(items[::n])])


def m_iter_map(engine, st, fr, callee, args, ops):
    return sym.Adt("MapIter", None, [args[0], args[1]])


def m_collect_result_vec(engine, st, fr, callee, args, ops):
    """`iter.map(f).collect::<Result<Vec<_>, E>>()`: the images in order up to the first Err (std's ResultShunt)."""
    mi = args[0]
    if not (isinstance(mi, sym.Adt) and mi.ty == "MapIter"):
        raise mir.Unsupported("collect of %r" % (mi,))
    items = itermodels._citer(engine, st, mi.fields[0])
    clo = mi.fields[1]
    fn = engine.resolve_fn(clo.name)
    cell = ("h", engine.fresh_name("clo"))
    st.mem[cell] = clo
    out = []
    for it in items:
        res = engine.call_pure(st, fn, [sym.Ref(cell, (), True), it])
        res = [x for x in res if x.status == "return"]
        if len(res) != 1:
            raise mir.Unsupported("collect: the mapping closure forks (%d paths)" % len(res))
        v = res[0].value
        if not (isinstance(v, sym.Adt) and v.variant in ("Ok", "Err")):
            raise mir.Unsupported("collect: image %r" % (v,))
        if v.variant == "Err":
            return v
        out.append(v.fields[0])
    return sym.Adt("Result", "Ok", [sym.Arr(out, "vec")])


def m_option_and_then(engine, st, fr, callee, args, ops):
    v, clo = args
    if isinstance(v, sym.Adt) and v.variant == "None":
        return v
    if isinstance(v, sym.Adt) and v.variant == "Some":
        return sym.Inline(engine.resolve_fn(clo.name), [clo, v.fields[0]])
    raise mir.Unsupported("and_then on %r" % (v,))


def m_result_map(engine, st, fr, callee, args, ops):
    v, clo = args
    if isinstance(v, sym.Adt) and v.variant == "Err":
        return v
    if isinstance(v, sym.Adt) and v.variant == "Ok":
        if isinstance(clo, sym.Adt) and clo.variant is not None and not clo.fields:
            return sym.Adt("Result", "Ok", [sym.Adt(clo.ty, clo.variant, [v.fields[0]])])
        if isinstance(clo, sym.FnV) and "{closure" not in clo.name:
            # a tuple-variant constructor used as the function (`.map(ops::Terminator::Branch)`)
            ty, var, e = engine.enum_variant_value(clo.name)
            if var is None:
                raise mir.Unsupported("Result::map with %s" % clo.name)
            return sym.Adt("Result", "Ok", [sym.Adt(ty, var, [v.fields[0]])])
        return sym.Inline(engine.resolve_fn(clo.name), [clo, v.fields[0]], wrap=lambda rv: sym.Adt("Result", "Ok", [rv]))
    raise mir.Unsupported("Result::map on %r" % (v,))


def m_option_ok_or_concrete(engine, st, fr, callee, args, ops):
    v = args[0]
    if isinstance(v, sym.Adt) and v.variant == "Some":
        return sym.Adt("Result", "Ok", [v.fields[0]])
    if isinstance(v, sym.Adt) and v.variant == "None":
        return sym.Adt("Result", "Err", [args[1]])
    return sym.m_option_ok_or(engine, st, fr, callee, args, ops)


def m_f32_from_bits(engine, st, fr, callee, args, ops):
    return sym.Adt("F32", None, [args[0]])


def m_from_operand_error(engine, st, fr, callee, args, ops):
    return sym.Adt("lift::InstructionError", "Operand", [args[0]])


def m_from_instruction_error(engine, st, fr, callee, args, ops):
    return sym.Adt("lift::ConversionError", "Instruction", [args[0]])


def m_text(engine, st, fr, callee, args, ops):
    return sym.Sym(engine.fresh_name("text"), "fmt")


HINT_LS = "rspirv/lift/storage.rs"
HINT_S = "rspirv/sr/storage.rs"
HINT_CTX = "rspirv/lift/"

MODELS = [
    # the crate's own code: inlined
    (r"^LiftStorage::<.*>::new$", inline_from("new", HINT_LS, 0)),
    (r"^LiftStorage::<.*>::unwrap$", inline_from("unwrap", HINT_LS, 1)),
    (r"^LiftStorage::<.*>::lookup$", inline_from("lookup", HINT_LS, 2)),
    (r"^LiftStorage::<.*>::lookup_safe$", inline_from("lookup_safe", HINT_LS, 2)),
    (r"^LiftStorage::<.*>::lookup_token$", inline_from("lookup_token", HINT_LS, 2)),
    (r"^LiftStorage::<.*>::append$", inline_from("append", HINT_LS, 3)),
    (r"^LiftStorage::<.*>::append_id$", inline_from("append_id", HINT_LS, 3)),
    (r"^LiftStorage::<.*>::(\w+)$", lambda e, s, f, c, a, o: inline_from(c.split("::")[-1], HINT_LS, len(a))(e, s, f, c, a, o)),
    (r"^sr::storage::Storage::<.*>::(fetch_or_append)$", lambda e, s, f, c, a, o: inline_from(c.split("::")[-1], HINT_S, len(a))(e, s, f, c, a, o)),
    (r"^sr::storage::Storage::<.*>::new$", inline_from("new", HINT_S, 0)),
    (r"^sr::storage::Storage::<.*>::append$", inline_from("append", HINT_S, 2)),
    (r"^sr::storage::Token::<.*>::new$", inline_from("new", HINT_S, 1)),
    (r"^<sr::storage::Storage<.*> as (std::ops::)?Index<sr::storage::Token<.*>>>::index$", inline_from("index", HINT_S, 2)),
    (r"^(sr::types::)?StructMember::new$", inline_from("new", "rspirv/sr/types.rs", 1)),
    (r"^LiftContext::(lift_\w+|lookup_jump)$", lambda e, s, f, c, a, o: inline_from(c.split("::")[-1], HINT_CTX, None)(e, s, f, c, a, o)),
    (r"^<lift::InstructionError as From<lift::OperandError>>::from$|^<InstructionError as From<OperandError>>::from$", m_from_operand_error),
    (r"^<(lift::)?ConversionError as From<(lift::)?InstructionError>>::from$", m_from_instruction_error),
    (r"^<(lift::)?OperandError as Into<(lift::)?InstructionError>>::into$", m_from_operand_error),
    # std summaries
    (r"^<HashMap<u32, .*> as Default>::default$|^HashMap::<u32, .*>::new$", m_map_new),
    (r"^<HashMap<u32, .*> as (std::ops::)?Index<&u32>>::index$", m_map_index),
    (r"^HashMap::<u32, .*>::get::<u32>$", m_map_get),
    (r"^HashMap::<u32, .*>::entry$", m_map_entry),
    (r"^(std::collections::hash_map::)?VacantEntry::<'_, u32, .*>::insert$", m_vacant_insert),
    (r" as Borrow<sr::storage::Token<.*>>>::borrow$", m_borrow),
    (r"^(std|core)::mem::replace::<", m_mem_replace),
    (r"^core::slice::<impl \[.*\]>::last$", m_slice_last),
    (r"^core::slice::<impl \[.*\]>::first$", m_slice_first),
    (r"^Vec::<.*>::with_capacity$", m_with_capacity),
    (r"^<std::slice::Iter<'_, .*> as Iterator>::next$|^<StepBy<.*> as Iterator>::next$", m_citer_next),
    (r"^<std::slice::Iter<'_, .*> as Iterator>::step_by$", m_step_by),
    (r"^<StepBy<.*> as IntoIterator>::into_iter$", lambda e, s, f, c, a, o: a[0]),
    (r"^<(std::slice::Iter<'_, .*>|TakeWhile<.*>|Skip<.*>|Take<.*>) as Iterator>::map::<", m_iter_map),
    (r"^<Map<.*> as Iterator>::collect::<(std::result::)?Result<", m_collect_result_vec),
    (r"^Option::<.*>::and_then::<", m_option_and_then),
    (r"^(std::result::)?Result::<.*>::map::<", m_result_map),
    (r"^Option::<.*>::ok_or::<", m_option_ok_or_concrete),
    (r"^core::f32::<impl f32>::from_bits$", m_f32_from_bits),
    (r"^core::fmt::rt::Argument::<'_>::new_(debug|display)::<", m_text),
    (r"^Arguments::<'_>::new(_const|_v1)?::<", m_text),
] + itermodels.MODELS
