"""Grammar tables as *compiled*: the three static instruction tables are obtained by evaluating the MIR of
their promoted constants (i.e. after macro expansion and constant promotion by rustc), not by reading macros."""
import z3
import sym
import mir
import reg as regmod
from common import mir_path

_cache = {}

TABLES = {"core": "INSTRUCTION_TABLE", "glsl": "GLSL_STD_450_INSTRUCTION_TABLE", "opencl": "OPENCL_STD_100_INSTRUCTION_TABLE"}


def engine_and_mir():
    if "eng" not in _cache:
        registry = regmod.build_registry()
        mf = mir.MirFile(mir_path("rspirv"))
        ms = mir.MirFile(mir_path("spirv"))
        _cache["eng"] = (sym.Engine([mf, ms], registry, max_steps=10 ** 7), mf, ms, registry)
    return _cache["eng"]


def _val(x):
    x = z3.simplify(x)
    return x.as_long()


def load_tables():
    """-> dict name -> list of entries dict(opname, opcode, caps[int], exts[str], operands[(kind:int, quant:int)])"""
    if "tables" in _cache:
        return _cache["tables"]
    eng, mf, ms, registry = engine_and_mir()
    out = {}
    for key, nm in TABLES.items():
        c = mf.find(nm + "::promoted[0]")
        if len(c) != 1:
            raise mir.Unsupported("static table %s: %d promoted constants" % (nm, len(c)))
        item = mf.parse_item(c[0][2])
        ref = eng.run_const_item(item)
        arr = eng._read_const(ref)
        entries = []
        for e in arr.items:
            f = [eng._read_const(x) if isinstance(x, sym.Ref) else x for x in e.fields]
            entries.append(dict(
                opname=f[0].s, opcode=_val(f[1]),
                caps=[_val(c) for c in f[2].items],
                exts=[x.s for x in f[3].items],
                operands=[(_val(o.fields[0]), _val(o.fields[1])) for o in f[4].items]))
        out[key] = entries
    kinds = registry.lookup("syntax::OperandKind")
    quants = registry.lookup("syntax::OperandQuantifier")
    out["kind_names"] = {d: n for n, d in kinds["variants"]}
    out["quant_names"] = {d: n for n, d in quants["variants"]}
    _cache["tables"] = out
    return out
