"""mirsym: symbolic execution of rustc MIR into z3 terms.

Paths are explored by forking at branches whose condition is not a constant after
simplification; every path ends in a `PathResult` (return / panic / unreachable) that carries its
path condition, the returned value, the ordered event log of modelled calls and the final memory.
The properties are then z3 queries over those results (made by the checks, not here).

Soundness notes (these are part of every claim that uses this engine):
  * integers are bit-vectors of their Rust width (usize/isize = 64);
  * C-like enums are the bit-vector of their discriminant; a *symbolic* enum value must be
    constrained to declared discriminants by the caller (Rust's validity invariant);
  * references are (root, field-path) pairs; Rust's aliasing rules make that exact for safe code;
  * calls are either inlined from their own MIR, or replaced by a *model* (listed per check).
"""
import re
import z3
from mir import (MirFile, Unsupported, stmt_of, term_of, split_top)

USIZE = 64


# ---------------------------------------------------------------- values
class Unit:
    def __repr__(self):
        return "()"

    def __eq__(self, o):
        return isinstance(o, Unit)

    def __hash__(self):
        return 0


UNIT = Unit()


class Adt:
    __slots__ = ("ty", "variant", "fields")

    def __init__(self, ty, variant, fields):
        self.ty, self.variant, self.fields = ty, variant, tuple(fields)

    def __repr__(self):
        v = ("::" + str(self.variant)) if self.variant is not None else ""
        return "%s%s%s" % (self.ty, v, list(self.fields) if self.fields else "")


class Sym:
    """Opaque symbolic value of a non-scalar type; children are derived by name (deterministic),
    `over` holds fields that were overwritten."""
    __slots__ = ("name", "ty", "over")

    def __init__(self, name, ty, over=None):
        self.name, self.ty, self.over = name, ty, over or {}

    def __repr__(self):
        return "Sym(%s: %s%s)" % (self.name, self.ty, (" +" + str(list(self.over))) if self.over else "")


class Ref:
    __slots__ = ("root", "path", "mut")

    def __init__(self, root, path=(), mut=False):
        self.root, self.path, self.mut = root, tuple(path), mut

    def __repr__(self):
        return "&%s%s%s" % ("mut " if self.mut else "", self.root, list(self.path) if self.path else "")


class Arr:
    """Array / slice / Vec contents of concrete length."""
    __slots__ = ("items", "kind")

    def __init__(self, items, kind="arr"):
        self.items, self.kind = tuple(items), kind

    def __repr__(self):
        return "%s%s" % (self.kind, list(self.items))


class StrV:
    __slots__ = ("s",)

    def __init__(self, s):
        self.s = s

    def __repr__(self):
        return "str(%r)" % self.s


class FnV:
    __slots__ = ("name", "captures")

    def __init__(self, name, captures=()):
        self.name, self.captures = name, tuple(captures)

    def __repr__(self):
        return "fn(%s)" % self.name


class BoxV:
    __slots__ = ("inner",)

    def __init__(self, inner):
        self.inner = inner

    def __repr__(self):
        return "Box(%r)" % (self.inner,)


# ---------------------------------------------------------------- types
INT_TYPES = {"u8": (8, False), "u16": (16, False), "u32": (32, False), "u64": (64, False), "u128": (128, False),
             "usize": (USIZE, False), "i8": (8, True), "i16": (16, True), "i32": (32, True), "i64": (64, True),
             "i128": (128, True), "isize": (USIZE, True), "char": (32, False)}

STD_ENUMS = {
    "Option": [("None", 0), ("Some", 1)],
    "Result": [("Ok", 0), ("Err", 1)],
    "ControlFlow": [("Continue", 0), ("Break", 1)],
    "Entry": [("Occupied", 0), ("Vacant", 1)],
}


def strip_generics(t):
    out, depth = [], 0
    i = 0
    while i < len(t):
        c = t[i]
        if c == "<":
            if out[-2:] == [":", ":"]:
                out = out[:-2]
            depth += 1
        elif c == ">" and not (i > 0 and t[i - 1] in "-="):
            depth -= 1
        elif depth == 0:
            out.append(c)
        i += 1
    return "".join(out)


def last_seg(t):
    return strip_generics(t).split("::")[-1].strip()


def generic_args(t):
    i = t.find("<")
    if i < 0:
        return []
    depth = 0
    for j in range(i, len(t)):
        c = t[j]
        if c == "<":
            depth += 1
        elif c == ">" and not (j > 0 and t[j - 1] in "-="):
            depth -= 1
            if depth == 0:
                return split_top(t[i + 1:j])
    return []


class Registry:
    """Enum declarations known to the engine: qualified name -> [(variant, discr)] and whether C-like."""

    def __init__(self):
        self.enums = {}       # key (as given) -> dict(variants=[(name, discr)], clike=bool, width=int)
        self.aliases = {}

    def add(self, key, variants, clike, width=32):
        self.enums[key] = dict(variants=list(variants), clike=clike, width=width,
                               by_name={n: d for n, d in variants})

    def lookup(self, ty):
        """ty: type text as printed in MIR. Matching is on trailing path segments."""
        if ty is None:
            return None
        t = strip_generics(ty).strip()
        t = t.lstrip("&").strip()
        segs = t.split("::")
        for k in range(len(segs), 0, -1):
            key = "::".join(segs[-k:])
            if key in self.enums:
                return self.enums[key]
        if segs[-1] in STD_ENUMS:
            v = STD_ENUMS[segs[-1]]
            return dict(variants=v, clike=False, width=64, by_name=dict(v))
        return None


# ---------------------------------------------------------------- results
class PathResult:
    def __init__(self, status, pc, value, events, mem, info=None):
        self.status, self.pc, self.value, self.events, self.mem, self.info = status, pc, value, events, mem, info

    def __repr__(self):
        return "<%s %s info=%s events=%d>" % (self.status, self.value, self.info, len(self.events))


class Frame:
    __slots__ = ("fn", "uid", "bb", "idx", "dest", "ret_bb", "wrap")

    def __init__(self, fn, uid, dest=None, ret_bb=None, wrap=None):
        self.fn, self.uid, self.bb, self.idx, self.dest, self.ret_bb, self.wrap = fn, uid, "bb0", 0, dest, ret_bb, wrap

    def copy(self):
        f = Frame(self.fn, self.uid, self.dest, self.ret_bb, self.wrap)
        f.bb, f.idx = self.bb, self.idx
        return f


class State:
    def __init__(self):
        self.frames = []
        self.mem = {}          # root key -> value
        self.pc = []
        self.events = []
        self.uid = 0
        self.steps = 0
        self.visits = {}       # (frame uid, bb) -> count   (loop bound)

    def fork(self):
        s = State()
        s.frames = [f.copy() for f in self.frames]
        s.mem = dict(self.mem)
        s.pc = list(self.pc)
        s.events = list(self.events)
        s.uid = self.uid
        s.steps = self.steps
        s.visits = dict(self.visits)
        return s


class Stats:
    def __init__(self):
        self.solver_calls = 0
        self.solver_time = 0.0
        self.paths = 0
        self.pruned = 0
        self.functions = set()
        self.models_used = set()


_STD = None


def _std_models():
    global _STD
    if _STD is None:
        try:
            import stdmodels
            _STD = stdmodels.MODELS
        except Exception:
            _STD = []
    return _STD


class Engine:
    def __init__(self, mirs, registry, models=None, inline=None, hints=None, eager=True, loop_bound=8,
                 max_paths=200000, max_steps=200000):
        self.mirs = mirs if isinstance(mirs, (list, tuple)) else [mirs]
        self.reg = registry
        self.models = list(models or [])     # [(regex, handler)]
        self.inline = list(inline or [])     # [regex] of callee texts to inline from MIR
        self.hints = hints or {}             # last-seg -> file hint for resolution
        self.eager = eager
        self.loop_bound = loop_bound
        self.max_paths = max_paths
        self.max_steps = max_steps
        self.stats = Stats()
        self.solver = z3.Solver()
        self.fresh = 0
        self._const_cache = {}

    # ------------------------------------------------------------ symbols
    def fresh_name(self, base):
        self.fresh += 1
        return "%s!%d" % (base, self.fresh)

    def mk_sym(self, ty, name):
        ty = ty.strip()
        if ty in INT_TYPES:
            return z3.BitVec(name, INT_TYPES[ty][0])
        if ty == "bool":
            return z3.Bool(name)
        if ty == "()":
            return UNIT
        e = self.reg.lookup(ty)
        if e and e["clike"] and not ty.startswith("&"):
            return z3.BitVec(name, e["width"])
        if ty.startswith("(") and ty.endswith(")"):
            parts = split_top(ty[1:-1])
            return Adt("tuple", None, [self.mk_sym(p, "%s.%d" % (name, i)) for i, p in enumerate(parts) if p])
        return Sym(name, ty)

    # ------------------------------------------------------------ solver
    def feasible(self, pc, extra=None):
        import time
        cs = list(pc) + ([extra] if extra is not None else [])
        t = time.time()
        r = self.solver.check(*cs)
        self.stats.solver_calls += 1
        self.stats.solver_time += time.time() - t
        if r == z3.unknown:
            raise Unsupported("solver returned unknown on a feasibility query")
        return r == z3.sat

    # ------------------------------------------------------------ resolution
    def resolve_fn(self, callee):
        if callee.startswith("{closure@"):
            for mf in self.mirs:
                idx = getattr(mf, "_closure_index", None)
                if idx is None:
                    idx = {}
                    for nm, lst in mf.items.items():
                        if "{closure#" in nm:
                            for k, ln in lst:
                                m = re.search(r"\(_1: &?(?:mut )?(\{closure@[^}]*\})", mf.lines[ln])
                                if m:
                                    idx[m.group(1)] = ln
                    mf._closure_index = idx
                if callee in idx:
                    return mf.parse_item(idx[callee])
            raise Unsupported("cannot resolve closure %r" % callee)
        name = strip_generics(callee)
        # `<T as Trait>::method` -> method with hint T
        m = re.match(r"^<(.*) as (.*)>::(\w+)$", name)
        hint = None
        if m:
            last = m.group(3)
            hint = None
        else:
            last = name.split("::")[-1]
        if "{closure" in name:
            last = "::".join(name.split("::")[-2:])
        hint = self.hints.get(callee, self.hints.get(last, hint))
        errs = []
        for mf in self.mirs:
            try:
                return mf.get(last, file_hint=hint, kind="fn")
            except Unsupported as e:
                errs.append(str(e))
        # several items share the name: `Type::method` / `<Type as Trait>::method` — keep the one whose receiver is `Type`
        tyname = None
        if m:
            tyname = strip_generics(m.group(1)).split("::")[-1].lstrip("&").strip()
        elif "::" in name:
            tyname = name.split("::")[-2]
        if tyname and re.match(r"^\w+$", tyname):
            for mf in self.mirs:
                cands = [c for c in mf.find(last, file_hint=hint, kind="fn") if "closure" not in c[0]]
                keep = [c for c in cands if re.search(r"\(_1: &?(mut )?(\w+::)*%s[,)<]" % re.escape(tyname), mf.lines[c[2]])]
                if len(set(c[0] for c in keep)) == 1:
                    return mf.parse_item(keep[0][2])
        raise Unsupported("cannot resolve callee %r: %s" % (callee, errs))

    # ------------------------------------------------------------ memory
    def read_root(self, st, root):
        if isinstance(root, tuple) and root and root[0] == "const":
            return self._const_mem[root]
        if root not in st.mem:
            raise Unsupported("read of uninitialised %r" % (root,))
        return st.mem[root]

    def _child(self, v, step):
        """Pure projection of a value (no deref of Ref)."""
        k = step[0]
        if isinstance(v, Adt) and v.ty in ("VecLit", "Transparent") and k == "field":
            return v
        if k == "field":
            i, ty = step[1], step[2]
            if isinstance(v, Adt):
                if i >= len(v.fields):
                    raise Unsupported("field %d of %r" % (i, v))
                return v.fields[i]
            if isinstance(v, Sym):
                key = ("f", step[3] if len(step) > 3 else None, i)
                if key in v.over:
                    return v.over[key]
                var = step[3] if len(step) > 3 else None
                nm = "%s.%s%d" % (v.name, (var + ".") if var else "", i)
                return self.mk_sym(ty, nm)
            if isinstance(v, BoxV):
                if re.match(r"^(std::ptr::|core::ptr::)?(Unique|NonNull)<", str(ty).strip()):
                    return v        # Box -> Unique -> NonNull: the pointer wrappers of the box itself (`*boxed` goes through them)
                return self._child(v.inner, step)
            if isinstance(v, FnV):
                return v.captures[i]
            raise Unsupported("field of %r" % (v,))
        if k == "downcast":
            return v
        if k == "symderef":
            if isinstance(v, Sym):
                key = ("*",)
                if key in v.over:
                    return v.over[key]
                return self.mk_sym(step[1], v.name + "*")
            raise Unsupported("symderef of %r" % (v,))
        if k == "constindex" or k == "index_c":
            i = step[1]
            if isinstance(v, Arr):
                if k == "constindex" and step[3]:
                    i = len(v.items) - i
                return v.items[i]
            if isinstance(v, Sym):
                key = ("i", i)
                if key in v.over:
                    return v.over[key]
                return self.mk_sym(elem_type(v.ty), "%s[%d]" % (v.name, i))
            raise Unsupported("index of %r" % (v,))
        if k == "subslice":
            frm, to, from_end = step[1], step[2], step[3]
            if isinstance(v, Arr):
                hi = len(v.items) - to if from_end else to
                return Arr(v.items[frm:hi], v.kind)
            raise Unsupported("subslice of %r" % (v,))
        raise Unsupported("projection %r" % (step,))

    def _update(self, v, path, new):
        if not path:
            return new
        if isinstance(v, Adt) and v.ty == "Transparent" and path[0][0] == "field":
            return self._update(v, path[1:], new)
        step = path[0]
        k = step[0]
        if k == "downcast":
            return self._update(v, path[1:], new)
        if k == "symderef" and isinstance(v, Sym):
            cur = self._child(v, step)
            over = dict(v.over)
            over[("*",)] = self._update(cur, path[1:], new)
            return Sym(v.name, v.ty, over)
        if k == "field":
            i = step[1]
            if isinstance(v, Adt):
                fields = list(v.fields)
                fields[i] = self._update(fields[i], path[1:], new)
                return Adt(v.ty, v.variant, fields)
            if isinstance(v, Sym):
                key = ("f", step[3] if len(step) > 3 else None, i)
                cur = self._child(v, step)
                over = dict(v.over)
                over[key] = self._update(cur, path[1:], new)
                return Sym(v.name, v.ty, over)
            if isinstance(v, BoxV):
                return BoxV(self._update(v.inner, path, new))
        if k in ("constindex", "index_c"):
            i = step[1]
            if isinstance(v, Arr):
                items = list(v.items)
                items[i] = self._update(items[i], path[1:], new)
                return Arr(items, v.kind)
            if isinstance(v, Sym):
                cur = self._child(v, step)
                over = dict(v.over)
                over[("i", i)] = self._update(cur, path[1:], new)
                return Sym(v.name, v.ty, over)
        raise Unsupported("update %r in %r" % (step, v))

    def resolve_place(self, st, frame, place):
        """-> (root, pure path).  Follows Ref/Box derefs; annotates fields after a downcast with
        the variant name (for Sym children)."""
        local, proj = place
        root = (frame.uid, local)
        path = []
        pending_variant = None
        slice_off = 0          # a `Slice[ref, lo(, hi)]` view was dereferenced: the next index is relative to lo
        slice_len = None
        for step in proj:
            if step[0] == "deref":
                v = self.read_at(st, root, path)
                while isinstance(v, Adt) and v.ty == "Slice":
                    slice_off += v.fields[1] if len(v.fields) > 1 else 0
                    if len(v.fields) > 2 and slice_len is None:
                        slice_len = v.fields[2] - (v.fields[1] if len(v.fields) > 1 else 0)
                    v = v.fields[0]
                if isinstance(v, Ref):
                    root, path = v.root, list(v.path)
                elif isinstance(v, BoxV):
                    path.append(("box",))
                elif isinstance(v, Sym) and v.ty.strip().startswith("&"):
                    inner_ty = re.sub(r"^&('\w+ )?(mut )?", "", v.ty.strip())
                    path.append(("symderef", inner_ty))
                else:
                    raise Unsupported("deref of %r (place %r)" % (v, place))
                pending_variant = None
            elif step[0] == "downcast":
                pending_variant = step[1]
            elif step[0] == "field":
                if pending_variant is not None:
                    path.append(("field", step[1], step[2], pending_variant))
                else:
                    path.append(step)
                pending_variant = None
            elif step[0] == "index":
                iv = self.read_root(st, (frame.uid, step[1]))
                iv = z3.simplify(iv)
                if not z3.is_bv_value(iv):
                    raise Unsupported("symbolic index %r" % (iv,))
                path.append(("index_c", iv.as_long() + slice_off))
                slice_off = 0
                slice_len = None
            elif step[0] in ("subslice", "constindex") and (slice_off or slice_len is not None):
                # relative to a `Slice[ref, lo(, hi)]` view: make it absolute in the underlying sequence
                base = self.read_at(st, root, path)
                if not isinstance(base, Arr):
                    raise Unsupported("%s of a view of %r" % (step[0], base))
                vlen = slice_len if slice_len is not None else len(base.items) - slice_off
                if step[0] == "constindex":
                    i = step[1]
                    path.append(("index_c", slice_off + (vlen - i if step[3] else i)))
                else:
                    frm, to, from_end = step[1], step[2], step[3]
                    path.append(("subslice", slice_off + frm, slice_off + (vlen - to if from_end else to), False))
                slice_off = 0
                slice_len = None
            else:
                path.append(step)
        return root, path

    def read_at(self, st, root, path):
        v = self.read_root(st, root)
        for step in path:
            if step[0] == "box":
                v = v.inner
            else:
                v = self._child(v, step)
        return v

    def write_at(self, st, root, path, new):
        if not path:
            st.mem[root] = new
            return
        cur = st.mem.get(root)
        if cur is None:
            raise Unsupported("partial write to uninitialised %r" % (root,))
        st.mem[root] = self._update_box(cur, path, new)

    def _update_box(self, v, path, new):
        if path and path[0][0] == "box":
            return BoxV(self._update_box(v.inner, path[1:], new))
        if not path:
            return new
        # descend one pure step, then recurse (to allow box steps deeper)
        step = path[0]
        if len(path) == 1:
            return self._update(v, path, new)
        child = self._child(v, step)
        return self._update(v, [step], self._update_box(child, path[1:], new))

    def read_place(self, st, frame, place):
        root, path = self.resolve_place(st, frame, place)
        return self.read_at(st, root, path)

    def write_place(self, st, frame, place, val):
        root, path = self.resolve_place(st, frame, place)
        self.write_at(st, root, path, val)

    # ------------------------------------------------------------ static types
    def place_type(self, frame, place):
        local, proj = place
        ty = frame.fn.locals.get(local)
        for step in proj:
            if step[0] == "field":
                ty = step[2]
            elif step[0] == "deref":
                if ty is None:
                    return None
                ty = ty.strip()
                ty = re.sub(r"^&('\w+ )?(mut )?", "", ty)
                if ty.startswith("std::boxed::Box<") or ty.startswith("Box<"):
                    ty = generic_args(ty)[0]
            elif step[0] in ("index", "constindex"):
                ty = elem_type(ty) if ty else None
            elif step[0] == "downcast":
                pass
        return ty

    def operand_type(self, frame, op):
        if op[0] in ("copy", "move"):
            return self.place_type(frame, op[1])
        m = re.search(r"_(u8|u16|u32|u64|u128|usize|i8|i16|i32|i64|i128|isize)$", op[1])
        if m:
            return m.group(1)
        if op[1] in ("true", "false"):
            return "bool"
        return None

    # ------------------------------------------------------------ constants
    def eval_const(self, st, frame, text, want_ty=None):
        t = text.strip()
        if t in ("true", "false"):
            return z3.BoolVal(t == "true")
        if t == "()":
            return UNIT
        m = re.match(r"^(-?\d+)_(u8|u16|u32|u64|u128|usize|i8|i16|i32|i64|i128|isize)$", t)
        if m:
            return z3.BitVecVal(int(m.group(1)), INT_TYPES[m.group(2)][0])
        m = re.match(r"^'(.*)'$", t)
        if m and len(m.group(1)) == 1:
            return z3.BitVecVal(ord(m.group(1)), 32)
        if t.startswith('"'):
            return StrV(_unescape(t[1:-1]))
        if t.startswith("ZeroSized: "):
            return FnV(t[len("ZeroSized: "):].strip())
        if t.startswith('b"'):
            return Ref(("lit", t), ())
        m = re.match(r"^\{alloc(\d+): (.*)\}$", t)
        if m:
            return self.eval_alloc(st, frame, int(m.group(1)), m.group(2))
        m = re.match(r"^(.*)::promoted\[(\d+)\]$", t)
        if m or re.match(r"^[A-Za-z_<]", t):
            return self.eval_named_const(st, frame, t, want_ty)
        raise Unsupported("constant %r" % t)

    def eval_alloc(self, st, frame, n, ty):
        """`const {allocN: &T}` where the dump describes allocN as `(static: NAME ...)` after the function."""
        key = ("alloc", frame.fn.name, n)
        if key in self._const_cache:
            return self._const_cache[key]
        for mf in self.mirs:
            if frame.fn.line < len(mf.lines) and frame.fn.name in mf.lines[frame.fn.line]:
                pat = "alloc%d (static: " % n
                for i in range(frame.fn.line, min(len(mf.lines), frame.fn.line + 400000)):
                    ln = mf.lines[i]
                    if ln.startswith(pat):
                        name = ln[len(pat):].split(",")[0].split(")")[0].strip()
                        inner = self.eval_named_const(st, frame, name, None)
                        self._const_mem = getattr(self, "_const_mem", {})
                        cell = ("const", "alloc:" + name, "cell")
                        self._const_mem[cell] = inner
                        v = Ref(cell, ())
                        self._const_cache[key] = v
                        return v
                    if ln.startswith("fn ") and i > frame.fn.line:
                        # allocations are printed right after the function that uses them
                        pass
        raise Unsupported("allocation alloc%d of %s is not a reference to a static" % (n, frame.fn.name))

    def call_pure(self, st, fn, args):
        """Run `fn(args)` to completion on a fork of `st` (shared memory snapshot) and return its PathResults."""
        s2 = st.fork()
        s2.frames = []
        nf = Frame(fn, s2.uid)
        s2.uid += 1
        for (a, _), v in zip(fn.args, args):
            s2.mem[(nf.uid, a)] = v
        s2.frames.append(nf)
        st.uid = s2.uid + 64      # keep frame ids of later sub-runs distinct
        return self.run_state(s2)

    def eval_named_const(self, st, frame, t, want_ty):
        key = t
        if key in self._const_cache:
            return self._const_cache[key]
        name = strip_generics(t)
        last = name.split("::")[-1]
        # `Enum::Variant::{constant#0}`: the initialiser of an explicit discriminant (`Variant = 19`), as used by `Variant as u32`
        mdc = re.match(r"^(.*)::(\w+)::\{constant#\d+\}$", t.strip())
        if mdc:
            e = self.reg.lookup(strip_generics(mdc.group(1)))
            if e and e["clike"] and mdc.group(2) in e["by_name"]:
                v = z3.BitVecVal(e["by_name"][mdc.group(2)], e["width"])
                self._const_cache[key] = v
                return v
        xc = getattr(self, "extra_consts", None)
        if xc:
            k2 = "::".join(name.split("::")[-2:])
            if k2 in xc:
                return xc[k2]
        # enum variant constant?
        if "::" in name:
            e = self.reg.lookup("::".join(name.split("::")[:-1]))
            if e and last in e["by_name"]:
                if e["clike"]:
                    v = z3.BitVecVal(e["by_name"][last], e["width"])
                else:
                    v = Adt("::".join(name.split("::")[:-1]), last, ())
                self._const_cache[key] = v
                return v
        # promoted / named const / static with a MIR body
        cands = []
        if "promoted[" in name:
            # `Owner::promoted[i]`: owner is a fn path as printed at the use site; definitions are
            # named `...::owner_last::promoted[i]`
            segs = name.split("::")
            suffix = "::".join(segs[-2:])
            for mf in self.mirs:
                cands += [(mf, c) for c in mf.find(suffix)]
            if len(cands) > 1 and frame is not None:
                # prefer the one whose owner is the current function
                own = frame.fn.name
                c2 = [c for c in cands if c[1][0].startswith(own + "::")]
                if c2:
                    cands = c2
        else:
            for mf in self.mirs:
                cands += [(mf, c) for c in mf.find(last) if c[1] in ("const", "static")]
        if cands:
            names = sorted(set(c[1][0] for c in cands))
            segs = name.split("::")
            k = 2
            while len(names) > 1 and k <= len(segs):
                suf = "::".join(segs[-k:])
                c2 = [c for c in cands if c[1][0] == suf or c[1][0].endswith("::" + suf)]
                if c2:
                    cands = c2
                    names = sorted(set(c[1][0] for c in cands))
                k += 1
            if len(names) > 1:
                raise Unsupported("ambiguous constant %r: %s" % (t, names[:4]))
            mf, (nm, kind, ln) = cands[0]
            item = mf.parse_item(ln)
            if item.const_value is not None:
                v = self.eval_const(st, frame, item.const_value.replace("const ", "", 1))
            else:
                v = self.run_const_item(item)
            self._const_cache[key] = v
            return v
        # associated constants of the primitive integer types
        mnum = re.match(r"^core::num::<impl (u8|u16|u32|u64|u128|usize|i8|i16|i32|i64|i128|isize)>::(MAX|MIN|BITS)$", t.strip())
        if mnum:
            w, sg = INT_TYPES[mnum.group(1)]
            if mnum.group(2) == "BITS":
                v = z3.BitVecVal(w, 32)
            elif mnum.group(2) == "MAX":
                v = z3.BitVecVal((1 << (w - 1)) - 1 if sg else (1 << w) - 1, w)
            else:
                v = z3.BitVecVal(1 << (w - 1) if sg else 0, w)
            self._const_cache[key] = v
            return v
        # function item
        return FnV(t)

    def run_const_item(self, item):
        st = State()
        fr = Frame(item, 0)
        st.uid = 1
        st.frames.append(fr)
        res = self.run_state(st)
        oks = [r for r in res if r.status == "return"]
        if len(res) != 1 or not oks:
            raise Unsupported("constant item %s did not evaluate to a single value" % item.name)
        v = oks[0].value
        # re-home memory the value points into: constants are immutable, keep them in a global area
        self._const_mem = getattr(self, "_const_mem", {})
        remap = {}
        for k, val in oks[0].mem.items():
            nk = ("const", item.name, k[1] if isinstance(k, tuple) else k)
            remap[k] = nk
        def rehome(x):
            if isinstance(x, Ref):
                return Ref(remap.get(x.root, x.root), x.path, x.mut)
            if isinstance(x, Adt):
                return Adt(x.ty, x.variant, [rehome(f) for f in x.fields])
            if isinstance(x, Arr):
                return Arr([rehome(f) for f in x.items], x.kind)
            if isinstance(x, BoxV):
                return BoxV(rehome(x.inner))
            return x
        for k, val in oks[0].mem.items():
            self._const_mem[remap[k]] = rehome(val)
        return rehome(v)

    # ------------------------------------------------------------ operands / rvalues
    def eval_operand(self, st, frame, op):
        if op[0] in ("copy", "move"):
            return self.read_place(st, frame, op[1])
        return self.eval_const(st, frame, op[1])

    def enum_variant_value(self, name):
        """`path::Type::Variant` or `path::Struct` -> (type_path, variant|None, enum_info|None)"""
        n = strip_generics(name)
        segs = n.split("::")
        if len(segs) >= 2:
            e = self.reg.lookup("::".join(segs[:-1]))
            if e and segs[-1] in e["by_name"]:
                return "::".join(segs[:-1]), segs[-1], e
        return n, None, None

    def eval_rvalue(self, st, frame, rv, dest_ty):
        k = rv[0]
        if k == "use":
            return self.eval_operand(st, frame, rv[1])
        if k in ("ref", "addr"):
            local, proj = rv[2]
            if proj and proj[-1] == ("deref",):
                base = self.read_place(st, frame, (local, proj[:-1]))
                if isinstance(base, (StrV, Ref)):
                    return base          # reborrow
            root, path = self.resolve_place(st, frame, rv[2])
            return Ref(root, path, rv[1])
        if k == "binop":
            a = self.eval_operand(st, frame, rv[2])
            b = self.eval_operand(st, frame, rv[3])
            ty = self.operand_type(frame, rv[2]) or self.operand_type(frame, rv[3])
            return self.binop(rv[1], a, b, ty)
        if k == "unop":
            a = self.eval_operand(st, frame, rv[2])
            if rv[1] == "Not":
                return z3.simplify(z3.Not(a) if z3.is_bool(a) else ~a)
            if rv[1] == "Neg":
                return z3.simplify(-a)
            if rv[1] == "PtrMetadata":
                return self.len_of(st, a)
        if k == "len":
            return self.len_of(st, Ref(*self.resolve_place(st, frame, rv[1])))
        if k == "cast":
            a = self.eval_operand(st, frame, rv[1])
            return self.cast(a, self.operand_type(frame, rv[1]), rv[2], rv[3])
        if k == "discr":
            v = self.read_place(st, frame, rv[1])
            ty = self.place_type(frame, rv[1])
            return self.discriminant(v, ty, dest_ty)
        if k == "repeat":
            a = self.eval_operand(st, frame, rv[1])
            n = self.eval_const(st, frame, rv[2]) if not rv[2].isdigit() else z3.BitVecVal(int(rv[2]), 64)
            n = z3.simplify(n).as_long() if not isinstance(n, int) else n
            return Arr([a] * n)
        if k == "aggr":
            kind, name, ops = rv[1], rv[2], rv[3]
            if kind == "tuple":
                vals = [self.eval_operand(st, frame, o) for o in ops]
                if not vals:
                    return UNIT
                return Adt("tuple", None, vals)
            if kind == "array":
                return Arr([self.eval_operand(st, frame, o) for o in ops])
            if kind == "closure":
                return FnV(name, [self.eval_operand(st, frame, o) for o in ops])
            if kind == "adt_named":
                vals = [self.eval_operand(st, frame, o) for o in ops.values()]
                ty, var, e = self.enum_variant_value(name)
                return Adt(ty, var, vals)
            if kind == "adt":
                vals = [self.eval_operand(st, frame, o) for o in ops]
                ty, var, e = self.enum_variant_value(name)
                if e is None and dest_ty:
                    e2 = self.reg.lookup(dest_ty)
                    lastn = strip_generics(name).split("::")[-1]
                    if e2 and lastn in e2["by_name"]:
                        ty, var, e = dest_ty, lastn, e2
                if e and e["clike"]:
                    return z3.BitVecVal(e["by_name"][var], e["width"])
                if var is None and not vals and dest_ty and self.reg.lookup(dest_ty) is None and "::" in name \
                        and strip_generics(name).split("::")[-1][:1].islower():
                    return FnV(name)
                return Adt(ty, var, vals)
        raise Unsupported("rvalue %r" % (rv,))

    def discriminant(self, v, ty, dest_ty):
        w = INT_TYPES.get((dest_ty or "isize").strip(), (64, True))[0]
        if z3.is_bv(v):
            if v.size() < w:
                return z3.simplify(z3.ZeroExt(w - v.size(), v))
            if v.size() > w:
                return z3.simplify(z3.Extract(w - 1, 0, v))
            return v
        if isinstance(v, Adt):
            e = self.reg.lookup(v.ty)
            if e is None or v.variant not in e["by_name"]:
                raise Unsupported("discriminant of %r (type %r)" % (v, ty))
            return z3.BitVecVal(e["by_name"][v.variant], w)
        if isinstance(v, Sym):
            if ("d",) in v.over:
                return v.over[("d",)]
            return z3.BitVec(v.name + "#d", w)
        raise Unsupported("discriminant of %r" % (v,))

    def len_of(self, st, a):
        if isinstance(a, Ref):
            v = self.read_at(st, a.root, a.path) if not (isinstance(a.root, tuple) and a.root[0] == "const") \
                else self._read_const(a)
        else:
            v = a
        if isinstance(v, Arr):
            return z3.BitVecVal(len(v.items), USIZE)
        if isinstance(v, Sym):
            return z3.BitVec(v.name + "#len", USIZE)
        if isinstance(v, StrV):
            return z3.BitVecVal(len(v.s.encode()), USIZE)
        if isinstance(v, Adt) and v.ty == "Slice":
            base = v.fields[0]
            lo = v.fields[1] if len(v.fields) > 1 else 0
            n = self.len_of(st, base)
            if len(v.fields) > 2:
                return z3.BitVecVal(v.fields[2] - lo, USIZE)
            return z3.simplify(n - z3.BitVecVal(lo, USIZE))
        raise Unsupported("len of %r" % (v,))

    def _read_const(self, ref):
        v = self._const_mem[ref.root]
        for step in ref.path:
            v = v.inner if step[0] == "box" else self._child(v, step)
        return v

    def binop(self, op, a, b, ty):
        signed = INT_TYPES.get((ty or "").strip(), (0, False))[1]
        if op in ("Eq", "Ne"):
            if isinstance(a, Unit):
                r = z3.BoolVal(True)
            else:
                r = (a == b)
            return z3.simplify(r if op == "Eq" else z3.Not(r))
        if z3.is_bool(a):
            f = {"BitAnd": z3.And, "BitOr": z3.Or, "BitXor": z3.Xor}[op]
            return z3.simplify(f(a, b))
        if z3.is_bv(a) and z3.is_bv(b) and a.size() != b.size():
            if op in ("Shl", "Shr", "ShlUnchecked", "ShrUnchecked"):
                if b.size() < a.size():
                    b = z3.ZeroExt(a.size() - b.size(), b)
                else:
                    b = z3.Extract(a.size() - 1, 0, b)
            else:
                raise Unsupported("width mismatch in %s" % op)
        if op in ("Lt", "Le", "Gt", "Ge"):
            f = {("Lt", False): z3.ULT, ("Le", False): z3.ULE, ("Gt", False): z3.UGT, ("Ge", False): z3.UGE,
                 ("Lt", True): lambda x, y: x < y, ("Le", True): lambda x, y: x <= y,
                 ("Gt", True): lambda x, y: x > y, ("Ge", True): lambda x, y: x >= y}[(op, signed)]
            return z3.simplify(f(a, b))
        if op in ("Add", "AddUnchecked"):
            return z3.simplify(a + b)
        if op in ("Sub", "SubUnchecked"):
            return z3.simplify(a - b)
        if op in ("Mul", "MulUnchecked"):
            return z3.simplify(a * b)
        if op == "BitAnd":
            return z3.simplify(a & b)
        if op == "BitOr":
            return z3.simplify(a | b)
        if op == "BitXor":
            return z3.simplify(a ^ b)
        if op in ("Shl", "ShlUnchecked"):
            return z3.simplify(a << b)
        if op in ("Shr", "ShrUnchecked"):
            return z3.simplify((a >> b) if signed else z3.LShR(a, b))
        if op == "Div":
            return z3.simplify((a / b) if signed else z3.UDiv(a, b))
        if op == "Rem":
            return z3.simplify(z3.SRem(a, b) if signed else z3.URem(a, b))
        if op in ("AddWithOverflow", "SubWithOverflow", "MulWithOverflow"):
            if op == "AddWithOverflow":
                r = a + b
                ok = z3.And(z3.BVAddNoOverflow(a, b, signed), z3.BVAddNoUnderflow(a, b) if signed else z3.BoolVal(True))
            elif op == "SubWithOverflow":
                r = a - b
                ok = z3.And(z3.BVSubNoUnderflow(a, b, signed), z3.BVSubNoOverflow(a, b) if signed else z3.BoolVal(True))
            else:
                r = a * b
                ok = z3.And(z3.BVMulNoOverflow(a, b, signed), z3.BVMulNoUnderflow(a, b) if signed else z3.BoolVal(True))
            return Adt("tuple", None, [z3.simplify(r), z3.simplify(z3.Not(ok))])
        raise Unsupported("binop %s" % op)

    def cast(self, a, src_ty, dst_ty, kind):
        dst = dst_ty.strip()
        if kind.startswith("PointerCoercion") or kind in ("PtrToPtr", "FnPtrToPtr"):
            return a
        if kind == "Transmute":
            if isinstance(a, BoxV) and dst.startswith("*"):
                return a            # NonNull<T> -> *const T of a box: still the box
            if isinstance(a, Adt) and a.ty == "VecLit":
                return a.fields[0]      # the raw pointer to the literal's storage
            if z3.is_bv(a):
                w = None
                if dst in INT_TYPES:
                    w = INT_TYPES[dst][0]
                else:
                    e = self.reg.lookup(dst)
                    if e and e["clike"]:
                        w = e["width"]
                if w == a.size():
                    return a
            raise Unsupported("transmute %r -> %s" % (a, dst))
        if kind == "IntToInt":
            if not z3.is_bv(a):
                if z3.is_bool(a):
                    a = z3.If(a, z3.BitVecVal(1, 8), z3.BitVecVal(0, 8))
                else:
                    raise Unsupported("IntToInt of %r" % (a,))
            if dst not in INT_TYPES:
                raise Unsupported("IntToInt to %s" % dst)
            w = INT_TYPES[dst][0]
            st = (src_ty or "").strip()
            signed = INT_TYPES.get(st, (0, False))[1]
            if a.size() == w:
                return a
            if a.size() > w:
                return z3.simplify(z3.Extract(w - 1, 0, a))
            return z3.simplify(z3.SignExt(w - a.size(), a) if signed else z3.ZeroExt(w - a.size(), a))
        raise Unsupported("cast kind %s" % kind)

    # ------------------------------------------------------------ running
    def run(self, fn, args, mem=None, pc=None):
        """fn: mir.Function; args: list of values (one per MIR argument)."""
        st = State()
        fr = Frame(fn, 0)
        st.uid = 1
        st.frames.append(fr)
        if mem:
            st.mem.update(mem)
        if pc:
            st.pc = list(pc)
        if len(args) != len(fn.args):
            raise Unsupported("arity mismatch calling %s" % fn.name)
        for (a, _), v in zip(fn.args, args):
            st.mem[(0, a)] = v
        return self.run_state(st)

    def run_state(self, st0):
        results = []
        work = [st0]
        cmem = getattr(self, "_const_mem", None)
        while work:
            st = work.pop()
            r = self.run_path(st, work)
            if r is not None:
                results.append(r)
                self.stats.paths += 1
                if self.stats.paths > self.max_paths:
                    raise Unsupported("path budget exceeded")
        return results

    def end(self, st, status, value=None, info=None):
        return PathResult(status, list(st.pc), value, list(st.events), dict(st.mem), info)

    def run_path(self, st, work):
        while True:
            st.steps += 1
            if st.steps > self.max_steps:
                raise Unsupported("step budget exceeded")
            fr = st.frames[-1]
            self.stats.functions.add(fr.fn.name)
            blk = fr.fn.blocks[fr.bb]
            if fr.idx < len(blk.stmts):
                s = stmt_of(blk.stmts[fr.idx])
                blk.stmts[fr.idx] = s
                fr.idx += 1
                if s[0] == "assign":
                    dest_ty = self.place_type(fr, s[1])
                    v = self.eval_rvalue(st, fr, s[2], dest_ty)
                    self.write_place(st, fr, s[1], v)
                elif s[0] == "setdisc":
                    raise Unsupported("SetDiscriminant")
                continue
            t = term_of(blk.term)
            blk.term = t
            k = t[0]
            if k == "goto":
                if not self.enter(st, fr, t[1]):
                    return self.end(st, "loop_bound", info=(fr.fn.name, t[1]))
                continue
            if k == "return":
                rv = st.mem.get((fr.uid, "_0"), UNIT)
                if fr.wrap is not None:
                    rv = fr.wrap(rv)
                st.frames.pop()
                if not st.frames:
                    return self.end(st, "return", rv)
                caller = st.frames[-1]
                if fr.dest is not None:
                    self.write_place(st, caller, fr.dest, rv)
                if fr.ret_bb is None:
                    return self.end(st, "diverge", info="callee returned to a diverging call site")
                if not self.enter(st, caller, fr.ret_bb):
                    return self.end(st, "loop_bound", info=(caller.fn.name, fr.ret_bb))
                continue
            if k == "unreachable":
                if self.feasible(st.pc):
                    return self.end(st, "unreachable", info=(fr.fn.name, fr.bb))
                self.stats.pruned += 1
                return None
            if k == "resume":
                return self.end(st, "panic", info="resume")
            if k == "drop":
                if t[2] is None:
                    return self.end(st, "diverge")
                if not self.enter(st, fr, t[2]):
                    return self.end(st, "loop_bound", info=(fr.fn.name, t[2]))
                continue
            if k == "assert":
                c = self.eval_operand(st, fr, t[1])
                c = z3.simplify(c if t[2] else z3.Not(c))
                if z3.is_true(c):
                    self.enter(st, fr, t[4])
                    continue
                if z3.is_false(c):
                    return self.end(st, "panic", info=("assert", t[3], fr.fn.name, fr.bb))
                res = None
                if (not self.eager) or self.feasible(st.pc, z3.Not(c)):
                    s2 = st.fork()
                    s2.pc.append(z3.Not(c))
                    res = PathResult("panic", list(s2.pc), None, list(s2.events), dict(s2.mem),
                                     ("assert", t[3], fr.fn.name, fr.bb))
                if (not self.eager) or self.feasible(st.pc, c):
                    st.pc.append(c)
                    self.enter(st, fr, t[4])
                    if res is not None:
                        # return the panic result now, continue the ok path later
                        work.append(st)
                        return res
                    continue
                return res
            if k == "switch":
                v = self.eval_operand(st, fr, t[1])
                if isinstance(v, bool):
                    v = z3.BitVecVal(int(v), 8)
                if z3.is_bool(v):
                    v = z3.If(v, z3.BitVecVal(1, 8), z3.BitVecVal(0, 8))
                if not z3.is_expr(v):
                    raise Unsupported("switch on %r (in %s)" % (v, fr.fn.name))
                v = z3.simplify(v)
                targets, otherwise = t[2], t[3]
                if z3.is_bv_value(v):
                    n = v.as_long()
                    dest = otherwise
                    for val, bb in targets:
                        if (val % (1 << v.size())) == n:
                            dest = bb
                            break
                    if dest is None:
                        return self.end(st, "unreachable", info=(fr.fn.name, fr.bb, "switch without otherwise"))
                    if not self.enter(st, fr, dest):
                        return self.end(st, "loop_bound", info=(fr.fn.name, dest))
                    continue
                # group by destination
                groups = {}
                order = []
                allvals = []
                for val, bb in targets:
                    c = (v == z3.BitVecVal(val, v.size()))
                    allvals.append(c)
                    if bb not in groups:
                        groups[bb] = []
                        order.append(bb)
                    groups[bb].append(c)
                branches = []
                for bb in order:
                    cs = groups[bb]
                    branches.append((bb, z3.Or(*cs) if len(cs) > 1 else cs[0]))
                if otherwise is not None:
                    branches.append((otherwise, z3.Not(z3.Or(*allvals)) if len(allvals) > 1 else z3.Not(allvals[0])))
                live = []
                for bb, c in branches:
                    if (not self.eager) or self.feasible(st.pc, c):
                        live.append((bb, c))
                    else:
                        self.stats.pruned += 1
                if not live:
                    return None
                for bb, c in live[1:]:
                    s2 = st.fork()
                    s2.pc.append(c)
                    f2 = s2.frames[-1]
                    if self.enter(s2, f2, bb):
                        work.append(s2)
                bb, c = live[0]
                st.pc.append(c)
                if not self.enter(st, fr, bb):
                    return self.end(st, "loop_bound", info=(fr.fn.name, bb))
                continue
            if k == "call":
                r = self.do_call(st, fr, t, work)
                if r is SPLIT:
                    return None
                if r is not None:
                    return r
                continue
            raise Unsupported("terminator %r" % (t,))

    def enter(self, st, fr, bb):
        key = (fr.uid, bb)
        n = st.visits.get(key, 0) + 1
        st.visits[key] = n
        fr.bb, fr.idx = bb, 0
        return n <= self.loop_bound

    # ------------------------------------------------------------ calls
    def do_call(self, st, fr, t, work):
        _, dest, callee, ops, ret_bb = t
        args = [self.eval_operand(st, fr, o) for o in ops]
        # 1. models
        for rx, handler in self.models:
            if re.search(rx, callee):
                self.stats.models_used.add(rx)
                out = handler(self, st, fr, callee, args, ops)
                return self.finish_call(st, fr, dest, ret_bb, out, work, callee)
        # 2. inline
        for rx in self.inline:
            if re.search(rx, callee):
                fn = self.resolve_fn(callee)
                return self.push_frame(st, fr, fn, args, dest, ret_bb)
        # 3. builtin
        for rx, handler in BUILTIN_MODELS:
            if re.search(rx, callee):
                self.stats.models_used.add("builtin:" + rx)
                out = handler(self, st, fr, callee, args, ops)
                return self.finish_call(st, fr, dest, ret_bb, out, work, callee)
        # 4. the wider std vocabulary (lib/stdmodels.py, validated against the real std by tools/test_models.py): a fallback only
        for rx, handler in _std_models():
            if re.search(rx, callee):
                self.stats.models_used.add("std:" + rx)
                out = handler(self, st, fr, callee, args, ops)
                return self.finish_call(st, fr, dest, ret_bb, out, work, callee)
        raise Unsupported("call to %r has neither model nor inline rule (in %s)" % (callee, fr.fn.name))

    def push_frame(self, st, fr, fn, args, dest, ret_bb, wrap=None):
        nf = Frame(fn, st.uid, dest, ret_bb, wrap)
        st.uid += 1
        if len(args) != len(fn.args):
            raise Unsupported("arity mismatch calling %s" % fn.name)
        for (a, _), v in zip(fn.args, args):
            st.mem[(nf.uid, a)] = v
        st.frames.append(nf)
        return None

    def finish_call(self, st, fr, dest, ret_bb, out, work, callee):
        """out: value | Panic(info) | Fork([(cond, value|Panic)]) | Inline(fn, args)"""
        if isinstance(out, Inline):
            return self.push_frame(st, fr, out.fn, out.args, dest, ret_bb, getattr(out, "wrap", None))
        if isinstance(out, FirstMatch):
            import time
            sol = z3.Solver()
            for c in st.pc:
                sol.add(c)
            negs = []
            t0 = time.time()
            for c, v in out.alts + [(z3.BoolVal(True), out.default)]:
                r = sol.check(c)
                self.stats.solver_calls += 1
                if r == z3.unknown:
                    raise Unsupported("solver returned unknown")
                if r == z3.sat:
                    s2 = st.fork()
                    s2.pc.extend(negs)
                    if not z3.is_true(c):
                        s2.pc.append(c)
                    rr = self._complete(s2, s2.frames[-1], dest, ret_bb, v, callee)
                    work.append(_Done(rr) if rr is not None else s2)
                else:
                    self.stats.pruned += 1
                nc = z3.Not(c)
                sol.add(nc)
                negs.append(nc)
            self.stats.solver_time += time.time() - t0
            return SPLIT
        if isinstance(out, Fork):
            live = []
            for alt in out.alts:
                c, v = alt[0], alt[1]
                c = z3.BoolVal(c) if isinstance(c, bool) else z3.simplify(c)
                if z3.is_false(c):
                    continue
                if z3.is_true(c) or (not self.eager) or self.feasible(st.pc, c):
                    live.append((c, v, alt[2] if len(alt) > 2 else None))
                else:
                    self.stats.pruned += 1
            for c, v, evn in live:
                s2 = st.fork()
                if evn is not None:
                    s2.events.append(evn)
                if not z3.is_true(c):
                    s2.pc.append(c)
                r = self._complete(s2, s2.frames[-1], dest, ret_bb, v, callee)
                work.append(_Done(r) if r is not None else s2)
            return SPLIT
        return self._complete(st, fr, dest, ret_bb, out, callee)

    def _complete(self, st, fr, dest, ret_bb, out, callee):
        if isinstance(out, Inline):     # an alternative of a Fork that continues in a function body (e.g. `opt.map_or(d, closure)` on an opaque option)
            return self.push_frame(st, fr, out.fn, out.args, dest, ret_bb, getattr(out, "wrap", None))
        if isinstance(out, _InsertAt):
            v = _deref_arg(self, st, out.r)
            st.events.append(("insert", (out.r.root, out.r.path), out.i, out.val))
            self.write_at(st, out.r.root, list(out.r.path), Arr(v.items[:out.i] + (out.val,) + v.items[out.i:], v.kind))
            out = UNIT
        if isinstance(out, _SetPlace):
            self.write_at(st, out.r.root, list(out.r.path), out.value)
            out = out.result
        if isinstance(out, Panic):
            return self.end(st, "panic", info=out.info)
        if ret_bb is None:
            return self.end(st, "diverge", info=("call without return edge", callee))
        if dest is not None:
            self.write_place(st, fr, dest, out)
        if not self.enter(st, fr, ret_bb):
            return self.end(st, "loop_bound", info=(fr.fn.name, ret_bb))
        return None


SPLIT = object()


class _Done(State):
    """A finished result parked on the work list."""

    def __init__(self, result):
        State.__init__(self)
        self.result = result


class Panic:
    def __init__(self, info):
        self.info = info


class Fork:
    def __init__(self, alts):
        self.alts = alts


class FirstMatch:
    """alts: [(cond_i, value_i)] + default: the value of the first i whose condition holds, else `default`.
    Feasibility of each alternative is decided incrementally (one solver, conditions negated as we go)."""

    def __init__(self, alts, default):
        self.alts, self.default = alts, default


class Inline:
    def __init__(self, fn, args, wrap=None):
        self.fn, self.args, self.wrap = fn, args, wrap


def elem_type(ty):
    ty = ty.strip()
    ty = re.sub(r"^&('\w+ )?(mut )?", "", ty)
    if ty.startswith("["):
        inner = ty[1:-1]
        parts = split_top(inner, ";")
        return parts[0].strip()
    ga = generic_args(ty)
    if ga:
        return ga[0]
    raise Unsupported("element type of %r" % ty)


def _unescape(s):
    return bytes(s, "utf-8").decode("unicode_escape") if "\\" in s else s


# patch run_state to understand parked results
_orig_run_state = Engine.run_state


def _run_state(self, st0):
    results = []
    work = [st0]
    while work:
        st = work.pop()
        if isinstance(st, _Done):
            results.append(st.result)
            self.stats.paths += 1
            continue
        r = self.run_path(st, work)
        if r is not None:
            results.append(r)
            self.stats.paths += 1
            if self.stats.paths > self.max_paths:
                raise Unsupported("path budget exceeded")
    return results


Engine.run_state = _run_state


# ---------------------------------------------------------------- builtin models
def _opt(engine, ty, some, val=None):
    return Adt("Option", "Some" if some else "None", [val] if some else [])


def _deref_arg(engine, st, a):
    """Value behind a reference argument."""
    if isinstance(a, Ref):
        if isinstance(a.root, tuple) and a.root and a.root[0] == "const":
            return engine._read_const(a)
        return engine.read_at(st, a.root, a.path)
    return a


def _discr_fork(engine, st, v, names):
    """For an enum value (Adt or Sym) return [(cond, variant_name)] over `names` (std enum)."""
    if isinstance(v, Adt):
        return [(True, v.variant)]
    if isinstance(v, Sym):
        e = engine.reg.lookup(v.ty)
        d = engine.discriminant(v, v.ty, "isize")
        return [(d == z3.BitVecVal(e["by_name"][n], d.size()), n) for n in names]
    raise Unsupported("enum value %r" % (v,))


def _payload(engine, v, variant, i=0, ty=None):
    if isinstance(v, Adt):
        return v.fields[i]
    if isinstance(v, Sym):
        if ty is None:
            ga = generic_args(v.ty)
            idx = {"Some": 0, "Ok": 0, "Err": 1, "Continue": 1, "Break": 0}.get(variant, 0)
            ty = ga[idx] if idx < len(ga) else (ga[0] if ga else "?")
        return engine._child(v, ("field", i, ty, variant))
    raise Unsupported("payload of %r" % (v,))


def m_option_is(some):
    def h(engine, st, fr, callee, args, ops):
        v = _deref_arg(engine, st, args[0])
        alts = []
        for c, n in _discr_fork(engine, st, v, ["None", "Some"]):
            alts.append((c, z3.BoolVal((n == "Some") == some)))
        return alts[0][1] if len(alts) == 1 and alts[0][0] is True else Fork(alts)
    return h


def m_option_unwrap(engine, st, fr, callee, args, ops):
    v = args[0]
    alts = []
    for c, n in _discr_fork(engine, st, v, ["None", "Some"]):
        if n == "Some":
            alts.append((c, _payload(engine, v, "Some")))
        else:
            alts.append((c, Panic(("unwrap/expect on None", fr.fn.name, fr.bb))))
    return alts[0][1] if len(alts) == 1 and alts[0][0] is True else Fork(alts)


def m_option_as_mut(engine, st, fr, callee, args, ops):
    r = args[0]
    v = _deref_arg(engine, st, r)
    alts = []
    for c, n in _discr_fork(engine, st, v, ["None", "Some"]):
        if n == "Some":
            alts.append((c, Adt("Option", "Some", [Ref(r.root, r.path + (("field", 0, generic_args(callee)[0] if generic_args(callee) else "?", "Some"),), r.mut)])))
        else:
            alts.append((c, Adt("Option", "None", [])))
    return alts[0][1] if len(alts) == 1 and alts[0][0] is True else Fork(alts)


def m_option_take(engine, st, fr, callee, args, ops):
    r = args[0]
    v = _deref_arg(engine, st, r)
    engine.write_at(st, r.root, list(r.path), Adt("Option", "None", []))
    return v


def m_box_new(engine, st, fr, callee, args, ops):
    return BoxV(args[0])


def m_vec_new(engine, st, fr, callee, args, ops):
    return Arr([], "vec")


def m_vec_push(engine, st, fr, callee, args, ops):
    r = args[0]
    v = _deref_arg(engine, st, r)
    st.events.append(("push", (r.root, r.path), args[1]))
    if isinstance(v, Arr):
        engine.write_at(st, r.root, list(r.path), Arr(v.items + (args[1],), v.kind))
    elif isinstance(v, Sym):
        # opaque vector: keep an append log in the override map
        log = v.over.get(("pushed",), ())
        over = dict(v.over)
        over[("pushed",)] = log + (args[1],)
        engine.write_at(st, r.root, list(r.path), Sym(v.name, v.ty, over))
    else:
        raise Unsupported("push on %r" % (v,))
    return UNIT


def m_identity(engine, st, fr, callee, args, ops):
    return args[0]


def m_try_branch(engine, st, fr, callee, args, ops):
    v = args[0]
    alts = []
    if callee.startswith("<Option<") or callee.startswith("<std::option::Option<"):
        for c, n in _discr_fork(engine, st, v, ["None", "Some"]):
            if n == "Some":
                alts.append((c, Adt("ControlFlow", "Continue", [_payload(engine, v, "Some")])))
            else:
                alts.append((c, Adt("ControlFlow", "Break", [Adt("Option", "None", [])])))
        return alts[0][1] if len(alts) == 1 and alts[0][0] is True else Fork(alts)
    for c, n in _discr_fork(engine, st, v, ["Ok", "Err"]):
        if n == "Ok":
            alts.append((c, Adt("ControlFlow", "Continue", [_payload(engine, v, "Ok")])))
        else:
            alts.append((c, Adt("ControlFlow", "Break", [Adt("Result", "Err", [_payload(engine, v, "Err")])])))
    return alts[0][1] if len(alts) == 1 and alts[0][0] is True else Fork(alts)


def m_from_residual(engine, st, fr, callee, args, ops):
    v = args[0]
    if callee.startswith("<Option<") or callee.startswith("<std::option::Option<"):
        return Adt("Option", "None", [])
    if isinstance(v, Adt) and v.variant == "Err":
        inner = v.fields[0]
        # `From::from` on the error is identity for same-typed errors; conversions are modelled by the caller
        m = re.search(r"<.*Result<.*, ([\w:]+)> as FromResidual<.*Result<.*Infallible, ([\w:]+)>>>", callee)
        if m and m.group(1).strip() != m.group(2).strip():
            conv = getattr(engine, "from_conversions", {}).get((m.group(2).strip(), m.group(1).strip()))
            if conv is None:
                raise Unsupported("error conversion %s -> %s in %s" % (m.group(2), m.group(1), callee))
            inner = conv(inner)
        return Adt("Result", "Err", [inner])
    raise Unsupported("from_residual of %r" % (v,))


def m_panic(engine, st, fr, callee, args, ops):
    return Panic((callee.split("(")[0], fr.fn.name, fr.bb))


def m_partial_eq(engine, st, fr, callee, args, ops):
    """derive(PartialEq) on a field-less enum / primitive: equality of the (discriminant) values."""
    a = _deref_arg(engine, st, args[0])
    b = _deref_arg(engine, st, args[1])
    if isinstance(a, Ref) or isinstance(b, Ref):
        a, b = _deref_arg(engine, st, a), _deref_arg(engine, st, b)
    if (z3.is_bv(a) and z3.is_bv(b)) or (z3.is_bool(a) and z3.is_bool(b)):
        r = a == b
        return z3.simplify(z3.Not(r) if callee.endswith("::ne") else r)
    r = struct_eq(engine, st, a, b)
    return z3.simplify(z3.Not(r) if callee.endswith("::ne") else r)


def _concrete_index(v):
    v = z3.simplify(v)
    return v.as_long() if z3.is_bv_value(v) else None


def m_vec_index(engine, st, fr, callee, args, ops):
    r, idx = args[0], args[1]
    v = _deref_arg(engine, st, r)
    if not isinstance(v, Arr):
        raise Unsupported("index into %r" % (v,))
    i = _concrete_index(idx)
    n = len(v.items)
    if i is not None:
        if i < n:
            return Ref(r.root, r.path + (("index_c", i),), r.mut)
        return Panic(("index out of bounds", "len %d index %d" % (n, i), fr.fn.name, fr.bb))
    alts = [(idx == z3.BitVecVal(k, idx.size()), Ref(r.root, r.path + (("index_c", k),), r.mut)) for k in range(n)]
    alts.append((z3.UGE(idx, z3.BitVecVal(n, idx.size())), Panic(("index out of bounds", "len %d" % n, fr.fn.name, fr.bb))))
    return Fork(alts)


def m_vec_len(engine, st, fr, callee, args, ops):
    return engine.len_of(st, args[0])


def m_vec_is_empty(engine, st, fr, callee, args, ops):
    return z3.simplify(engine.len_of(st, args[0]) == 0)


def m_vec_insert(engine, st, fr, callee, args, ops):
    r, idx, val = args
    v = _deref_arg(engine, st, r)
    if not isinstance(v, Arr):
        raise Unsupported("insert into %r" % (v,))
    n = len(v.items)

    def do(i):
        return ("insert_at", i)
    i = _concrete_index(idx)
    if i is None:
        alts = []
        for k in range(n + 1):
            alts.append((idx == z3.BitVecVal(k, idx.size()), _InsertAt(r, k, val)))
        alts.append((z3.UGT(idx, z3.BitVecVal(n, idx.size())), Panic(("insertion index out of bounds", "len %d" % n, fr.fn.name, fr.bb))))
        return Fork(alts)
    if i > n:
        return Panic(("insertion index out of bounds", "len %d index %d" % (n, i), fr.fn.name, fr.bb))
    st.events.append(("insert", (r.root, r.path), i, val))
    engine.write_at(st, r.root, list(r.path), Arr(v.items[:i] + (val,) + v.items[i:], v.kind))
    return UNIT


class _InsertAt:
    """Deferred effect of a forked Vec::insert (applied when the alternative is taken)."""

    def __init__(self, r, i, val):
        self.r, self.i, self.val = r, i, val


def m_vec_pop(engine, st, fr, callee, args, ops):
    r = args[0]
    v = _deref_arg(engine, st, r)
    if not isinstance(v, Arr):
        raise Unsupported("pop from %r" % (v,))
    if not v.items:
        return Adt("Option", "None", [])
    st.events.append(("pop", (r.root, r.path)))
    engine.write_at(st, r.root, list(r.path), Arr(v.items[:-1], v.kind))
    return Adt("Option", "Some", [v.items[-1]])


def m_option_ok_or(engine, st, fr, callee, args, ops):
    v = args[0]
    alts = []
    for c, n in _discr_fork(engine, st, v, ["None", "Some"]):
        alts.append((c, Adt("Result", "Ok", [_payload(engine, v, "Some")]) if n == "Some" else Adt("Result", "Err", [args[1]])))
    return alts[0][1] if len(alts) == 1 and alts[0][0] is True else Fork(alts)


def m_result_expect(engine, st, fr, callee, args, ops):
    v = args[0]
    alts = []
    for c, n in _discr_fork(engine, st, v, ["Ok", "Err"]):
        alts.append((c, _payload(engine, v, "Ok") if n == "Ok" else Panic(("expect/unwrap on Err", fr.fn.name, fr.bb))))
    return alts[0][1] if len(alts) == 1 and alts[0][0] is True else Fork(alts)


def m_option_map(engine, st, fr, callee, args, ops):
    v, clo = args
    if isinstance(v, Adt) and v.variant == "None":
        return v
    if isinstance(v, Adt) and v.variant == "Some":
        fn = engine.resolve_fn(clo.name)
        return Inline(fn, [clo, v.fields[0]], wrap=lambda rv: Adt("Option", "Some", [rv]))
    raise Unsupported("Option::map on %r" % (v,))


def m_option_unwrap_or_else(engine, st, fr, callee, args, ops):
    v, clo = args
    if isinstance(v, Adt):
        if v.variant == "Some":
            return v.fields[0]
        return Inline(engine.resolve_fn(clo.name), [clo])
    if isinstance(v, Sym):
        raise Unsupported("unwrap_or_else on a symbolic Option: enumerate it in the harness")
    raise Unsupported("unwrap_or_else on %r" % (v,))


def m_new_uninit(engine, st, fr, callee, args, ops):
    cell = ("h", engine.fresh_name("veclit"))
    st.mem[cell] = Adt("Transparent", None, [])
    return Adt("VecLit", None, [Ref(cell, (), True)])


def m_assume_init_into_vec(engine, st, fr, callee, args, ops):
    v = args[0]
    if not (isinstance(v, Adt) and v.ty == "VecLit"):
        raise Unsupported("box_assume_init_into_vec_unsafe of %r" % (v,))
    arr = engine.read_at(st, v.fields[0].root, v.fields[0].path)
    if not isinstance(arr, Arr):
        raise Unsupported("vec! literal was not initialised: %r" % (arr,))
    return Arr(arr.items, "vec")


def m_vec_into_iter(engine, st, fr, callee, args, ops):
    return Adt("SliceIterC", None, [args[0], z3.BitVecVal(0, 64)])


def m_slice_iter_next(engine, st, fr, callee, args, ops):
    r = args[0]
    it = _deref_arg(engine, st, r)
    if isinstance(it, Adt) and it.ty == "CIter":
        items = it.fields[0].items
        if not items:
            return Adt("Option", "None", [])
        engine.write_at(st, r.root, list(r.path), Adt("CIter", None, [Arr(items[1:])]))
        return Adt("Option", "Some", [items[0]])
    if not (isinstance(it, Adt) and it.ty == "SliceIterC"):
        raise Unsupported("next on %r" % (it,))
    src, pos = it.fields
    arr = _deref_arg(engine, st, src)
    if isinstance(arr, Adt) and arr.ty == "Slice":
        src = arr.fields[0]
        arr = _deref_arg(engine, st, src)
    if not isinstance(arr, Arr):
        raise Unsupported("iteration over %r" % (arr,))
    i = pos.as_long()
    if i >= len(arr.items):
        return Adt("Option", "None", [])
    engine.write_at(st, r.root, list(r.path), Adt("SliceIterC", None, [src, z3.BitVecVal(i + 1, 64)]))
    return Adt("Option", "Some", [Ref(src.root, src.path + (("index_c", i),))])


def struct_eq(engine, st, a, b):
    """Structural equality (derive(PartialEq)) of two values as a z3 Bool."""
    if isinstance(a, Ref):
        a = _deref_arg(engine, st, a)
    if isinstance(b, Ref):
        b = _deref_arg(engine, st, b)
    if (z3.is_bv(a) and z3.is_bv(b)) or (z3.is_bool(a) and z3.is_bool(b)):
        return a == b
    if isinstance(a, Unit) and isinstance(b, Unit):
        return z3.BoolVal(True)
    if isinstance(a, StrV) and isinstance(b, StrV):
        return z3.BoolVal(a.s == b.s)
    if isinstance(a, Arr) and isinstance(b, Arr):
        if len(a.items) != len(b.items):
            return z3.BoolVal(False)
        return z3.And(*[struct_eq(engine, st, x, y) for x, y in zip(a.items, b.items)]) if a.items else z3.BoolVal(True)
    if isinstance(a, Adt) and isinstance(b, Adt):
        if a.variant != b.variant or len(a.fields) != len(b.fields):
            return z3.BoolVal(False)
        return z3.And(*[struct_eq(engine, st, x, y) for x, y in zip(a.fields, b.fields)]) if a.fields else z3.BoolVal(True)
    if isinstance(a, Sym) and isinstance(b, Sym) and a.name == b.name and not a.over and not b.over:
        return z3.BoolVal(True)
    if isinstance(a, Sym) and isinstance(b, Sym) and not a.over and not b.over:
        # opaque values: an uninterpreted equality atom (same atom for the same pair)
        return z3.Bool("eq(%s,%s)" % tuple(sorted([a.name, b.name])))
    if isinstance(a, FnV) and isinstance(b, FnV):
        return z3.BoolVal(a.name == b.name)
    if isinstance(a, Adt) and isinstance(b, Sym):
        a, b = b, a
    if isinstance(a, Sym) and isinstance(b, Adt) and b.variant is not None and not a.over:
        # an opaque enum value against a concrete variant: same discriminant and equal payloads
        e = engine.reg.lookup(b.ty) or engine.reg.lookup(a.ty)
        if e is None or b.variant not in e["by_name"]:
            raise Unsupported("structural equality of %r and %r" % (a, b))
        d = engine.discriminant(a, a.ty, "isize")
        terms = [d == z3.BitVecVal(e["by_name"][b.variant], d.size())]
        for i, fb in enumerate(b.fields):
            if z3.is_bv(fb):
                fty = "u%d" % fb.size()
            elif z3.is_bool(fb):
                fty = "bool"
            else:
                raise Unsupported("structural equality of %r and %r (payload %d)" % (a, b, i))
            terms.append(struct_eq(engine, st, engine._child(a, ("field", i, fty, b.variant)), fb))
        return z3.And(*terms)
    raise Unsupported("structural equality of %r and %r" % (a, b))


def m_struct_eq(engine, st, fr, callee, args, ops):
    r = struct_eq(engine, st, args[0], args[1])
    return z3.simplify(z3.Not(r) if callee.endswith("::ne") else r)


_ARITH_RE = r"^<&?(u8|u16|u32|u64|u128|usize|i8|i16|i32|i64|i128|isize) as (std::ops::)?(Add|Sub|Mul|Shl|Shr|BitAnd|BitOr|BitXor)(<&?\w+>)?>::(add|sub|mul|shl|shr|bitand|bitor|bitxor)$"


def m_arith_forward(engine, st, fr, callee, args, ops):
    """`a op &b`, `&a op b`, ...: core's reference-forwarding operator impls (`#[rustc_inherit_overflow_checks]`): the primitive
    operation with the overflow / shift-range panic of the calling crate's setting (overflow checks are on in the MIR we read)."""
    m = re.match(_ARITH_RE, callee)
    ty, meth = m.group(1), m.group(5)
    a, b = args
    while isinstance(a, Ref):
        a = _deref_arg(engine, st, a)
    while isinstance(b, Ref):
        b = _deref_arg(engine, st, b)
    if not (z3.is_bv(a) and z3.is_bv(b)):
        raise Unsupported("%s on %r, %r" % (callee, a, b))
    if meth in ("add", "sub", "mul"):
        t = engine.binop({"add": "AddWithOverflow", "sub": "SubWithOverflow", "mul": "MulWithOverflow"}[meth], a, b, ty)
        r, ovf = t.fields
        return Fork([(z3.simplify(z3.Not(ovf)), r), (ovf, Panic(("attempt to %s with overflow" % {"add": "add", "sub": "subtract", "mul": "multiply"}[meth], fr.fn.name, fr.bb)))])
    if meth in ("shl", "shr"):
        w = a.size()
        bb = z3.ZeroExt(w - b.size(), b) if b.size() < w else (z3.Extract(w - 1, 0, b) if b.size() > w else b)
        inrange = z3.ULT(b, z3.BitVecVal(w, b.size()))
        r = engine.binop("Shl" if meth == "shl" else "Shr", a, bb, ty)
        return Fork([(z3.simplify(inrange), r), (z3.simplify(z3.Not(inrange)), Panic(("attempt to shift with overflow", fr.fn.name, fr.bb)))])
    return engine.binop({"bitand": "BitAnd", "bitor": "BitOr", "bitxor": "BitXor"}[meth], a, b, ty)


_INT_FROM_RE = r"^<(u8|u16|u32|u64|u128|usize|i16|i32|i64|i128|isize) as (std::convert::)?From<(u8|u16|u32|u64|i8|i16|i32|i64|bool)>>::from$"


def m_int_from(engine, st, fr, callee, args, ops):
    """Lossless integer widening `uN::from(x)` / `iN::from(x)` (core's From impls exist only for lossless pairs)."""
    m = re.match(_INT_FROM_RE, callee)
    dst, src = m.group(1), m.group(3)
    a = args[0]
    w = INT_TYPES[dst][0]
    if src == "bool":
        return z3.If(a, z3.BitVecVal(1, w), z3.BitVecVal(0, w))
    if not z3.is_bv(a):
        raise Unsupported("%s of %r" % (callee, a))
    if a.size() == w:
        return a
    return z3.simplify(z3.SignExt(w - a.size(), a) if INT_TYPES[src][1] else z3.ZeroExt(w - a.size(), a))


_ORD_RE = r"^(<(u8|u16|u32|u64|u128|usize|i8|i16|i32|i64|i128|isize) as Ord>::|std::cmp::|core::cmp::)(min|max)(::<(\w+)>)?$"


def m_ord_minmax(engine, st, fr, callee, args, ops):
    m = re.match(_ORD_RE, callee)
    ty = m.group(2) or m.group(5)
    if ty not in INT_TYPES:
        raise Unsupported("%s on a non-integer type" % callee)
    a, b = args
    lt = (a < b) if INT_TYPES[ty][1] else z3.ULT(a, b)
    return z3.simplify(z3.If(lt, a, b) if m.group(3) == "min" else z3.If(lt, b, a))


def m_range_contains(engine, st, fr, callee, args, ops):
    """`(a..b).contains(&x)` / `(a..=b).contains(&x)` on primitive integers"""
    rng = _deref_arg(engine, st, args[0])
    x = args[1]
    while isinstance(x, Ref):
        x = _deref_arg(engine, st, x)
    if not (isinstance(rng, Adt) and len(rng.fields) >= 2 and z3.is_bv(x)):
        raise Unsupported("%s on %r" % (callee, rng))
    lo, hi = rng.fields[0], rng.fields[1]
    m = re.search(r"Range(Inclusive)?::<(\w+)>::contains", callee)
    signed = INT_TYPES.get(m.group(2), (0, False))[1] if m else False
    le = (lambda p, q_: p <= q_) if signed else z3.ULE
    lt = (lambda p, q_: p < q_) if signed else z3.ULT
    if m and m.group(1):
        return z3.simplify(z3.And(le(lo, x), le(x, hi)))
    return z3.simplify(z3.And(le(lo, x), lt(x, hi)))


def m_vec_deref_mut(engine, st, fr, callee, args, ops):
    return Adt("Slice", None, [args[0]])


def m_slice_last_mut(engine, st, fr, callee, args, ops):
    a = args[0]
    v = _deref_arg(engine, st, a)
    if isinstance(v, Adt) and v.ty == "Slice":
        a = v.fields[0]
        v = _deref_arg(engine, st, a)
    if isinstance(v, Sym) and isinstance(a, Ref):
        n = engine.len_of(st, a)
        k = 0 if callee.endswith("first_mut") or callee.endswith("::first") else -1
        return Fork([(n == 0, Adt("Option", "None", [])), (n != 0, Adt("Option", "Some", [Ref(a.root, a.path + (("index_c", k),), True)]))])
    if not isinstance(v, Arr):
        raise Unsupported("%s on %r" % (callee, v))
    if not v.items:
        return Adt("Option", "None", [])
    i = 0 if callee.endswith("first_mut") or callee.endswith("::first") else len(v.items) - 1
    return Adt("Option", "Some", [Ref(a.root, a.path + (("index_c", i),), True)])


def m_result_map_err(engine, st, fr, callee, args, ops):
    v, clo = args
    if isinstance(v, Adt) and v.variant == "Ok":
        return v
    if isinstance(v, Adt) and v.variant == "Err":
        if isinstance(clo, Adt) and clo.variant is not None and not clo.fields:
            return Adt("Result", "Err", [Adt(clo.ty, clo.variant, [v.fields[0]])])
        if isinstance(clo, FnV) and "{closure" not in clo.name:
            ty, var, e = engine.enum_variant_value(clo.name)
            if var is not None:
                return Adt("Result", "Err", [Adt(ty, var, [v.fields[0]])])
        return Inline(engine.resolve_fn(clo.name), [clo, v.fields[0]], wrap=lambda rv: Adt("Result", "Err", [rv]))
    if isinstance(v, Sym):
        raise Unsupported("map_err on a symbolic Result: enumerate it in the harness")
    raise Unsupported("map_err on %r" % (v,))


def m_vec_dedup(engine, st, fr, callee, args, ops):
    """`Vec::dedup`: adjacent equal elements collapse (forks on each adjacent equality when it is not decided)."""
    r = args[0]
    v = _deref_arg(engine, st, r)
    if not isinstance(v, Arr):
        raise Unsupported("dedup of %r" % (v,))
    items = list(v.items)
    if len(items) > 6:
        raise Unsupported("dedup of more than 6 elements")
    # enumerate which adjacent pairs are equal
    alts = []
    n = len(items)
    import itertools
    for pattern in itertools.product([False, True], repeat=max(n - 1, 0)):
        conds = []
        kept = items[:1]
        for i, eq in enumerate(pattern):
            c = struct_eq(engine, st, kept[-1] if False else items[i], items[i + 1])
            conds.append(c if eq else z3.Not(c))
            if not eq:
                kept.append(items[i + 1])
        cond = z3.simplify(z3.And(*conds)) if conds else True
        if cond is not True and z3.is_false(cond):
            continue
        alts.append((cond, _SetPlace(r, Arr(kept, v.kind))))
    return alts[0][1] if len(alts) == 1 and alts[0][0] is True else Fork(alts)


class _SetPlace:
    """Deferred write of a place (applied when a Fork alternative is taken); evaluates to `result` (default ())."""

    def __init__(self, r, value, result=None):
        self.r, self.value, self.result = r, value, (UNIT if result is None else result)


BUILTIN_MODELS = [
    (r"^(std::ops::|core::ops::)?Range(Inclusive)?::<\w+>::contains::<", m_range_contains),
    (r"^<Vec<.*> as DerefMut>::deref_mut$", m_vec_deref_mut),
    (r"^core::slice::<impl \[.*\]>::(last_mut|first_mut)$", m_slice_last_mut),
    (r"^Vec::<.*>::(last_mut|first_mut)$", m_slice_last_mut),
    (r"^(std::result::)?Result::<.*>::map_err::<", m_result_map_err),
    (r"^Vec::<.*>::dedup$", m_vec_dedup),
    (_ORD_RE, m_ord_minmax),
    (_INT_FROM_RE, m_int_from),
    (_ARITH_RE, m_arith_forward),
    (r"^<Vec<.*> as (std::ops::)?Index(Mut)?<usize>>::index(_mut)?$", m_vec_index),
    (r"^Vec::<.*>::len$", m_vec_len),
    (r"^Vec::<.*>::is_empty$", m_vec_is_empty),
    (r"^Vec::<.*>::insert$", m_vec_insert),
    (r"^Vec::<.*>::pop$", m_vec_pop),
    (r"^Option::<.*>::ok_or::<", m_option_ok_or),
    (r"^(std::result::)?Result::<.*>::(expect|unwrap)$", m_result_expect),
    (r"^Option::<.*>::map::<", m_option_map),
    (r"^Option::<.*>::unwrap_or_else::<", m_option_unwrap_or_else),
    (r"^Box::<\[.*; \d+\]>::new_uninit$", m_new_uninit),
    (r"box_assume_init_into_vec_unsafe::<", m_assume_init_into_vec),
    (r"^<&Vec<.*> as IntoIterator>::into_iter$", m_vec_into_iter),
    (r"^<std::slice::Iter<'_, .*> as Iterator>::next$", m_slice_iter_next),
    (r"^<Vec<.*> as PartialEq(<.*>)?>::(eq|ne)$", m_struct_eq),
    (r"^<.* as PartialEq(<.*>)?>::(eq|ne)$", m_partial_eq),
    (r"^Option::<.*>::is_some$", m_option_is(True)),
    (r"^Option::<.*>::is_none$", m_option_is(False)),
    (r"^Option::<.*>::(unwrap|expect)$", m_option_unwrap),
    (r"^Option::<.*>::as_mut$", m_option_as_mut),
    (r"^Option::<.*>::as_ref$", m_option_as_mut),
    (r"^Option::<.*>::take$", m_option_take),
    (r"^Box::<.*>::new$", m_box_new),
    (r"^Vec::<.*>::new$", m_vec_new),
    (r"^Vec::<.*>::with_capacity$", m_vec_new),
    (r"^Vec::<.*>::push$", m_vec_push),
    (r"as Try>::branch$", m_try_branch),
    (r"as FromResidual<.*>>::from_residual$", m_from_residual),
    (r"(^|::)(panic|panic_fmt|panic_explicit|unwrap_failed|expect_failed|assert_failed|panic_bounds_check|"
     r"panic_const_\w+|unreachable_display|begin_panic)(::<.*>)?$", m_panic),
]
