"""Solver bookkeeping: every property query goes through `Q.check`, which counts it into the
run's evidence, enforces a timeout and (for a sample of queries per template) re-decides the
same SMT-LIB2 text with cvc5 as a second opinion. A disagreement or an `unknown` is inconclusive."""
import os
import subprocess
import tempfile
import time
import z3


class Q:
    def __init__(self, ctx, timeout_ms=120000, cross_every=25):
        self.ctx = ctx
        self.timeout_ms = timeout_ms
        self.cross_every = cross_every
        self.templates = {}
        self.cross_checked = 0
        self.cross_disagree = 0

    def check(self, constraints, template="q"):
        """-> ('sat', model) | ('unsat', None) | ('unknown', reason)"""
        s = z3.Solver()
        s.set("timeout", self.timeout_ms)
        for c in constraints:
            s.add(c)
        t = time.time()
        r = s.check()
        dt = time.time() - t
        ctx = self.ctx
        ctx.queries += 1
        ctx.solver_time += dt
        n = self.templates.get(template, 0)
        self.templates[template] = n + 1
        if r == z3.sat:
            ctx.sat += 1
            res = ("sat", s.model())
        elif r == z3.unsat:
            ctx.unsat += 1
            res = ("unsat", None)
        else:
            return ("unknown", s.reason_unknown())
        if n % self.cross_every == 0:
            other = self.cvc5(s)
            if other is not None:
                self.cross_checked += 1
                if other != res[0]:
                    self.cross_disagree += 1
                    return ("unknown", "z3 says %s, cvc5 says %s" % (res[0], other))
        return res

    def cvc5(self, solver):
        txt = "(set-logic ALL)\n" + solver.to_smt2()
        with tempfile.NamedTemporaryFile("w", suffix=".smt2", delete=False) as f:
            f.write(txt)
            path = f.name
        try:
            p = subprocess.run(["cvc5", "--lang", "smt2", "--tlimit=20000", path], stdout=subprocess.PIPE,
                               stderr=subprocess.PIPE, text=True, timeout=40)
            out = p.stdout.strip().split("\n")[0] if p.stdout.strip() else ""
            if "(error" in p.stdout or "(error" in p.stderr:
                return None
            if out in ("sat", "unsat"):
                return out
            return None
        except Exception:
            return None
        finally:
            os.unlink(path)

    def summary(self):
        return {"templates": self.templates, "cvc5_cross_checked": self.cross_checked,
                "cvc5_disagreements": self.cross_disagree}
