"""Shared infrastructure of the /verif driver: work directory keyed by the content of /repo,
artifact builders (MIR dumps, replay runner), solver bookkeeping, evidence and findings."""
import fcntl
import hashlib
import json
import os
import shutil
import subprocess
import sys
import time

VERIF = os.path.dirname(os.path.dirname(os.path.abspath(__file__)))
REPO = os.environ.get("VERIF_REPO", "/repo")
WORK_ROOT = os.path.join(VERIF, ".work")
GUARD = "rspirv_verif"

EXIT_OK, EXIT_VIOLATION, EXIT_INCONCLUSIVE = 0, 1, 2


class Inconclusive(Exception):
    pass


def tree_hash():
    h = hashlib.sha256()
    files = []
    for root, dirs, fs in os.walk(REPO):
        dirs[:] = [d for d in dirs if d not in ("target", ".git", "spirv-blobs", "external")]
        for f in fs:
            if f.endswith((".rs", ".toml", ".lock")):
                files.append(os.path.join(root, f))
    for p in sorted(files):
        h.update(p.encode())
        with open(p, "rb") as fh:
            h.update(hashlib.sha256(fh.read()).digest())
    # the machinery itself is part of the key for generated artifacts that embed it
    return h.hexdigest()[:16]


_workdir = None


def workdir():
    """/verif/.work/<tree hash>; directories of other hashes are removed (bounded disk use)."""
    global _workdir
    if _workdir:
        return _workdir
    os.makedirs(WORK_ROOT, exist_ok=True)
    th = tree_hash()
    wd = os.path.join(WORK_ROOT, th)
    lock = open(os.path.join(WORK_ROOT, ".lock"), "w")
    fcntl.flock(lock, fcntl.LOCK_EX)
    try:
        # artifacts of other trees: keep the few most recent ones (seeded runs alternate between trees), drop the rest
        others = []
        for d in os.listdir(WORK_ROOT):
            p = os.path.join(WORK_ROOT, d)
            if os.path.isdir(p) and d != th and d not in ("shared", "probe"):
                others.append((os.path.getmtime(p), p))
        others.sort(reverse=True)
        now = time.time()
        for k, (mt, p) in enumerate(others):
            if k < 6 and now - mt < 3 * 3600:
                continue
            lk = os.path.join(p, ".inuse")
            try:
                with open(lk, "a") as f:
                    fcntl.flock(f, fcntl.LOCK_EX | fcntl.LOCK_NB)
                shutil.rmtree(p, ignore_errors=True)
            except OSError:
                pass
        os.makedirs(wd, exist_ok=True)
    finally:
        fcntl.flock(lock, fcntl.LOCK_UN)
    # shared lock held for the life of this process marks the directory as in use
    keep = open(os.path.join(wd, ".inuse"), "a")
    fcntl.flock(keep, fcntl.LOCK_SH)
    workdir._keep = keep
    _workdir = wd
    return wd


class FileLock:
    def __init__(self, path):
        self.path = path

    def __enter__(self):
        self.f = open(self.path, "w")
        fcntl.flock(self.f, fcntl.LOCK_EX)
        return self

    def __exit__(self, *a):
        fcntl.flock(self.f, fcntl.LOCK_UN)
        self.f.close()


def cargo_env(extra=None):
    env = dict(os.environ)
    env["CARGO_NET_OFFLINE"] = "true"
    env.pop("RUSTFLAGS", None)
    if extra:
        env.update(extra)
    return env


def repo_lockfile():
    """Path of the repository's Cargo.lock (git-ignored there: created by cargo on first use, so a fresh checkout has none)."""
    p = os.path.join(REPO, "Cargo.lock")
    if not os.path.exists(p):
        subprocess.run(["cargo", "generate-lockfile", "--offline"], cwd=REPO, env=cargo_env(), stdout=subprocess.PIPE, stderr=subprocess.PIPE)
    if not os.path.exists(p):
        raise Inconclusive("no Cargo.lock in %s and cargo generate-lockfile failed" % REPO)
    return p


def run(cmd, cwd=None, env=None, timeout=None, check=True, capture=True):
    t = time.time()
    p = subprocess.run(cmd, cwd=cwd, env=env, timeout=timeout, stdout=subprocess.PIPE if capture else None,
                       stderr=subprocess.PIPE if capture else None, text=True)
    if check and p.returncode != 0:
        raise Inconclusive("command failed (%d): %s\n%s\n%s" % (p.returncode, " ".join(cmd), (p.stdout or "")[-2000:],
                                                             (p.stderr or "")[-4000:]))
    return p, time.time() - t


# ------------------------------------------------------------------ MIR dumps
MIR_CRATES = {
    "spirv": ("spirv", ["--lib"]),
    "rspirv": ("rspirv", ["--lib"]),
    "dis": ("dis", ["--bin", "rspirv-dis"]),
}


def mir_path(crate):
    """Path of the MIR dump of `crate` for the current tree (built on demand, once per tree hash)."""
    wd = workdir()
    out = os.path.join(wd, "%s.mir" % crate)
    with FileLock(os.path.join(wd, ".mir-%s.lock" % crate)):
        if os.path.exists(out) and os.path.getsize(out) > 1000:
            return out
        sub, sel = MIR_CRATES[crate]
        tdir = os.path.join(wd, "mir-target")
        cmd = ["cargo", "+nightly", "rustc", "--offline"] + sel + ["--", "-Zunpretty=mir", "-C", "overflow-checks=on",
                                                                   "-C", "debug-assertions=off"]
        env = cargo_env({"CARGO_TARGET_DIR": tdir})
        tmp = out + ".tmp"
        with open(tmp, "w") as fh:
            p = subprocess.run(cmd, cwd=os.path.join(REPO, sub), env=env, stdout=fh, stderr=subprocess.PIPE, text=True)
        if p.returncode != 0 or os.path.getsize(tmp) < 1000:
            raise Inconclusive("MIR dump of %s failed:\n%s" % (crate, p.stderr[-3000:]))
        os.rename(tmp, out)
    return out


# ------------------------------------------------------------------ replay runner (R)
def replay_bin(profile="dev"):
    """Build /verif/replay against the current tree (hooks enabled) and return the binary path."""
    wd = workdir()
    tdir = os.path.join(wd, "replay-target")
    src0 = os.path.join(VERIF, "replay")
    src = os.path.join(wd, "replay-src")
    binp = os.path.join(tdir, "debug" if profile == "dev" else "release", "rspirv-replay")
    with FileLock(os.path.join(wd, ".replay-%s.lock" % profile)):
        stamp = os.path.join(wd, ".replay-%s.stamp" % profile)
        import kani as kanimod
        ksrc = kanimod.prepare()
        key0 = _dir_digest(src0) + _dir_digest(ksrc)
        if not (os.path.exists(os.path.join(src, ".stamp")) and open(os.path.join(src, ".stamp")).read() == key0):
            if os.path.exists(src):
                shutil.rmtree(src)
            shutil.copytree(src0, src, ignore=shutil.ignore_patterns("target", "Cargo.lock"))
            ct = open(os.path.join(src, "Cargo.toml")).read().replace("/verif/kani", ksrc).replace('"/repo/', '"%s/' % REPO)
            open(os.path.join(src, "Cargo.toml"), "w").write(ct)
            open(os.path.join(src, ".stamp"), "w").write(key0)
        _write_generated(os.path.join(src, "src", "generated.rs"))
        key = _dir_digest(src)
        if os.path.exists(binp) and os.path.exists(stamp) and open(stamp).read() == key:
            return binp
        shutil.copyfile(repo_lockfile(), os.path.join(src, "Cargo.lock"))
        cmd = ["cargo", "build", "--offline", "--manifest-path", os.path.join(src, "Cargo.toml")]
        if profile != "dev":
            cmd.append("--release")
        env = cargo_env({"CARGO_TARGET_DIR": tdir, "RUSTFLAGS": "--cfg %s" % GUARD})
        run(cmd, env=env)
        with open(stamp, "w") as f:
            f.write(key)
    return binp


def _write_generated(path):
    """Dispatch tables of the replay runner over the enum / mask names of the *current* tree."""
    import tables
    enums, masks = tables.spirv_decls()
    o = ["// generated by /verif/lib/common.py from the current /repo sources", "use std::str::FromStr;", ""]
    o.append("pub fn from_u32(name: &str, n: u32) -> String {\n    match name {")
    for e in sorted(enums):
        o.append('        "%s" => match spirv::%s::from_u32(n) { Some(v) => format!("{{\\"some\\": true, \\"val\\": {}, \\"debug\\": \\"{:?}\\"}}", v as u32, v), None => "{\\"some\\": false}".to_string() },' % (e, e))
    o.append('        _ => "{\\"error\\": \\"unknown enum\\"}".to_string(),\n    }\n}\n')
    o.append("pub fn from_str(name: &str, s: &str) -> String {\n    match name {")
    for e in sorted(enums):
        if enums[e]["from_str"] is not None:
            o.append('        "%s" => match spirv::%s::from_str(s) { Ok(v) => format!("{{\\"ok\\": true, \\"val\\": {}, \\"debug\\": \\"{:?}\\"}}", v as u32, v), Err(_) => "{\\"ok\\": false}".to_string() },' % (e, e))
    o.append('        _ => "{\\"error\\": \\"unknown enum\\"}".to_string(),\n    }\n}\n')
    o.append("pub fn from_bits(name: &str, n: u32) -> String {\n    match name {")
    for m in sorted(masks):
        o.append('        "%s" => match spirv::%s::from_bits(n) { Some(v) => format!("{{\\"some\\": true, \\"bits\\": {}, \\"all\\": {}}}", v.bits(), spirv::%s::all().bits()), None => format!("{{\\"some\\": false, \\"all\\": {}}}", spirv::%s::all().bits()) },' % (m, m, m, m))
    o.append('        _ => "{\\"error\\": \\"unknown mask\\"}".to_string(),\n    }\n}')
    # parameterised operand kinds: reflection and parser side on the compiled crate
    pk = [k for k, arm in tables.parse_operand_arms().items() if arm["args_fn"]]
    o.append("""
fn variant_name(op: &rspirv::dr::Operand) -> String {
    let d = format!("{:?}", op);
    d.split('(').next().unwrap_or("").to_string()
}

fn parsed_after(kind: rspirv::grammar::OperandKind, value: u32) -> String {
    use rspirv::grammar as g;
    let ops: &'static [g::LogicalOperand] = Box::leak(Box::new([g::LogicalOperand { kind, quantifier: g::OperandQuantifier::One }]));
    let entry: &'static g::Instruction<'static> = Box::leak(Box::new(g::Instruction {
        opname: "X", opcode: spirv::Op::Nop, capabilities: &[], extensions: &[], operands: ops }));
    let mut words: Vec<u32> = vec![value];
    for k in 0..24u32 { words.push(11 + k); }
    let bytes: Vec<u8> = words.iter().flat_map(|w| w.to_le_bytes().to_vec()).collect();
    let mut c = crate::consumer::Scripted::new(vec![]);
    let (r, _off, _lim) = rspirv::binary::verif::parse_operands(&bytes, &mut c, words.len(), entry);
    match r {
        Ok(inst) => format!("[{}]", inst.operands.iter().skip(1).map(|o| format!("\\"{}\\"", variant_name(o))).collect::<Vec<_>>().join(", ")),
        Err(e) => format!("[\\"error: {:?}\\"]", e).replace('\\\\', ""),
    }
}

/// like parsed_after, with the payloads: the Debug text of every delivered parameter (the words fed after the value are 11, 12, 13, ...)
pub fn parsed_after_debug(kind: rspirv::grammar::OperandKind, value: u32) -> String {
    use rspirv::grammar as g;
    let ops: &'static [g::LogicalOperand] = Box::leak(Box::new([g::LogicalOperand { kind, quantifier: g::OperandQuantifier::One }]));
    let entry: &'static g::Instruction<'static> = Box::leak(Box::new(g::Instruction {
        opname: "X", opcode: spirv::Op::Nop, capabilities: &[], extensions: &[], operands: ops }));
    let mut words: Vec<u32> = vec![value];
    for k in 0..24u32 { words.push(11 + k); }
    let bytes: Vec<u8> = words.iter().flat_map(|w| w.to_le_bytes().to_vec()).collect();
    let mut c = crate::consumer::Scripted::new(vec![]);
    let (r, _off, _lim) = rspirv::binary::verif::parse_operands(&bytes, &mut c, words.len(), entry);
    match r {
        Ok(inst) => format!("[{}]", inst.operands.iter().skip(1).map(|o| crate::ops::jstr(&format!("{:?}", o))).collect::<Vec<_>>().join(", ")),
        Err(_) => "[]".to_string(),
    }
}

/// parse ONE operand of the named kind from the given words with the real parser, then re-assemble what was delivered
pub fn parse_assemble_kind(kind: &str, w0: u32, w1: u32) -> String {
    use rspirv::binary::Assemble;
    use rspirv::grammar as g;
    let k = match kind {
__KIND_ARMS__
        _ => return "{\\"error\\": \\"unknown operand kind\\"}".to_string(),
    };
    let ops: &'static [g::LogicalOperand] = Box::leak(Box::new([g::LogicalOperand { kind: k, quantifier: g::OperandQuantifier::One }]));
    let entry: &'static g::Instruction<'static> = Box::leak(Box::new(g::Instruction {
        opname: "X", opcode: spirv::Op::Nop, capabilities: &[], extensions: &[], operands: ops }));
    for n in 1..=2usize {
        let words: Vec<u32> = [w0, w1][..n].to_vec();
        let bytes: Vec<u8> = words.iter().flat_map(|w| w.to_le_bytes().to_vec()).collect();
        let mut c = crate::consumer::Scripted::new(vec![]);
        let (r, _off, _lim) = rspirv::binary::verif::parse_operands(&bytes, &mut c, words.len(), entry);
        if let Ok(inst) = r {
            let mut out: Vec<u32> = vec![];
            for o in &inst.operands { o.assemble_into(&mut out); }
            return format!("{{\\"ok\\": true, \\"consumed\\": {}, \\"operands\\": {}, \\"words\\": [{}]}}", n,
                crate::ops::jstr(&format!("{:?}", inst.operands)), out.iter().map(|w| w.to_string()).collect::<Vec<_>>().join(", "));
        }
    }
    "{\\"ok\\": false}".to_string()
}

fn kinds_json(v: Vec<rspirv::grammar::LogicalOperand>) -> String {
    format!("[{}]", v.iter().map(|o| format!("\\"{:?}\\"", o.kind)).collect::<Vec<_>>().join(", "))
}
""")
    o.append("pub fn operand_params(kind: &str, n: u32) -> String {\n    use rspirv::dr::Operand;\n    match kind {")
    for k in sorted(pk):
        conv = "spirv::%s::from_bits(n)" % k if k in masks else "spirv::%s::from_u32(n)" % k
        o.append('        "%s" => match %s { Some(v) => format!("{{\\"additional\\": {}, \\"parsed\\": {}, \\"parsed_debug\\": {}}}", kinds_json(Operand::%s(v).additional_operands()), parsed_after(rspirv::grammar::OperandKind::%s, n), parsed_after_debug(rspirv::grammar::OperandKind::%s, n)), None => "{\\"error\\": \\"undeclared value\\"}".to_string() },' % (k, conv, k, k, k))
    o.append('        _ => "{\\"error\\": \\"unknown kind\\"}".to_string(),\n    }\n}\n')
    o.append("pub fn operand_requires(kind: &str, n: u32) -> String {\n    use rspirv::dr::Operand;\n    match kind {")
    for k in sorted(list(enums) + list(masks)):
        if k in ("Op", "GLOp", "CLOp", "DebugPrintFOp"):
            continue
        conv = "spirv::%s::from_bits(n)" % k if k in masks else "spirv::%s::from_u32(n)" % k
        o.append('        "%s" => match %s { Some(v) => { let op = Operand::%s(v); format!("{{\\"capabilities\\": [{}], \\"extensions\\": [{}]}}", op.required_capabilities().iter().map(|c| format!("\\"{:?}\\"", c)).collect::<Vec<_>>().join(", "), op.required_extensions().iter().map(|c| format!("\\"{}\\"", c)).collect::<Vec<_>>().join(", ")) } None => "{\\"error\\": \\"undeclared value\\"}".to_string() },' % (k, conv, k))
    o.append('        _ => "{\\"error\\": \\"unknown kind\\"}".to_string(),\n    }\n}')
    import genreplay
    o.append(genreplay.generate())
    # operand kinds of the grammar (for parse_assemble_kind)
    from rtok import read_enums
    kinds_ = [n for n, _d, _p in read_enums(tables.src("rspirv/grammar/autogen_table.rs"))["OperandKind"]["variants"]]
    arms_ = "\n".join('        "%s" => g::OperandKind::%s,' % (k, k) for k in kinds_)
    o = [x.replace("__KIND_ARMS__", arms_) for x in o]
    txt = "\n".join(o) + "\n"
    if not os.path.exists(path) or open(path).read() != txt:
        with open(path, "w") as f:
            f.write(txt)


def _dir_digest(d):
    h = hashlib.sha256()
    for root, dirs, fs in os.walk(d):
        dirs[:] = [x for x in dirs if x != "target"]
        for f in sorted(fs):
            if f == "Cargo.lock":
                continue
            with open(os.path.join(root, f), "rb") as fh:
                h.update(f.encode())
                h.update(fh.read())
    return h.hexdigest()


class Replay:
    """Line protocol with the replay runner: one request per line, one JSON answer per line."""

    def __init__(self, profile="dev"):
        self.bin = replay_bin(profile)
        self.p = subprocess.Popen([self.bin], stdin=subprocess.PIPE, stdout=subprocess.PIPE, stderr=subprocess.DEVNULL,
                                  text=True, bufsize=1)
        self.count = 0

    def ask(self, line):
        self.p.stdin.write(line + "\n")
        self.p.stdin.flush()
        out = self.p.stdout.readline()
        if not out:
            # the real code took the whole process down on this request (abort: allocation failure, stack overflow, double panic):
            # that is an answer about the real code, reported like a panic; the runner is restarted for the requests that follow
            try:
                code = self.p.wait(timeout=5)
            except Exception:
                code = None
            self.died = getattr(self, "died", 0) + 1
            if self.died > 20:
                raise Inconclusive("replay runner died repeatedly, last on request: %s" % line[:200])
            self.p = subprocess.Popen([self.bin], stdin=subprocess.PIPE, stdout=subprocess.PIPE, stderr=subprocess.DEVNULL, text=True, bufsize=1)
            self.count += 1
            return {"panic": "the process was aborted (exit status %s) while serving this request" % code, "at": "abort", "died": True}
        self.count += 1
        return json.loads(out)

    def close(self):
        try:
            self.p.stdin.close()
            self.p.wait(timeout=5)
        except Exception:
            self.p.kill()


# ------------------------------------------------------------------ findings / evidence
def load_known():
    p = os.path.join(VERIF, "known_findings.json")
    if not os.path.exists(p):
        return []
    with open(p) as f:
        return json.load(f)["findings"]


def composed(ctx, name, fn):
    """Run a leg borrowed from another property's check: when it cannot be encoded on this tree that is recorded as inconclusive and
    the caller's own legs still run (a violation they find takes precedence)."""
    import mir as _mir
    import sym as _sym
    try:
        return fn()
    except (_mir.Unsupported, _sym.Unsupported, Inconclusive) as ex:
        ctx.ob("composed/%s/encodable" % name, None, "%s: %s" % (type(ex).__name__, str(ex)[:300]))
        return None


class Ctx:
    """Per-run context of one property check."""

    def __init__(self, pid, tier, seed, level):
        self.pid, self.tier, self.seed, self.level = pid, tier, seed, level
        self.t0 = time.time()
        self.obligations = 0
        self.discharged = 0
        self.inconclusive = []
        self.violations = []     # (role, what, replay dict)
        self.known_hits = []
        self.samples = []
        self.assumptions = []
        self.trusted = []
        self.functions = set()
        self.solver_time = 0.0
        self.queries = 0
        self.sat = 0
        self.unsat = 0
        self.extra = {}
        self.validated = 0
        self.distinct = set()
        self.known = [k for k in load_known() if k.get("property") == pid]
        self.bounds = []

    # ---- obligations
    def ob(self, name, holds, detail=None, sample=False):
        """Record one solver obligation. holds: True (discharged) / False (violated, must be reported
        via violation()) / None (inconclusive)."""
        self.obligations += 1
        self.distinct.add(name)
        if holds is True:
            self.discharged += 1
        elif holds is None:
            self.inconclusive.append((name, detail))
        if sample or len(self.samples) < 6:
            if len(self.samples) < 40:
                self.samples.append({"obligation": name, "result": {True: "unsat (holds)", False: "sat (violated)", None: "inconclusive"}[holds],
                                     "detail": detail})

    def violation(self, role, what, replay=None):
        for k in self.known:
            if k.get("role") == role:
                if k.get("status") == "known":
                    self.known_hits.append((role, what))
                    return "known"
                # status == fixed: suppresses nothing
        self.violations.append((role, what, replay))
        return "new"

    def finish(self):
        wall = time.time() - self.t0
        seen_roles = set()
        for role, what in self.known_hits:
            if role in seen_roles:
                continue
            seen_roles.add(role)
            print("KNOWN-FINDING: property=%s %s -- %s" % (self.pid, role, what))
        OUT = os.environ.get("VERIF_OUT", VERIF)
        rdir = os.path.join(OUT, "replays", self.pid)
        vio_paths = []
        if self.violations:
            os.makedirs(rdir, exist_ok=True)
            for i, (role, what, replay) in enumerate(self.violations):
                p = os.path.join(rdir, "%d.json" % i)
                with open(p, "w") as f:
                    json.dump({"property": self.pid, "role": role, "what": what, "replay": replay}, f, indent=1, default=str)
                vio_paths.append(p)
        cov = {
            "obligations": self.obligations,
            "discharged": self.discharged,
            "evaluations": max(self.obligations, 1),
            "distinct_nontrivial": len(self.distinct),
            "rule": "one evaluation = one solver obligation (SMT query or CBMC harness); distinct = distinct obligation names",
            "samples": self.samples[:40] or [{"note": "no obligations ran"}],
            "explanation": self.extra.pop("explanation", ""),
            "checker_cmd": "./check %s --tier %s" % (self.pid, self.tier),
            "trusted_base": self.trusted,
            "functions_encoded": sorted(self.functions)[:400],
            "bounds": self.bounds,
            "solver_queries": self.queries,
            "solver_sat": self.sat,
            "solver_unsat": self.unsat,
            "solver_time_s": round(self.solver_time, 3),
            "traces_validated_against_impl": self.validated,
            "inconclusive": [str(x)[:300] for x in self.inconclusive][:20],
            "known_findings_hit": [r for r, _ in self.known_hits],
        }
        cov.update(self.extra)
        if self.level == "model_checking":
            cov.setdefault("states", max(self.obligations, 1))
            cov.setdefault("transitions", max(self.queries, 1))
        ev = {
            "property_id": self.pid, "tier": self.tier, "seed": self.seed, "level": self.level,
            "coverage": cov, "assumptions": self.assumptions, "wall_s": round(wall, 2),
            "violations": len(self.violations),
        }
        os.makedirs(os.path.join(OUT, "evidence"), exist_ok=True)
        with open(os.path.join(OUT, "evidence", "%s.json" % self.pid), "w") as f:
            json.dump(ev, f, indent=1, default=str)
        for (role, what, _), p in zip(self.violations, vio_paths):
            print("VIOLATION property=%s replay=%s" % (self.pid, p))
            print("  role=%s: %s" % (role, what))
        if self.violations:
            return EXIT_VIOLATION
        if self.inconclusive:
            for n, d in self.inconclusive[:10]:
                print("INCONCLUSIVE %s: %s" % (n, str(d)[:300]))
            return EXIT_INCONCLUSIVE
        print("OK property=%s tier=%s obligations=%d discharged=%d known_findings=%d wall=%.1fs" % (
            self.pid, self.tier, self.obligations, self.discharged, len(self.known_hits), wall))
        return EXIT_OK
