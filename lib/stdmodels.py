"""A wider vocabulary of std summaries for the MIR engine: integer helpers, Option / Result combinators, Vec / slice methods and
iterator adapters over concrete-length sequences. Each is the documented behaviour of the std item it names and nothing else;
`tools/test_models.py` runs a crate of small functions written with these idioms both natively and through the engine and compares
the answers (validation of the summaries against the real std).

Closures are always the REAL closures, executed from their MIR (`call_pure`); they must return on exactly one path per call."""
import re
import z3
import sym
import mir
import itermodels
from sym import Adt, Arr, Ref, Fork, Panic, Inline, UNIT, Unsupported, INT_TYPES

INTS = r"(u8|u16|u32|u64|u128|usize|i8|i16|i32|i64|i128|isize)"


def none():
    return Adt("Option", "None", [])


def some(v):
    return Adt("Option", "Some", [v])


def _deref(engine, st, v):
    while isinstance(v, Ref):
        v = sym._deref_arg(engine, st, v)
    return v


def _concrete_bool(c):
    c = z3.simplify(c) if z3.is_expr(c) else c
    if c is True or (z3.is_expr(c) and z3.is_true(c)):
        return True
    if c is False or (z3.is_expr(c) and z3.is_false(c)):
        return False
    return None


def _as_bool(v):
    return v if z3.is_bool(v) else (v != 0)


# ------------------------------------------------------------------ integers
def _ity(callee):
    m = re.search(r"<impl " + INTS + r">::(\w+)", callee)
    return m.group(1), m.group(2)


def m_int_method(engine, st, fr, callee, args, ops):
    ty, meth = _ity(callee)
    w, signed = INT_TYPES[ty]
    a = args[0]
    b = args[1] if len(args) > 1 else None
    if meth in ("wrapping_add", "wrapping_sub", "wrapping_mul"):
        return z3.simplify({"wrapping_add": a + b, "wrapping_sub": a - b, "wrapping_mul": a * b}[meth])
    if meth in ("checked_add", "checked_sub", "checked_mul"):
        t = engine.binop({"checked_add": "AddWithOverflow", "checked_sub": "SubWithOverflow", "checked_mul": "MulWithOverflow"}[meth], a, b, ty)
        r, ovf = t.fields
        ovf = z3.simplify(ovf)
        cb = _concrete_bool(ovf)
        if cb is True:
            return none()
        if cb is False:
            return some(r)
        return Fork([(z3.Not(ovf), some(r)), (ovf, none())])
    if meth in ("saturating_add", "saturating_sub") and not signed:
        if meth == "saturating_sub":
            return z3.simplify(z3.If(z3.ULT(a, b), z3.BitVecVal(0, w), a - b))
        s = a + b
        return z3.simplify(z3.If(z3.ULT(s, a), z3.BitVecVal((1 << w) - 1, w), s))
    if meth in ("min", "max"):
        lt = (a < b) if signed else z3.ULT(a, b)
        return z3.simplify(z3.If(lt, a, b) if meth == "min" else z3.If(lt, b, a))
    if meth in ("leading_zeros", "trailing_zeros", "count_ones"):
        bits = [z3.Extract(i, i, a) for i in range(w)]
        if meth == "count_ones":
            r = z3.BitVecVal(0, 32)
            for bt in bits:
                r = r + z3.ZeroExt(31, bt)
            return z3.simplify(r)
        r = z3.BitVecVal(w, 32)
        order = range(w) if meth == "leading_zeros" else range(w - 1, -1, -1)
        for i in order:           # the last assignment wins: scan towards the significant end
            r = z3.If(bits[i] == 1, z3.BitVecVal((w - 1 - i) if meth == "leading_zeros" else i, 32), r)
        return z3.simplify(r)
    if meth == "swap_bytes":
        return z3.simplify(z3.Concat(*[z3.Extract(8 * i + 7, 8 * i, a) for i in range(w // 8)]))
    if meth in ("rotate_left", "rotate_right"):
        n = z3.URem(z3.ZeroExt(w - b.size(), b) if b.size() < w else z3.Extract(w - 1, 0, b), z3.BitVecVal(w, w))
        return z3.simplify(z3.RotateLeft(a, n) if meth == "rotate_left" else z3.RotateRight(a, n))
    if meth in ("to_le_bytes", "to_be_bytes", "to_ne_bytes"):
        bs = [z3.simplify(z3.Extract(8 * i + 7, 8 * i, a)) for i in range(w // 8)]
        return Arr(bs if meth != "to_be_bytes" else bs[::-1])
    if meth in ("from_le_bytes", "from_be_bytes", "from_ne_bytes"):
        arr = _deref(engine, st, a)
        items = list(arr.items)
        if meth == "from_be_bytes":
            items = items[::-1]
        return z3.simplify(z3.Concat(*reversed(items)))
    if meth in ("checked_shl", "checked_shr"):
        inr = z3.simplify(z3.ULT(b, z3.BitVecVal(w, b.size())))
        bb = z3.ZeroExt(w - b.size(), b) if b.size() < w else z3.Extract(w - 1, 0, b)
        r = z3.simplify((a << bb) if meth == "checked_shl" else ((a >> bb) if signed else z3.LShR(a, bb)))
        cb = _concrete_bool(inr)
        if cb is True:
            return some(r)
        if cb is False:
            return none()
        return Fork([(inr, some(r)), (z3.Not(inr), none())])
    if meth == "is_power_of_two":
        return z3.simplify(z3.And(a != 0, (a & (a - 1)) == 0))
    if meth in ("abs_diff",):
        lt = (a < b) if signed else z3.ULT(a, b)
        return z3.simplify(z3.If(lt, b - a, a - b))
    raise Unsupported("integer method %s" % callee)


def m_try_from_int(engine, st, fr, callee, args, ops):
    m = re.match(r"^<" + INTS + r" as (std::convert::)?TryFrom<" + INTS + r">>::try_from$", callee)
    dst, src = m.group(1), m.group(3)
    dw, ds = INT_TYPES[dst]
    sw, ss = INT_TYPES[src]
    a = args[0]
    # value range check
    if not ss and not ds:
        fits = z3.BoolVal(True) if dw >= sw else z3.ULE(a, z3.BitVecVal((1 << dw) - 1, sw))
    elif not ss and ds:
        fits = z3.BoolVal(True) if dw > sw else z3.ULE(a, z3.BitVecVal((1 << (dw - 1)) - 1, sw))
    elif ss and not ds:
        fits = a >= 0 if dw >= sw else z3.And(a >= 0, a <= z3.BitVecVal((1 << dw) - 1, sw))
    else:
        fits = z3.BoolVal(True) if dw >= sw else z3.And(a >= z3.BitVecVal(-(1 << (dw - 1)), sw), a <= z3.BitVecVal((1 << (dw - 1)) - 1, sw))
    if dw == sw:
        r = a
    elif dw < sw:
        r = z3.Extract(dw - 1, 0, a)
    else:
        r = z3.SignExt(dw - sw, a) if ss else z3.ZeroExt(dw - sw, a)
    r = z3.simplify(r)
    fits = z3.simplify(fits)
    err = Adt("Result", "Err", [sym.Sym(engine.fresh_name("tryfrom"), "TryFromIntError")])
    cb = _concrete_bool(fits)
    if cb is True:
        return Adt("Result", "Ok", [r])
    if cb is False:
        return err
    return Fork([(fits, Adt("Result", "Ok", [r])), (z3.Not(fits), err)])


# ------------------------------------------------------------------ Option / Result
def _variants(engine, st, v, names):
    v = v if not isinstance(v, Ref) else v
    return sym._discr_fork(engine, st, v, names)


def _call1(engine, clo, argv, wrap=None):
    if isinstance(clo, Adt) and clo.variant is not None and not clo.fields:
        out = Adt(clo.ty, clo.variant, list(argv))
        return wrap(out) if wrap else out
    if isinstance(clo, sym.FnV) and "{closure" not in clo.name:
        ty, var, e = engine.enum_variant_value(clo.name)
        if var is not None:
            out = Adt(ty, var, list(argv))
            return wrap(out) if wrap else out
        # a named function passed as the callback (`.and_then(Table::lookup_opcode)`): the same model a direct call would get
        ctx_ = getattr(engine, "_cur_call", None)
        if ctx_ is not None:
            st_, fr_ = ctx_
            for rx, handler in list(engine.models) + list(sym.BUILTIN_MODELS):
                if handler is not None and re.search(rx, clo.name):
                    out = handler(engine, st_, fr_, clo.name, list(argv), None)
                    if wrap is None:
                        return out
                    if isinstance(out, Fork):
                        return Fork([(a[0], wrap(a[1])) + tuple(a[2:]) if not isinstance(a[1], (Panic, Inline)) else a for a in out.alts])
                    if isinstance(out, (Inline, Panic)) or out.__class__.__name__ in ("FirstMatch",):
                        raise Unsupported("callback %s: model result cannot be wrapped" % clo.name)
                    return wrap(out)
        return Inline(engine.resolve_fn(clo.name), list(argv), wrap=wrap)
    fn = engine.resolve_fn(clo.name)
    first = clo
    if fn.args and fn.args[0][1].strip().startswith("&"):
        raise Unsupported("a by-reference closure where FnOnce is expected: %s" % clo.name)
    return Inline(fn, [first] + list(argv), wrap=wrap)


def _opt_dispatch(engine, st, v, on_some, on_none):
    alts = []
    for c, n in _variants(engine, st, v, ["None", "Some"]):
        alts.append((c, on_some(sym._payload(engine, v, "Some")) if n == "Some" else on_none()))
    return alts[0][1] if len(alts) == 1 and alts[0][0] is True else Fork(alts)


def _res_dispatch(engine, st, v, on_ok, on_err):
    alts = []
    for c, n in _variants(engine, st, v, ["Ok", "Err"]):
        alts.append((c, on_ok(sym._payload(engine, v, "Ok")) if n == "Ok" else on_err(sym._payload(engine, v, "Err", 0))))
    return alts[0][1] if len(alts) == 1 and alts[0][0] is True else Fork(alts)


def _method_name(callee):
    return sym.strip_generics(callee).split("::")[-1].strip()


def m_option_method(engine, st, fr, callee, args, ops):
    engine._cur_call = (st, fr)
    meth = _method_name(callee)
    v = args[0]
    if isinstance(v, Ref) and meth in ("is_some", "is_none", "as_ref", "as_mut", "copied", "cloned"):
        pass
    if meth == "unwrap_or":
        return _opt_dispatch(engine, st, v, lambda x: x, lambda: args[1])
    if meth == "unwrap_or_default":
        m = re.search(r"Option::<(\w+)>", callee)
        ty = m.group(1) if m else None
        if ty in INT_TYPES:
            return _opt_dispatch(engine, st, v, lambda x: x, lambda: z3.BitVecVal(0, INT_TYPES[ty][0]))
        if ty == "bool":
            return _opt_dispatch(engine, st, v, lambda x: x, lambda: z3.BoolVal(False))
        raise Unsupported(callee)
    if meth == "unwrap_or_else":
        return _opt_dispatch(engine, st, v, lambda x: x, lambda: _call1(engine, args[1], []))
    if meth == "map":
        return _opt_dispatch(engine, st, v, lambda x: _call1(engine, args[1], [x], wrap=some), none)
    if meth == "map_or":
        return _opt_dispatch(engine, st, v, lambda x: _call1(engine, args[2], [x]), lambda: args[1])
    if meth == "map_or_else":
        return _opt_dispatch(engine, st, v, lambda x: _call1(engine, args[2], [x]), lambda: _call1(engine, args[1], []))
    if meth == "and_then":
        return _opt_dispatch(engine, st, v, lambda x: _call1(engine, args[1], [x]), none)
    if meth == "or":
        return _opt_dispatch(engine, st, v, lambda x: some(x), lambda: args[1])
    if meth == "or_else":
        return _opt_dispatch(engine, st, v, lambda x: some(x), lambda: _call1(engine, args[1], []))
    if meth == "xor":
        o = args[1]
        return _opt_dispatch(engine, st, v,
                             lambda x: _opt_dispatch(engine, st, o, lambda y: none(), lambda: some(x)),
                             lambda: _opt_dispatch(engine, st, o, lambda y: some(y), none))
    if meth == "zip":
        o = args[1]
        return _opt_dispatch(engine, st, v, lambda x: _opt_dispatch(engine, st, o, lambda y: some(Adt("tuple", None, [x, y])), none), none)
    if meth == "filter":
        def flt(x):
            cell = ("h", engine.fresh_name("optv"))
            st.mem[cell] = x
            fn_ = engine.resolve_fn(args[1].name)
            res = engine.call_pure(st, fn_, [_clo_arg(engine, st, args[1], fn_), Ref(cell, ())])
            res = [r for r in res if r.status == "return"]
            if len(res) != 1:
                raise Unsupported("Option::filter predicate forks")
            c = _as_bool(res[0].value)
            cb = _concrete_bool(c)
            if cb is None:
                return Fork([(c, some(x)), (z3.Not(c), none())])
            return some(x) if cb else none()
        return _opt_dispatch(engine, st, v, flt, none)
    if meth in ("ok_or",):
        return _opt_dispatch(engine, st, v, lambda x: Adt("Result", "Ok", [x]), lambda: Adt("Result", "Err", [args[1]]))
    if meth == "ok_or_else":
        return _opt_dispatch(engine, st, v, lambda x: Adt("Result", "Ok", [x]), lambda: _call1(engine, args[1], [], wrap=lambda e: Adt("Result", "Err", [e])))
    if meth in ("copied", "cloned"):
        return _opt_dispatch(engine, st, v, lambda x: some(_deref(engine, st, x)), none)
    if meth == "is_some_and":
        return _opt_dispatch(engine, st, v, lambda x: _call1(engine, args[1], [x]), lambda: z3.BoolVal(False))
    if meth == "unwrap_unchecked":
        return _opt_dispatch(engine, st, v, lambda x: x, lambda: Panic(("unwrap_unchecked on None", fr.fn.name, fr.bb)))
    raise Unsupported("Option method %s" % callee)


def _cell(engine, st, clo):
    cell = ("h", engine.fresh_name("clo"))
    st.mem[cell] = clo
    return Ref(cell, (), True)


def m_result_method(engine, st, fr, callee, args, ops):
    engine._cur_call = (st, fr)
    meth = _method_name(callee)
    v = args[0]
    ok = lambda x: Adt("Result", "Ok", [x])
    err = lambda e: Adt("Result", "Err", [e])
    if meth in ("is_ok", "is_err"):
        vv = _deref(engine, st, v)
        return _res_dispatch(engine, st, vv, lambda x: z3.BoolVal(meth == "is_ok"), lambda e: z3.BoolVal(meth == "is_err"))
    if meth == "ok":
        return _res_dispatch(engine, st, v, some, lambda e: none())
    if meth == "err":
        return _res_dispatch(engine, st, v, lambda x: none(), some)
    if meth == "unwrap_or":
        return _res_dispatch(engine, st, v, lambda x: x, lambda e: args[1])
    if meth == "unwrap_or_else":
        return _res_dispatch(engine, st, v, lambda x: x, lambda e: _call1(engine, args[1], [e]))
    if meth == "unwrap_or_default":
        m = re.search(r"Result::<(\w+),", callee)
        ty = m.group(1) if m else None
        if ty in INT_TYPES:
            return _res_dispatch(engine, st, v, lambda x: x, lambda e: z3.BitVecVal(0, INT_TYPES[ty][0]))
        raise Unsupported(callee)
    if meth == "map":
        return _res_dispatch(engine, st, v, lambda x: _call1(engine, args[1], [x], wrap=ok), err)
    if meth == "map_err":
        return _res_dispatch(engine, st, v, ok, lambda e: _call1(engine, args[1], [e], wrap=err))
    if meth == "and_then":
        return _res_dispatch(engine, st, v, lambda x: _call1(engine, args[1], [x]), err)
    if meth == "or_else":
        return _res_dispatch(engine, st, v, ok, lambda e: _call1(engine, args[1], [e]))
    if meth == "and":
        return _res_dispatch(engine, st, v, lambda x: args[1], err)
    if meth == "or":
        return _res_dispatch(engine, st, v, ok, lambda e: args[1])
    if meth == "map_or":
        return _res_dispatch(engine, st, v, lambda x: _call1(engine, args[2], [x]), lambda e: args[1])
    if meth == "as_ref":
        vv = _deref(engine, st, v)
        return _res_dispatch(engine, st, vv, lambda x: ok(x), lambda e: err(e))
    raise Unsupported("Result method %s" % callee)


# ------------------------------------------------------------------ mem
def m_mem_swap(engine, st, fr, callee, args, ops):
    a, b = args
    va, vb = sym._deref_arg(engine, st, a), sym._deref_arg(engine, st, b)
    engine.write_at(st, a.root, list(a.path), vb)
    engine.write_at(st, b.root, list(b.path), va)
    return UNIT


def m_mem_replace(engine, st, fr, callee, args, ops):
    r, new = args
    old = sym._deref_arg(engine, st, r)
    engine.write_at(st, r.root, list(r.path), new)
    return old


def m_mem_take(engine, st, fr, callee, args, ops):
    r = args[0]
    old = sym._deref_arg(engine, st, r)
    if isinstance(old, Arr):
        new = Arr([], old.kind)
    elif isinstance(old, Adt) and old.ty == "Option":
        new = none()
    elif z3.is_expr(old) and z3.is_bv(old):
        new = z3.BitVecVal(0, old.size())
    elif z3.is_expr(old) and z3.is_bool(old):
        new = z3.BoolVal(False)
    else:
        raise Unsupported("mem::take of %r" % (old,))
    engine.write_at(st, r.root, list(r.path), new)
    return old


# ------------------------------------------------------------------ views of sequences
def view(engine, st, v):
    """-> (ref to the Arr, lo, hi, items of the whole Arr) for &Vec / &[T] / &[T; N] / Slice[ref, lo(, hi)]"""
    lo, hi = 0, None
    while True:
        x = sym._deref_arg(engine, st, v) if isinstance(v, Ref) else v
        if isinstance(x, Adt) and x.ty == "Slice":
            base_lo = x.fields[1] if len(x.fields) > 1 else 0
            base_hi = x.fields[2] if len(x.fields) > 2 else None
            # nested views compose
            if hi is not None:
                hi = base_lo + hi
            else:
                hi = base_hi
            lo = base_lo + lo
            v = x.fields[0]
            continue
        if isinstance(x, Arr):
            n = len(x.items)
            return v, lo, (n if hi is None else min(hi, n)), x.items
        raise Unsupported("sequence view of %r" % (x,))


def elem_refs(engine, st, v):
    r, lo, hi, items = view(engine, st, v)
    return [Ref(r.root, r.path + (("index_c", i),), r.mut) for i in range(lo, hi)]


def m_as_slice(engine, st, fr, callee, args, ops):
    return Adt("Slice", None, [args[0]])


def m_seq_len(engine, st, fr, callee, args, ops):
    r, lo, hi, items = view(engine, st, args[0])
    return z3.BitVecVal(hi - lo, 64)


def m_seq_is_empty(engine, st, fr, callee, args, ops):
    r, lo, hi, items = view(engine, st, args[0])
    return z3.BoolVal(hi - lo == 0)


def m_seq_first_last(engine, st, fr, callee, args, ops):
    base = args[0]
    x = sym._deref_arg(engine, st, base) if isinstance(base, Ref) else base
    if isinstance(x, sym.Sym) and isinstance(base, Ref):
        # an opaque vector: empty, or its first / last element (a derived opaque element)
        n = engine.len_of(st, base)
        k = 0 if re.search(r"::first(_mut)?$", callee) else -1
        return Fork([(n == 0, none()), (n != 0, some(Ref(base.root, base.path + (("index_c", k),), base.mut)))])
    refs = elem_refs(engine, st, args[0])
    if not refs:
        return none()
    return some(refs[0] if re.search(r"::first(_mut)?$", callee) else refs[-1])


def m_seq_get(engine, st, fr, callee, args, ops):
    refs = elem_refs(engine, st, args[0])
    idx = args[1]
    i = sym._concrete_index(idx)
    if i is not None:
        return some(refs[i]) if i < len(refs) else none()
    alts = [(idx == z3.BitVecVal(k, idx.size()), some(refs[k])) for k in range(len(refs))]
    alts.append((z3.UGE(idx, z3.BitVecVal(len(refs), idx.size())), none()))
    return Fork(alts)


def m_seq_index(engine, st, fr, callee, args, ops):
    refs = elem_refs(engine, st, args[0])
    idx = args[1]
    i = sym._concrete_index(idx)
    if i is not None:
        return refs[i] if i < len(refs) else Panic(("index out of bounds", "len %d index %d" % (len(refs), i), fr.fn.name, fr.bb))
    alts = [(idx == z3.BitVecVal(k, idx.size()), refs[k]) for k in range(len(refs))]
    alts.append((z3.UGE(idx, z3.BitVecVal(len(refs), idx.size())), Panic(("index out of bounds", "len %d" % len(refs), fr.fn.name, fr.bb))))
    return Fork(alts)


def _range_bounds(engine, st, rng, n, callee):
    """(lo, hi) concrete for Range / RangeFrom / RangeTo / RangeInclusive / RangeFull arguments"""
    kind = re.search(r"Range(From|To|Inclusive|Full|ToInclusive)?<", callee)
    k = kind.group(1) if kind else None
    f = rng.fields if isinstance(rng, Adt) else []
    def c(x):
        i = sym._concrete_index(x)
        if i is None:
            raise Unsupported("symbolic range bound")
        return i
    if k is None:
        return c(f[0]), c(f[1])
    if k == "From":
        return c(f[0]), n
    if k == "To":
        return 0, c(f[0])
    if k == "ToInclusive":
        return 0, c(f[0]) + 1
    if k == "Inclusive":
        return c(f[0]), c(f[1]) + 1
    return 0, n


def m_seq_range_index(engine, st, fr, callee, args, ops):
    r, lo, hi, items = view(engine, st, args[0])
    n = hi - lo
    try:
        a, b = _range_bounds(engine, st, args[1], n, callee)
    except Unsupported:
        # a bound that depends on symbolic data: split into its feasible values (at most 8 each)
        raise
    if a > b:
        return Panic(("slice index starts at %d but ends at %d" % (a, b), fr.fn.name, fr.bb))
    if b > n:
        return Panic(("range end index %d out of range for slice of length %d" % (b, n), fr.fn.name, fr.bb))
    return Adt("Slice", None, [r, lo + a, lo + b])


def m_seq_contains(engine, st, fr, callee, args, ops):
    refs = elem_refs(engine, st, args[0])
    x = args[1]
    conds = [sym.struct_eq(engine, st, e, x) for e in refs]
    return z3.simplify(z3.Or(*conds)) if conds else z3.BoolVal(False)


def m_seq_split_at(engine, st, fr, callee, args, ops):
    r, lo, hi, items = view(engine, st, args[0])
    k = sym._concrete_index(args[1])
    if k is None:
        raise Unsupported("split_at with a symbolic index")
    if k > hi - lo:
        return Panic(("mid > len", fr.fn.name, fr.bb))
    return Adt("tuple", None, [Adt("Slice", None, [r, lo, lo + k]), Adt("Slice", None, [r, lo + k, hi])])


def m_seq_split_first_last(engine, st, fr, callee, args, ops):
    r, lo, hi, items = view(engine, st, args[0])
    if hi - lo == 0:
        return none()
    if "split_first" in callee:
        return some(Adt("tuple", None, [Ref(r.root, r.path + (("index_c", lo),)), Adt("Slice", None, [r, lo + 1, hi])]))
    return some(Adt("tuple", None, [Ref(r.root, r.path + (("index_c", hi - 1),)), Adt("Slice", None, [r, lo, hi - 1])]))


def m_seq_to_vec(engine, st, fr, callee, args, ops):
    r, lo, hi, items = view(engine, st, args[0])
    return Arr(items[lo:hi], "vec")


def m_seq_chunks(engine, st, fr, callee, args, ops):
    r, lo, hi, items = view(engine, st, args[0])
    k = sym._concrete_index(args[1])
    if not k:
        raise Unsupported("chunk size")
    out = []
    i = lo
    exact = "chunks_exact" in callee
    while i < hi:
        j = min(i + k, hi)
        if exact and j - i < k:
            break
        out.append(Adt("Slice", None, [r, i, j]))
        i = j
    return Adt("CIter", None, [Arr(out)])


def m_seq_windows(engine, st, fr, callee, args, ops):
    r, lo, hi, items = view(engine, st, args[0])
    k = sym._concrete_index(args[1])
    if not k:
        raise Unsupported("window size")
    return Adt("CIter", None, [Arr([Adt("Slice", None, [r, i, i + k]) for i in range(lo, hi - k + 1)])])


# ------------------------------------------------------------------ Vec mutation
def _vec(engine, st, r):
    v = sym._deref_arg(engine, st, r)
    if not isinstance(v, Arr):
        raise Unsupported("Vec operation on %r" % (v,))
    return v


def m_vec_extend_from_slice(engine, st, fr, callee, args, ops):
    r = args[0]
    v = _vec(engine, st, r)
    sr, lo, hi, items = view(engine, st, args[1])
    engine.write_at(st, r.root, list(r.path), Arr(v.items + tuple(items[lo:hi]), v.kind))
    return UNIT


def m_vec_extend(engine, st, fr, callee, args, ops):
    """`Vec::extend(iterable)`: Option (0 or 1 element), arrays / vectors / slices, and the iterator adapters above"""
    r = args[0]
    v = _vec(engine, st, r)
    src = args[1]
    x = _deref(engine, st, src) if isinstance(src, Ref) else src
    if isinstance(x, Adt) and x.ty == "Option":
        def put(items):
            return sym._SetPlace(r, Arr(v.items + tuple(items), v.kind))
        alts = []
        for c, n in sym._discr_fork(engine, st, x, ["None", "Some"]):
            alts.append((c, put([sym._payload(engine, x, "Some")]) if n == "Some" else put([])))
        return alts[0][1] if len(alts) == 1 and alts[0][0] is True else Fork(alts)
    if isinstance(x, Arr):
        items = list(x.items)
    else:
        items = _items(engine, st, src)
        # `extend(&[T])` / `extend(iter())` of Copy items yields references: Vec<T: Copy> implements Extend<&T> by copying
        if re.search(r"Extend<&", callee):
            items = [_deref(engine, st, i) for i in items]
    engine.write_at(st, r.root, list(r.path), Arr(v.items + tuple(items), v.kind))
    return UNIT


def _apply_effect(engine, st, clo, argv):
    """run the closure for its effects too: the (single) returning path's memory, path condition and events become the caller's"""
    fn = engine.resolve_fn(clo.name)
    res = engine.call_pure(st, fn, [_clo_arg(engine, st, clo, fn)] + list(argv))
    rets = [r for r in res if r.status == "return"]
    if len(res) != 1 or len(rets) != 1:
        raise Unsupported("closure with effects forks or panics (%d paths)" % len(res))
    r = rets[0]
    keep = {k: v for k, v in st.mem.items() if isinstance(k, tuple) and k and isinstance(k[0], int) and k not in r.mem}
    st.mem.clear()
    st.mem.update(r.mem)
    st.mem.update(keep)
    st.pc[:] = list(r.pc)
    st.events[:] = list(r.events)
    return r.value


def m_for_each(engine, st, fr, callee, args, ops):
    for x in _items(engine, st, args[0]):
        _apply_effect(engine, st, args[1], [x])
    return UNIT


def m_find_map(engine, st, fr, callee, args, ops):
    it0 = sym._deref_arg(engine, st, args[0]) if isinstance(args[0], Ref) else args[0]
    if isinstance(it0, Adt) and it0.ty == "CIterCond":
        # a filter with undecided predicate values in front: element i is looked at iff its condition holds
        items, conds = list(it0.fields[0].items), list(it0.fields[1].items)
        alts, before = [], []
        for x, c in zip(items, conds):
            out = _apply(engine, st, args[1], [x])
            if not (isinstance(out, Adt) and out.variant in ("Some", "None")):
                raise Unsupported("find_map with a symbolic Option")
            if out.variant == "Some":
                alts.append((z3.simplify(z3.And(*(before + [c]))), out))
                before.append(z3.Not(c))
        alts.append((z3.simplify(z3.And(*before)) if before else True, none()))
        alts = [(c, v) for c, v in alts if not (z3.is_expr(c) and z3.is_false(c))]
        return alts[0][1] if len(alts) == 1 else Fork(alts)
    for x in _items(engine, st, args[0]):
        out = _apply(engine, st, args[1], [x])
        if isinstance(out, Adt) and out.variant == "Some":
            return out
        if not (isinstance(out, Adt) and out.variant == "None"):
            raise Unsupported("find_map with a symbolic Option")
    return none()


def m_noop(engine, st, fr, callee, args, ops):
    return UNIT


def m_discriminant(engine, st, fr, callee, args, ops):
    """`mem::discriminant(&x)`: the variant index of an enum value; for an opaque value an uninterpreted word derived from it"""
    v = _deref(engine, st, args[0])
    if isinstance(v, Adt) and v.variant is not None:
        e = engine.reg.lookup(v.ty)
        if e and v.variant in e["by_name"]:
            return z3.BitVecVal(e["by_name"][v.variant], 64)
    if isinstance(v, sym.Sym):
        return z3.BitVec(v.name + "#discriminant", 64)
    if z3.is_expr(v):
        return z3.BitVecVal(0, 64)
    raise Unsupported("discriminant of %r" % (v,))


def m_vec_truncate(engine, st, fr, callee, args, ops):
    r = args[0]
    v = _vec(engine, st, r)
    k = sym._concrete_index(args[1])
    if k is None:
        raise Unsupported("truncate to a symbolic length")
    engine.write_at(st, r.root, list(r.path), Arr(v.items[:k], v.kind))
    return UNIT


def m_vec_clear(engine, st, fr, callee, args, ops):
    r = args[0]
    v = _vec(engine, st, r)
    engine.write_at(st, r.root, list(r.path), Arr([], v.kind))
    return UNIT


def m_vec_remove(engine, st, fr, callee, args, ops):
    r = args[0]
    v = _vec(engine, st, r)
    k = sym._concrete_index(args[1])
    if k is None:
        raise Unsupported("remove at a symbolic index")
    if k >= len(v.items):
        return Panic(("removal index out of bounds", fr.fn.name, fr.bb))
    if "swap_remove" in callee:
        items = list(v.items)
        x = items[k]
        items[k] = items[-1]
        items.pop()
    else:
        x = v.items[k]
        items = v.items[:k] + v.items[k + 1:]
    engine.write_at(st, r.root, list(r.path), Arr(items, v.kind))
    return x


def m_seq_swap(engine, st, fr, callee, args, ops):
    r, lo, hi, items = view(engine, st, args[0])
    i, j = sym._concrete_index(args[1]), sym._concrete_index(args[2])
    if i is None or j is None:
        raise Unsupported("swap with symbolic indices")
    if i >= hi - lo or j >= hi - lo:
        return Panic(("index out of bounds", fr.fn.name, fr.bb))
    base = sym._deref_arg(engine, st, r)
    items = list(base.items)
    items[lo + i], items[lo + j] = items[lo + j], items[lo + i]
    engine.write_at(st, r.root, list(r.path), Arr(items, base.kind))
    return UNIT


def m_vec_retain(engine, st, fr, callee, args, ops):
    r = args[0]
    v = _vec(engine, st, r)
    refs = [Ref(r.root, r.path + (("index_c", i),)) for i in range(len(v.items))]
    conds = itermodels._pred_conditions(engine, st, refs, args[1])
    out = []
    for it, c in zip(v.items, conds):
        cb = _concrete_bool(c)
        if cb is None:
            raise Unsupported("retain with a symbolic predicate value")
        if cb:
            out.append(it)
    engine.write_at(st, r.root, list(r.path), Arr(out, v.kind))
    return UNIT


def m_seq_sort(engine, st, fr, callee, args, ops):
    r, lo, hi, items = view(engine, st, args[0])
    base = sym._deref_arg(engine, st, r)
    vals = []
    for x in items[lo:hi]:
        xs = z3.simplify(x) if z3.is_expr(x) else x
        if not (z3.is_expr(xs) and z3.is_bv_value(xs)):
            raise Unsupported("sort of symbolic values")
        vals.append(xs)
    m = re.search(r"\[(\w+)\]", callee)
    signed = INT_TYPES.get(m.group(1), (0, False))[1] if m else False
    vals.sort(key=lambda b: b.as_signed_long() if signed else b.as_long())
    new = list(base.items)
    new[lo:hi] = vals
    engine.write_at(st, r.root, list(r.path), Arr(new, base.kind))
    return UNIT


def m_seq_binary_search(engine, st, fr, callee, args, ops):
    """std's binary search on a sorted slice: Ok(index of a match) / Err(insertion point); only decided for concrete contents
    (which of several equal elements is found is unspecified by std: only a unique match is accepted here)."""
    r, lo, hi, items = view(engine, st, args[0])
    key = _deref(engine, st, args[1])
    vals = [z3.simplify(x) for x in items[lo:hi]]
    ks = z3.simplify(key)
    if z3.is_expr(ks) and z3.is_bv(ks) and not z3.is_bv_value(ks) and all(z3.is_bv_value(v) for v in vals):
        # symbolic key, concrete contents
        m_ = re.search(r"\[(\w+)\]", callee)
        signed = INT_TYPES.get(m_.group(1), (0, False))[1] if m_ else False
        xs = [(v.as_signed_long() if signed else v.as_long()) for v in vals]
        lt = (lambda a, b: a < b) if signed else z3.ULT
        if all(xs[i] < xs[i + 1] for i in range(len(xs) - 1)):
            alts = [(ks == v, Adt("Result", "Ok", [z3.BitVecVal(i, 64)])) for i, v in enumerate(vals)]
            for i in range(len(vals) + 1):
                c = []
                if i > 0:
                    c.append(lt(vals[i - 1], ks))
                if i < len(vals):
                    c.append(lt(ks, vals[i]))
                alts.append((z3.And(*c) if c else True, Adt("Result", "Err", [z3.BitVecVal(i, 64)])))
            return Fork(alts)
        # std: "if the slice is not sorted, the returned result is unspecified and meaningless" -> any answer is possible; a check
        # that depends on it finds a candidate and must confirm it on the compiled crate
        st.events.append(("unspecified", "binary_search on a slice that is not sorted"))
        i_ok, i_err = z3.BitVec(engine.fresh_name("bsearch_ok"), 64), z3.BitVec(engine.fresh_name("bsearch_err"), 64)
        return Fork([(z3.ULT(i_ok, len(vals)), Adt("Result", "Ok", [i_ok])), (z3.ULE(i_err, len(vals)), Adt("Result", "Err", [i_err]))])
    if not (z3.is_bv_value(ks) and all(z3.is_bv_value(v) for v in vals)):
        raise Unsupported("binary_search on symbolic data")
    xs = [v.as_long() for v in vals]
    k = ks.as_long()
    if xs.count(k) == 1:
        return Adt("Result", "Ok", [z3.BitVecVal(xs.index(k), 64)])
    if xs.count(k) > 1:
        raise Unsupported("binary_search with several matches")
    ins = sum(1 for x in xs if x < k)
    return Adt("Result", "Err", [z3.BitVecVal(ins, 64)])


def m_from_elem(engine, st, fr, callee, args, ops):
    """`vec![e; n]`: n copies of the ONE value e (the expression is evaluated once); n concrete"""
    n = z3.simplify(args[1]) if z3.is_expr(args[1]) else args[1]
    if not (z3.is_expr(n) and z3.is_bv_value(n)) or n.as_long() > 64:
        raise Unsupported("vec![e; n] with a symbolic or large n")
    return Arr([args[0]] * n.as_long(), "vec")


def m_range_next(engine, st, fr, callee, args, ops):
    """`<Range<int> as Iterator>::next` with possibly symbolic bounds: Some(start) and start += 1 while start < end, else None
    (the number of iterations is bounded by the engine's loop bound; a longer run ends the path as `loop_bound`, never as a verdict)"""
    r = args[0]
    rng = sym._deref_arg(engine, st, r)
    if not (isinstance(rng, Adt) and len(rng.fields) == 2 and all(z3.is_expr(f) and z3.is_bv(f) for f in rng.fields)):
        raise Unsupported("next on %r" % (rng,))
    lo, hi = rng.fields
    m_ = re.search(r"Range<(\w+)>", callee)
    signed = INT_TYPES.get(m_.group(1), (0, False))[1] if m_ else False
    more = z3.simplify((lo < hi) if signed else z3.ULT(lo, hi))
    adv = sym._SetPlace(r, Adt(rng.ty, rng.variant, [z3.simplify(lo + 1), hi]), some(lo))
    if z3.is_true(more):
        return adv
    if z3.is_false(more):
        return none()
    return Fork([(more, adv), (z3.Not(more), none())])


# ------------------------------------------------------------------ iterator adapters (CIter[Arr(items)])
def citer(items):
    return Adt("CIter", None, [Arr(list(items))])


def _items(engine, st, v):
    it = sym._deref_arg(engine, st, v) if isinstance(v, Ref) else v
    if isinstance(it, Adt) and it.ty == "CIter":
        return list(it.fields[0].items)
    if isinstance(it, Adt) and it.ty == "SliceIterC":
        src, pos = it.fields
        return elem_refs(engine, st, src)[pos.as_long():]
    raise Unsupported("iterator adapter on %r" % (it,))


def m_iter(engine, st, fr, callee, args, ops):
    return citer(elem_refs(engine, st, args[0]))


def m_into_iter_vec(engine, st, fr, callee, args, ops):
    v = args[0]
    x = _deref(engine, st, v) if isinstance(v, Ref) else v
    if isinstance(x, Arr):
        if isinstance(v, Ref):
            return citer(elem_refs(engine, st, v))
        return citer(x.items)
    if isinstance(x, Adt) and x.ty in ("CIter",):
        return x
    if isinstance(x, Adt) and x.ty == "Slice":
        return citer(elem_refs(engine, st, x))
    raise Unsupported("into_iter of %r" % (x,))


def m_identity(engine, st, fr, callee, args, ops):
    return args[0]


def m_to_owned_str(engine, st, fr, callee, args, ops):
    """<str as ToOwned>::to_owned: the String holds exactly the bytes of the str."""
    v = args[0]
    return sym._deref_arg(engine, st, v) if isinstance(v, sym.Ref) else v


def m_enumerate(engine, st, fr, callee, args, ops):
    return citer([Adt("tuple", None, [z3.BitVecVal(i, 64), x]) for i, x in enumerate(_items(engine, st, args[0]))])


def m_rev(engine, st, fr, callee, args, ops):
    return citer(_items(engine, st, args[0])[::-1])


def m_skip(engine, st, fr, callee, args, ops):
    k = sym._concrete_index(args[1])
    if k is None:
        raise Unsupported("skip by a symbolic count")
    return citer(_items(engine, st, args[0])[k:])


def m_take(engine, st, fr, callee, args, ops):
    k = sym._concrete_index(args[1])
    if k is None:
        raise Unsupported("take of a symbolic count")
    return citer(_items(engine, st, args[0])[:k])


def m_step_by(engine, st, fr, callee, args, ops):
    k = sym._concrete_index(args[1])
    if not k:
        raise Unsupported("step_by")
    return citer(_items(engine, st, args[0])[::k])


def m_chain(engine, st, fr, callee, args, ops):
    return citer(_items(engine, st, args[0]) + _items(engine, st, m_into_iter_vec(engine, st, fr, callee, [args[1]], ops)))


def m_zip(engine, st, fr, callee, args, ops):
    a = _items(engine, st, args[0])
    b = _items(engine, st, m_into_iter_vec(engine, st, fr, callee, [args[1]], ops))
    return citer([Adt("tuple", None, [x, y]) for x, y in zip(a, b)])


def m_copied(engine, st, fr, callee, args, ops):
    return citer([_deref(engine, st, x) for x in _items(engine, st, args[0])])


def _clo_arg(engine, st, clo, fn):
    """the closure as its own first argument: by reference for Fn / FnMut bodies (`_1: &mut {closure}`), by value for FnOnce"""
    ty = fn.args[0][1].strip() if fn.args else ""
    return _cell(engine, st, clo) if ty.startswith("&") else clo


def _apply(engine, st, clo, argv):
    fn = engine.resolve_fn(clo.name)
    res = engine.call_pure(st, fn, [_clo_arg(engine, st, clo, fn)] + list(argv))
    res = [r for r in res if r.status == "return"]
    if len(res) > 1:
        # a predicate that forks (e.g. compares an opaque field): its answer is the disjunction over its paths
        parts = []
        for r in res:
            v = r.value
            b = v if (z3.is_expr(v) and z3.is_bool(v)) else ((v != 0) if (z3.is_expr(v) and z3.is_bv(v) and v.size() <= 8) else None)
            if b is None:
                raise Unsupported("closure forks or panics (%d returning paths)" % len(res))
            parts.append(z3.And(*(list(r.pc[len(st.pc):]) + [b])))
        return z3.simplify(z3.Or(*parts))
    if len(res) != 1:
        raise Unsupported("closure forks or panics (%d returning paths)" % len(res))
    return res[0].value


def _by_ref(engine, st, x):
    cell = ("h", engine.fresh_name("item"))
    st.mem[cell] = x
    return Ref(cell, ())


def m_map(engine, st, fr, callee, args, ops):
    clo = args[1]
    out = []
    for x in _items(engine, st, args[0]):
        if isinstance(clo, sym.FnV) and "{closure" in clo.name:
            out.append(_apply(engine, st, clo, [x]))
        elif isinstance(clo, sym.FnV):
            # a named function as the mapper
            res = engine.call_pure(st, engine.resolve_fn(clo.name), [x])
            res = [r for r in res if r.status == "return"]
            if len(res) != 1:
                raise Unsupported("map with %s: %d returning paths" % (clo.name, len(res)))
            out.append(res[0].value)
        elif isinstance(clo, Adt) and clo.variant is not None and not clo.fields:
            out.append(Adt(clo.ty, clo.variant, [x]))
        else:
            raise Unsupported("map with %r" % (clo,))
    return citer(out)


def m_filter(engine, st, fr, callee, args, ops):
    items = _items(engine, st, args[0])
    conds = [z3.simplify(_as_bool(_apply(engine, st, args[1], [_by_ref(engine, st, x)]))) for x in items]
    if all(_concrete_bool(c) is not None for c in conds):
        return citer([x for x, c in zip(items, conds) if _concrete_bool(c)])
    # undecided predicate values: keep them with the elements (understood by find_map / next / count / any)
    return Adt("CIterCond", None, [Arr(items), Arr(conds)])


def m_take_skip_while(engine, st, fr, callee, args, ops):
    items = _items(engine, st, args[0])
    k = 0
    for x in items:
        c = _concrete_bool(_as_bool(_apply(engine, st, args[1], [_by_ref(engine, st, x)])))
        if c is None:
            raise Unsupported("take_while / skip_while with a symbolic predicate value")
        if not c:
            break
        k += 1
    return citer(items[:k] if "take_while" in callee else items[k:])


def m_find(engine, st, fr, callee, args, ops):
    alts, before = [], []
    for x in _items(engine, st, args[0]):
        c = z3.simplify(_as_bool(_apply(engine, st, args[1], [_by_ref(engine, st, x)])))
        alts.append((z3.simplify(z3.And(*(before + [c]))), some(x)))
        before.append(z3.Not(c))
    alts.append((z3.simplify(z3.And(*before)) if before else True, none()))
    alts = [(c, v) for c, v in alts if not (z3.is_expr(c) and z3.is_false(c))]
    return alts[0][1] if len(alts) == 1 else Fork(alts)


def m_position(engine, st, fr, callee, args, ops):
    alts, before = [], []
    for k, x in enumerate(_items(engine, st, args[0])):
        c = z3.simplify(_as_bool(_apply(engine, st, args[1], [x])))
        alts.append((z3.simplify(z3.And(*(before + [c]))), some(z3.BitVecVal(k, 64))))
        before.append(z3.Not(c))
    alts.append((z3.simplify(z3.And(*before)) if before else True, none()))
    alts = [(c, v) for c, v in alts if not (z3.is_expr(c) and z3.is_false(c))]
    return alts[0][1] if len(alts) == 1 else Fork(alts)


def m_any_all(engine, st, fr, callee, args, ops):
    conds = [_as_bool(_apply(engine, st, args[1], [x])) for x in _items(engine, st, args[0])]
    if "::all::<" in callee:
        return z3.simplify(z3.And(*conds)) if conds else z3.BoolVal(True)
    return z3.simplify(z3.Or(*conds)) if conds else z3.BoolVal(False)


def m_count(engine, st, fr, callee, args, ops):
    return z3.BitVecVal(len(_items(engine, st, args[0])), 64)


def m_last(engine, st, fr, callee, args, ops):
    items = _items(engine, st, args[0])
    return some(items[-1]) if items else none()


def m_nth(engine, st, fr, callee, args, ops):
    items = _items(engine, st, args[0])
    k = sym._concrete_index(args[1])
    if k is None:
        raise Unsupported("nth with a symbolic index")
    r = args[0]
    if isinstance(r, Ref):
        engine.write_at(st, r.root, list(r.path), citer(items[k + 1:]))
    return some(items[k]) if k < len(items) else none()


def m_fold(engine, st, fr, callee, args, ops):
    acc = args[1]
    for x in _items(engine, st, args[0]):
        acc = _apply(engine, st, args[2], [acc, x])
    return acc


def m_sum(engine, st, fr, callee, args, ops):
    m = re.search(r"::sum::<" + INTS + ">", callee)
    if not m:
        raise Unsupported(callee)
    w = INT_TYPES[m.group(1)][0]
    acc = z3.BitVecVal(0, w)
    alts_panic = []
    for x in _items(engine, st, args[0]):
        x = _deref(engine, st, x)
        t = engine.binop("AddWithOverflow", acc, x, m.group(1))
        acc, ovf = t.fields
        if _concrete_bool(ovf) is not False:
            alts_panic.append(ovf)
    if alts_panic:
        anyovf = z3.simplify(z3.Or(*alts_panic))
        return Fork([(z3.Not(anyovf), acc), (anyovf, Panic(("attempt to add with overflow", fr.fn.name, fr.bb)))])
    return z3.simplify(acc)


def m_max_min(engine, st, fr, callee, args, ops):
    items = [x for x in _items(engine, st, args[0])]
    if not items:
        return none()
    vals = [_deref(engine, st, x) for x in items]
    if not all(z3.is_expr(v) and z3.is_bv(v) for v in vals):
        raise Unsupported("max / min of non-integers")
    m = re.search(r"Item = &?" + INTS, callee)
    signed = False
    best, bi = vals[0], items[0]
    # std: max returns the LAST maximum, min the FIRST minimum; with references the element reference is returned
    res_items = None
    cur = vals[0]
    cur_item = items[0]
    concrete = all(z3.is_bv_value(z3.simplify(v)) for v in vals)
    if not concrete:
        raise Unsupported("max / min of symbolic values")
    nums = [z3.simplify(v).as_long() for v in vals]
    if "::max" in callee:
        mval = max(nums)
        idx = len(nums) - 1 - nums[::-1].index(mval)
    else:
        mval = min(nums)
        idx = nums.index(mval)
    return some(items[idx])


def m_collect_vec(engine, st, fr, callee, args, ops):
    return Arr(_items(engine, st, args[0]), "vec")


def m_next(engine, st, fr, callee, args, ops):
    r = args[0]
    it = sym._deref_arg(engine, st, r)
    if isinstance(it, Adt) and it.ty == "SliceIterC":
        return sym.m_slice_iter_next(engine, st, fr, callee, args, ops)
    items = _items(engine, st, r)
    if not items:
        return none()
    engine.write_at(st, r.root, list(r.path), citer(items[1:]))
    return some(items[0])


def m_iter_mut_for(engine, st, fr, callee, args, ops):
    return citer(elem_refs(engine, st, args[0]))


ITER = r"(std::slice::Iter(Mut)?<'_, .*>|std::vec::IntoIter<.*>|(std|core)::array::IntoIter<.*>|(std::iter::|core::iter::)?(Enumerate|Rev|Skip|Take|StepBy|Chain|Zip|Copied|Cloned|Map|Filter|TakeWhile|SkipWhile)<.*>|(std::slice::)?Chunks(Exact)?<'_, .*>|(std::slice::)?Windows<'_, .*>)"

MODELS = [
    (r"^(<str as ToOwned>::to_owned|<String as From<&str>>::from|<str as ToString>::to_string|<&str as Into<String>>::into|"
     r"<String as std::convert::From<&str>>::from|<std::string::String as From<&str>>::from|<&str as Into<std::string::String>>::into)$", m_to_owned_str),
    # integers
    (r"^core::num::<impl " + INTS + r">::(wrapping_add|wrapping_sub|wrapping_mul|checked_add|checked_sub|checked_mul|saturating_add|saturating_sub|min|max|"
     r"leading_zeros|trailing_zeros|count_ones|swap_bytes|rotate_left|rotate_right|to_le_bytes|to_be_bytes|to_ne_bytes|from_le_bytes|from_be_bytes|from_ne_bytes|"
     r"checked_shl|checked_shr|is_power_of_two|abs_diff)$", m_int_method),
    (r"^<" + INTS + r" as (std::convert::)?TryFrom<" + INTS + r">>::try_from$", m_try_from_int),
    # Option / Result
    (r"^Option::<.*>::(unwrap_or|unwrap_or_default|unwrap_or_else|map|map_or|map_or_else|and_then|or|or_else|xor|zip|filter|ok_or|ok_or_else|copied|cloned|is_some_and)(::<.*>)?$",
     m_option_method),
    (r"^(std::result::)?Result::<.*>::(is_ok|is_err|ok|err|unwrap_or|unwrap_or_else|unwrap_or_default|map|map_err|and_then|or_else|and|or|map_or|as_ref)(::<.*>)?$", m_result_method),
    # mem
    (r"^(std|core)::mem::swap::<", m_mem_swap),
    # Cell<T> is transparent: the cell IS its content; get copies it out, set / replace write through the shared reference
    (r"^(std::cell::|core::cell::)?Cell::<.*>::new$", lambda e, s_, f, c, a, o: a[0]),
    (r"^(std::cell::|core::cell::)?Cell::<.*>::get$", lambda e, s_, f, c, a, o: sym._deref_arg(e, s_, a[0])),
    (r"^(std::cell::|core::cell::)?Cell::<.*>::(set|replace)$", lambda e, s_, f, c, a, o: (lambda old: UNIT if c.endswith("::set") else old)(m_mem_replace(e, s_, f, c, a, o))),
    (r"^(std::cell::|core::cell::)?Cell::<.*>::take$", lambda e, s_, f, c, a, o: m_mem_take(e, s_, f, c, a, o)),
    (r"^<(std::ops::|core::ops::)?Range<\w+> as IntoIterator>::into_iter$", m_identity),
    (r"^<(std::ops::|core::ops::)?Range<\w+> as Iterator>::next$", m_range_next),
    (r"^<(Box|Vec|String|std::string::String|std::boxed::Box|std::vec::Vec)<?.*>? as Drop>::drop$", lambda e, s_, f, c, a, o: UNIT),   # freeing memory: no observable effect
    (r"^(std::ops::|core::ops::)?RangeInclusive::<\w+>::new$", lambda e, s_, f, c, a, o: Adt("std::ops::RangeInclusive", None, [a[0], a[1], z3.BoolVal(False)])),
    (r"^(std|alloc)::vec::from_elem::<", lambda e, s_, f, c, a, o: m_from_elem(e, s_, f, c, a, o)),
    (r"^(std|core)::mem::replace::<", m_mem_replace),
    (r"^(std|core)::mem::take::<", m_mem_take),
    # sequences
    (r"^<Vec<.*> as Deref(Mut)?>::deref(_mut)?$", m_as_slice),
    (r"^Vec::<.*>::(as_slice|as_mut_slice)$", m_as_slice),
    (r"^(core::slice::<impl \[.*\]>|Vec::<.*>)::len$", m_seq_len),
    (r"^(core::slice::<impl \[.*\]>|Vec::<.*>)::is_empty$", m_seq_is_empty),
    (r"^(core::slice::<impl \[.*\]>|Vec::<.*>)::(first|last|first_mut|last_mut)$", m_seq_first_last),
    (r"^(core::slice::<impl \[.*\]>|Vec::<.*>)::(get|get_mut)::<usize>$", m_seq_get),
    (r"^<(Vec<.*>|\[.*\]) as (std::ops::)?Index(Mut)?<usize>>::index(_mut)?$", m_seq_index),
    (r"^<(Vec<.*>|\[.*\]) as (std::ops::)?Index(Mut)?<(std::ops::)?Range(From|To|Inclusive|Full|ToInclusive)?<usize>>>::index(_mut)?$", m_seq_range_index),
    (r"^<(Vec<.*>|\[.*\]) as (std::ops::)?Index(Mut)?<(std::ops::)?RangeFull>>::index(_mut)?$", m_seq_range_index),
    (r"^(core::slice::<impl \[.*\]>|Vec::<.*>)::contains$", m_seq_contains),
    (r"^core::slice::<impl \[.*\]>::split_at$", m_seq_split_at),
    (r"^core::slice::<impl \[.*\]>::(split_first|split_last)$", m_seq_split_first_last),
    (r"^(core::slice::<impl \[.*\]>|slice::<impl \[.*\]>)::to_vec$", m_seq_to_vec),
    (r"^core::slice::<impl \[.*\]>::(chunks|chunks_exact)$", m_seq_chunks),
    (r"^core::slice::<impl \[.*\]>::windows$", m_seq_windows),
    (r"^core::slice::<impl \[.*\]>::swap$", m_seq_swap),
    (r"^(core::slice::<impl \[.*\]>|slice::<impl \[.*\]>)::(sort|sort_unstable)$", m_seq_sort),
    (r"^core::slice::<impl \[.*\]>::binary_search$", m_seq_binary_search),
    (r"^Vec::<.*>::extend_from_slice$", m_vec_extend_from_slice),
    (r"^<Vec<.*> as Extend<.*>>::extend::<", m_vec_extend),
    (r"^Vec::<.*>::(reserve|reserve_exact|shrink_to_fit|shrink_to)$", m_noop),
    (r"^(std::mem::|core::mem::)?discriminant::<", m_discriminant),
    (r"^<(std::mem::|core::mem::)?Discriminant<.*> as PartialEq>::(eq|ne)$", lambda e, s_, f, c, a, o: z3.simplify((_deref(e, s_, a[0]) == _deref(e, s_, a[1])) if c.endswith("eq") else (_deref(e, s_, a[0]) != _deref(e, s_, a[1])))),
    (r"^Vec::<.*>::truncate$", m_vec_truncate),
    (r"^Vec::<.*>::clear$", m_vec_clear),
    (r"^Vec::<.*>::(remove|swap_remove)$", m_vec_remove),
    (r"^Vec::<.*>::retain::<", m_vec_retain),
    # iterators
    (r"^core::slice::<impl \[.*\]>::(iter|iter_mut)$", m_iter),
    (r"^<(&(mut )?Vec<.*>|&(mut )?\[.*\]|Vec<.*>|\[.*; \d+\]) as IntoIterator>::into_iter$", m_into_iter_vec),
    (r"^<" + ITER + r" as IntoIterator>::into_iter$", m_identity),
    (r"^<" + ITER + r" as Iterator>::enumerate$", m_enumerate),
    (r"^<" + ITER + r" as Iterator>::rev$", m_rev),
    (r"^<" + ITER + r" as Iterator>::skip$", m_skip),
    (r"^<" + ITER + r" as Iterator>::take$", m_take),
    (r"^<" + ITER + r" as Iterator>::step_by$", m_step_by),
    (r"^<" + ITER + r" as Iterator>::chain::<", m_chain),
    (r"^<" + ITER + r" as Iterator>::zip::<", m_zip),
    (r"^<" + ITER + r" as Iterator>::(copied|cloned)::<", m_copied),
    (r"^<" + ITER + r" as Iterator>::map::<", m_map),
    (r"^<" + ITER + r" as Iterator>::filter::<", m_filter),
    (r"^<" + ITER + r" as Iterator>::(take_while|skip_while)::<", m_take_skip_while),
    (r"^<" + ITER + r" as Iterator>::find::<", m_find),
    (r"^<" + ITER + r" as Iterator>::position::<", m_position),
    (r"^<" + ITER + r" as Iterator>::find_map::<", m_find_map),
    (r"^<" + ITER + r" as Iterator>::for_each::<", m_for_each),
    (r"^<" + ITER + r" as Iterator>::(any|all)::<", m_any_all),
    (r"^<" + ITER + r" as Iterator>::count$", m_count),
    (r"^<" + ITER + r" as Iterator>::last$", m_last),
    (r"^<" + ITER + r" as Iterator>::nth$", m_nth),
    (r"^<" + ITER + r" as Iterator>::fold::<", m_fold),
    (r"^<" + ITER + r" as Iterator>::sum::<", m_sum),
    (r"^<" + ITER + r" as Iterator>::(max|min)$", m_max_min),
    (r"^<" + ITER + r" as Iterator>::collect::<Vec<", m_collect_vec),
    (r"^<" + ITER + r" as Iterator>::next$", m_next),
]
